--------------------------- MODULE DecoderInputs ---------------------------
(***************************************************************************)
(* C05: input classes for the eleven decoders, derived from the layouts of *)
(* EngineFormat.tla.  For each kind one valid payload is taken from the    *)
(* specification's encoder; the inputs are                                  *)
(*   - every truncation of it (0 .. Len bytes),                             *)
(*   - the payload with each embedded count / length field replaced by      *)
(*     each boundary class (negative, 0, 1, exact fit - 1, exact fit,       *)
(*     exact fit + 1, 2^31, 2^61, 2^63 - 1), each also truncated to the     *)
(*     lengths around the positions the guards compare against,             *)
(*   - the payload with each byte position overwritten by 0x00 / 0xFF.      *)
(* Every state of the instance is one input; TLC emits them all.            *)
(***************************************************************************)
EXTENDS EngineFormat, Json, TLC, FiniteSets

CONSTANT Kinds

P8(k) == [j \in 1 .. 8 |-> (16 * k + j) % 256]
P4(k) == [j \in 1 .. 4 |-> (16 * k + j) % 256]
Col(k) == [a |-> 200 + k, r |-> 10 + k, g |-> 20 + k, b |-> 30 + k]

Sample(kind) ==
    CASE kind = "track_data2" -> [rate |-> P8(1), samples |-> P8(2), key |-> P4(3), low |-> P8(4), mid |-> P8(5), high |-> P8(6), extra |-> <<>>]
      [] kind = "beat_data2" -> [rate |-> P8(1), samples |-> P8(2), isset |-> 1,
                                 dflt |-> [k \in 1 .. 2 |-> [off |-> P8(k), beat |-> P8(k + 4), nbeats |-> P4(k), unk |-> P4(k + 2)]],
                                 adj |-> [k \in 1 .. 2 |-> [off |-> P8(k + 1), beat |-> P8(k + 5), nbeats |-> P4(k + 1), unk |-> P4(k + 3)]],
                                 extra |-> <<0, 0, 0, 0, 0, 0, 0, 0, 0>>]
      [] kind = "quick_cues2" -> [cues |-> [k \in 1 .. 2 |-> [label |-> <<65, 66 + k>>, off |-> P8(k)] @@ Col(k)], adj |-> P8(9), isadj |-> 1, dflt |-> P8(10), extra |-> <<>>]
      [] kind = "loops2" -> [loops |-> [k \in 1 .. 2 |-> [label |-> <<65, 66 + k>>, start |-> P8(k), end |-> P8(k + 6), ss |-> 1, es |-> 1] @@ Col(k)], extra |-> <<>>]
      [] kind = "overview2" -> [pts |-> [k \in 1 .. 3 |-> [l |-> k, m |-> k + 50, h |-> k + 100]], spp |-> P8(1), max |-> [l |-> 7, m |-> 8, h |-> 9], extra |-> <<>>]
      [] kind = "track_data1" -> [rate |-> <<P8(1)>>, count |-> <<P8(2)>>, loud |-> <<P8(3)>>, key |-> <<5>>]
      [] kind = "beat_data1" -> [rate |-> <<P8(1)>>, count |-> <<P8(2)>>,
                                 dflt |-> [k \in 1 .. 2 |-> [idx |-> 2 * k - 5, off |-> <<64, 16 * k, 0, 0, 0, 0, 0, 0>>]],
                                 adj |-> [k \in 1 .. 2 |-> [idx |-> 3 * k - 4, off |-> <<64, 16 * k, 1, 0, 0, 0, 0, 0>>]]]
      [] kind = "hires1" -> [spe |-> P8(1), pts |-> [k \in 1 .. 2 |-> [l |-> k, m |-> 2 * k, h |-> 3 * k, lo |-> 255, mo |-> 255, ho |-> 255]]]
      [] kind = "overview1" -> [spe |-> P8(1), pts |-> [k \in 1 .. 2 |-> [l |-> k, m |-> 2 * k, h |-> 3 * k, lo |-> 255, mo |-> 255, ho |-> 255]]]
      [] kind = "loops1" -> [loops |-> [k \in 1 .. 2 |-> <<[label |-> <<65, 66 + k>>, start |-> P8(k), end |-> P8(k + 6)] @@ Col(k)>>]]
      [] kind = "quick_cues1" -> [cues |-> [k \in 1 .. 8 |-> IF k > 2 THEN <<>> ELSE <<[label |-> <<65, 66 + k>>, off |-> P8(k)] @@ Col(k)>>],
                                  adj |-> P8(9), dflt |-> P8(10)]

Payload(kind) == Enc(kind, Sample(kind))

\* (1-based position, width, little-endian?) of every embedded count / length field
CountFields(kind) ==
    CASE kind = "beat_data2" -> {<<18, 8, FALSE>>, <<74, 8, FALSE>>}
      [] kind = "beat_data1" -> {<<18, 8, FALSE>>, <<74, 8, FALSE>>}
      [] kind = "quick_cues2" -> {<<1, 8, FALSE>>, <<9, 1, FALSE>>}
      [] kind = "quick_cues1" -> {<<1, 8, FALSE>>, <<9, 1, FALSE>>}
      [] kind = "loops2" -> {<<1, 8, TRUE>>, <<9, 1, FALSE>>}
      [] kind = "loops1" -> {<<1, 8, TRUE>>, <<9, 1, FALSE>>}
      [] kind \in {"overview2", "overview1", "hires1"} -> {<<1, 8, FALSE>>, <<9, 8, FALSE>>}
      [] OTHER -> {}

\* boundary classes of a count field, as 8 big-endian bytes (fit = the value the sample holds there)
Boundary(fit) == { <<255, 255, 255, 255, 255, 255, 255, 255>>,          \* -1
                   <<128, 0, 0, 0, 0, 0, 0, 0>>,                        \* most negative
                   BEn(0, 8), BEn(1, 8), BEn(IF fit > 0 THEN fit - 1 ELSE 0, 8), BEn(fit, 8), BEn(fit + 1, 8), BEn(fit + 100, 8),
                   <<0, 0, 0, 0, 128, 0, 0, 0>>,                        \* 2^31
                   <<32, 0, 0, 0, 0, 0, 0, 0>>,                         \* 2^61
                   <<127, 255, 255, 255, 255, 255, 255, 255>> }         \* 2^63 - 1

VARIABLE inp      \* [kind, bytes]

WithField(pl, pos, w, le, val8) ==
    LET bytes == IF w = 1 THEN <<val8[8]>> ELSE IF le THEN Rev(val8) ELSE val8 IN
    [k \in 1 .. Len(pl) |-> IF k >= pos /\ k < pos + w THEN bytes[k - pos + 1] ELSE pl[k]]
FieldValue(pl, pos, w, le) == IF w = 1 THEN pl[pos] ELSE IF le THEN pl[pos] ELSE pl[pos + 7]     \* (small sample counts)

\* Fields whose value enters signed arithmetic in a decoder although it is no count: the 64-bit beat index of a 1.x beat-grid
\* marker is narrowed to 32 bits and consecutive indices are subtracted.  Boundary classes of a signed field:
ArithFields(kind) == IF kind = "beat_data1" THEN {<<34, 8, TRUE>>, <<58, 8, TRUE>>, <<90, 8, TRUE>>, <<114, 8, TRUE>>} ELSE {}
SignedBoundary == { <<0, 0, 0, 0, 127, 255, 255, 255>>,                 \* 2^31 - 1
                    <<255, 255, 255, 255, 128, 0, 0, 0>>,               \* -2^31
                    <<0, 0, 0, 0, 128, 0, 0, 0>>,                       \* 2^31
                    <<255, 255, 255, 255, 255, 255, 255, 254>>,         \* -2
                    <<127, 255, 255, 255, 255, 255, 255, 255>>,         \* 2^63 - 1
                    <<128, 0, 0, 0, 0, 0, 0, 0>> }                      \* -2^63
\* all 8-byte count fields of a payload replaced by the SAME boundary value: the waveform layouts repeat their entry count and
\* the decoders compare the two before they compute with them, so a single replaced field never reaches the arithmetic
Wide(kind) == {f \in CountFields(kind) : f[2] = 8}
RECURSIVE WithFields(_, _, _)
WithFields(pl, fs, val8) == IF fs = {} THEN pl ELSE LET f == CHOOSE x \in fs : TRUE IN WithFields(WithField(pl, f[1], f[2], f[3], val8), fs \ {f}, val8)
\* (the length the decoders compare a pair of equal counts n against: such that n entries fit exactly / with a remainder)
JointBoundary(kind, pl) ==
    LET f == CHOOSE x \in Wide(kind) : TRUE IN Boundary(FieldValue(pl, f[1], f[2], f[3]))

\* Entries with long labels: a guard that bounds the announced number of entries ONCE by (remaining bytes / fixed part of an entry)
\* counts the label bytes of the entries that are there as room for entries that are not.  The sample's labels are 30 bytes each
\* (two of them outweigh the fixed parts of two more entries); the count announces 0 .. 3 entries more than are present and the
\* payload is cut at every length - in particular exactly behind the last entry that is present, where the next label-length byte
\* would be the first byte beyond the buffer.
LabelKinds == {"quick_cues2", "quick_cues1", "loops2", "loops1"}
L30(k) == [j \in 1 .. 30 |-> 65 + ((k + j) % 26)]
HeavySample(kind) ==
    LET sm == Sample(kind) IN
    CASE kind = "loops2" -> [sm EXCEPT !.loops = [k \in DOMAIN sm.loops |-> [sm.loops[k] EXCEPT !.label = L30(k)]]]
      [] kind = "quick_cues2" -> [sm EXCEPT !.cues = [k \in DOMAIN sm.cues |-> [sm.cues[k] EXCEPT !.label = L30(k)]]]
      [] kind = "loops1" -> [sm EXCEPT !.loops = [k \in DOMAIN sm.loops |-> <<[sm.loops[k][1] EXCEPT !.label = L30(k)]>>]]
      [] kind = "quick_cues1" -> [sm EXCEPT !.cues = [k \in DOMAIN sm.cues |-> IF sm.cues[k] = <<>> THEN <<>> ELSE <<[sm.cues[k][1] EXCEPT !.label = L30(k)]>>]]
HeavyInputs(kind) ==
    IF kind \notin LabelKinds THEN {}
    ELSE LET hp == Enc(kind, HeavySample(kind))
             f == CHOOSE x \in CountFields(kind) : x[2] = 8
             fit == FieldValue(hp, f[1], f[2], f[3]) IN
         {SubSeq(WithField(hp, f[1], 8, f[3], BEn(c, 8)), 1, n) : c \in fit .. fit + 3, n \in 9 .. Len(hp)}

Inputs(kind) ==
    LET pl == Payload(kind) IN
       HeavyInputs(kind) \cup
       (IF Cardinality(Wide(kind)) >= 2
        THEN {WithFields(pl, Wide(kind), b) : b \in JointBoundary(kind, pl)}
             \cup {SubSeq(WithFields(pl, Wide(kind), b), 1, n) : b \in JointBoundary(kind, pl), n \in {Len(pl) - 2, Len(pl) - 1}}
             \cup {WithFields(pl, Wide(kind), b) \o <<0>> : b \in JointBoundary(kind, pl)}
        ELSE {})
  \cup UNION {{WithField(pl, f[1], f[2], f[3], b) : b \in SignedBoundary} : f \in ArithFields(kind)}
  \cup UNION {UNION {{WithField(WithField(pl, f[1], f[2], f[3], a), g[1], g[2], g[3], b) : a \in SignedBoundary, b \in SignedBoundary} :
                        g \in {h \in ArithFields(kind) : h[1] = f[1] + 24}} : f \in ArithFields(kind)}
  \cup {SubSeq(pl, 1, n) : n \in 0 .. Len(pl)}
  \cup UNION {{WithField(pl, f[1], f[2], f[3], b) : b \in Boundary(FieldValue(pl, f[1], f[2], f[3]))} : f \in CountFields(kind)}
  \cup UNION {{SubSeq(WithField(pl, f[1], f[2], f[3], b), 1, n) : b \in Boundary(FieldValue(pl, f[1], f[2], f[3])),
                                                                   n \in {f[1] + f[2] - 1, f[1] + f[2], f[1] + f[2] + 7, f[1] + f[2] + 8, Len(pl) - 1}} : f \in CountFields(kind)}
  \cup {[k \in 1 .. Len(pl) |-> IF k = j THEN v ELSE pl[k]] : j \in 1 .. Len(pl), v \in {0, 255}}

Init == \E kind \in Kinds : \E b \in Inputs(kind) : inp = [kind |-> kind, bytes |-> b]
Next == UNCHANGED inp
Spec == Init /\ [][Next]_inp

TypeInv == \A k \in DOMAIN inp.bytes : inp.bytes[k] \in Byte
EmitInput == PrintT("INP " \o ToJson(inp))
=============================================================================
