--------------------------- MODULE MCTrackFields ---------------------------
(* Script generation for the track-level checks: value classes per field (absent / each sentinel /      *)
(* ordinary values / edge cases), base snapshots, and all sequences of at most two setter calls.         *)
(* Values are given in the script form understood by harness/snapjson.hpp (strings may be generator      *)
(* tokens such as "@long300").  TLC checks on the model that every normal form is a fixed point           *)
(* (NormF(NormF(v)) = NormF(v)) and emits the base snapshots and the setter sequences.                    *)
EXTENDS TrackFields, Json, TLC

CONSTANT MaxSetters

D0 == Zero
DN == NegZero
DM1 == MinusOne
D1 == "3ff8000000000000"     \* 1.5
D2 == "40c3880000000000"     \* 10000.0
D3 == "405fe00000000000"     \* 127.5
D4 == "40e5888000000000"     \* 44100.0

Cue(lab, off) == [label |-> lab, off |-> off, r |-> 11, g |-> 22, b |-> 33, a |-> 255]
Loop(lab, st, en) == [label |-> lab, start |-> st, end |-> en, r |-> 44, g |-> 55, b |-> 66, a |-> 255]
CueN == Cue("drop", D2)
LoopN == Loop("loop", D2, "40d3880000000000")
Empty8 == <<<<>>, <<>>, <<>>, <<>>, <<>>, <<>>, <<>>, <<>>>>

Strs == {<<>>, <<"">>, <<"a">>, <<"@long300">>, <<"@utf8">>}
ValueClasses(f) ==
    CASE f \in StrFields \ {"relative_path"} -> Strs
      [] f = "relative_path" -> {<<"music/a.mp3">>, <<"b.flac">>, <<"dir.d/noext">>, <<"@utf8">>}
      [] f \in ZeroAbsentFields -> {<<>>, <<D0>>, <<DN>>, <<D1>>, <<D4>>, <<DM1>>}
      [] f = "bpm" -> {<<>>, <<D0>>, <<D3>>, <<"405e000000000000">>}
      [] f \in {"bitrate", "track_number", "year"} -> {<<>>, <<0>>, <<320>>, <<2147483647>>, <<-1>>}
      [] f = "rating" -> {<<>>, <<-3>>, <<0>>, <<60>>, <<100>>, <<150>>}
      [] f = "key" -> {<<>>, <<0>>, <<5>>, <<23>>}
      [] f = "duration" -> {<<>>, <<0>>, <<999>>, <<1000>>, <<61999>>}
      [] f = "sample_count" -> {<<>>, <<"0">>, <<"1">>, <<"441000">>}
      [] f = "last_played_at" -> {<<>>, <<[s |-> "0", f |-> 0]>>, <<[s |-> "1700000000", f |-> 0]>>, <<[s |-> "1700000000", f |-> 500000000]>>}
      [] f = "beatgrid" -> {<<>>, <<<<-4, "c0c3880000000000">>, <<12, D2>>>>, <<<<0, D0>>, <<4, D2>>, <<9, "40d3880000000000">>>>,
                            <<<<0, D2>>>>}
      [] f = "hot_cues" -> {<<>>, <<<<CueN>>>>, <<<<>>, <<>>, <<>>, <<Cue("", D1)>>, <<>>, <<>>, <<>>, <<Cue("@long255", D2)>>>>,
                            <<<<Cue("x", DM1)>>, <<CueN>>>>, <<<<Cue("@long256", D2)>>>>,
                            <<<<CueN>>, <<CueN>>, <<CueN>>, <<CueN>>, <<CueN>>, <<CueN>>, <<CueN>>, <<CueN>>, <<CueN>>>>}
      [] f = "loops" -> {<<>>, <<<<LoopN>>>>, <<<<>>, <<>>, <<>>, <<Loop("", D1, D2)>>, <<>>, <<>>, <<>>, <<Loop("@long255", D1, D2)>>>>,
                         <<<<Loop("x", DM1, D2)>>, <<LoopN>>>>, <<<<Loop("@long256", D1, D2)>>>>,
                         <<<<LoopN>>, <<LoopN>>, <<LoopN>>, <<LoopN>>, <<LoopN>>, <<LoopN>>, <<LoopN>>, <<LoopN>>, <<LoopN>>>>}
      [] f = "waveform" -> {[n |-> 0, seed |-> 1, opaque |-> TRUE], [n |-> 10, seed |-> 2, opaque |-> TRUE],
                            [n |-> 1024, seed |-> 3, opaque |-> TRUE], [n |-> 300, seed |-> 4, opaque |-> FALSE]}
      [] f = "hot_cue_at" -> {[i |-> i, v |-> v] : i \in {-1, 0, 3, 7, 8}, v \in {<<>>, <<CueN>>, <<Cue("x", DM1)>>}}
      [] f = "loop_at" -> {[i |-> i, v |-> v] : i \in {-1, 0, 3, 7, 8}, v \in {<<>>, <<LoopN>>, <<Loop("x", DM1, D2)>>}}
      [] OTHER -> {<<>>}

SetterFields == (AllFields \ {"file_bytes"}) \cup {"hot_cue_at", "loop_at"}

\* base snapshots
Min == [relative_path |-> <<"music/min.mp3">>]
Full == [album |-> <<"Album">>, artist |-> <<"Artist">>, comment |-> <<"c">>, composer |-> <<"comp">>, genre |-> <<"g">>,
         title |-> <<"Title">>, publisher |-> <<"pub">>, relative_path |-> <<"music/full.mp3">>,
         average_loudness |-> <<"3fe0000000000000">>, bpm |-> <<D3>>, main_cue |-> <<D2>>, sample_rate |-> <<D4>>,
         bitrate |-> <<320>>, track_number |-> <<7>>, year |-> <<1999>>, rating |-> <<80>>, key |-> <<5>>,
         duration |-> <<366000>>, file_bytes |-> <<"1234567">>, sample_count |-> <<"16140600">>,
         last_played_at |-> <<[s |-> "1600000000", f |-> 0]>>,
         beatgrid |-> <<<<-4, "c0c3880000000000">>, <<812, "416e8da800000000">>>>,
         hot_cues |-> <<<<CueN>>, <<>>, <<Cue("b", D4)>>>>, loops |-> <<<<LoopN>>>>,
         waveform |-> [n |-> 2000, seed |-> 9, opaque |-> TRUE]]
Sentinels == [relative_path |-> <<"s.wav">>, average_loudness |-> <<D0>>, main_cue |-> <<DN>>, sample_rate |-> <<D0>>, rating |-> <<0>>,
              duration |-> <<999>>, sample_count |-> <<"0">>, bpm |-> <<D0>>, key |-> <<0>>,
              hot_cues |-> <<<<Cue("x", DM1)>>>>, loops |-> <<<<Loop("x", DM1, D2)>>>>, last_played_at |-> <<[s |-> "1700000000", f |-> 999999999]>>]
Edge == [relative_path |-> <<"@utf8">>, title |-> <<"@long300">>, album |-> <<"">>, rating |-> <<150>>, year |-> <<-1>>, bitrate |-> <<2147483647>>,
         hot_cues |-> <<<<>>, <<>>, <<>>, <<>>, <<>>, <<>>, <<>>, <<Cue("@long255", D1)>>>>, loops |-> <<<<>>, <<>>, <<>>, <<>>, <<>>, <<>>, <<>>, <<Loop("@long255", D1, D2)>>>>]
Bases == {Min, Full, Sentinels, Edge}
BaseName(b) == CASE b = Min -> "min" [] b = Full -> "full" [] b = Sentinels -> "sentinels" [] OTHER -> "edge"

VARIABLE hist      \* sequence of [f, v]

Init == hist = <<>>
Next == /\ Len(hist) < MaxSetters
        /\ \E f \in SetterFields : \E v \in ValueClasses(f) : hist' = Append(hist, [f |-> f, v |-> v])
Spec == Init /\ [][Next]_hist

\* normal forms are fixed points (C01 "the read-back snapshot is a fixed point", on the model)
Canon(f, v) == v    \* (script values and canonical values coincide for the fields NormF computes on)
FixInv == \A fam \in {"v1", "v2"}, fb \in BOOLEAN, f \in {"rating", "duration", "sample_count"} \cup ZeroAbsentFields :
              \A v \in ValueClasses(f) : NormF(fam, fb, f, NormF(fam, fb, f, v)) = NormF(fam, fb, f, v)

EmitSeq == hist = <<>> \/ PrintT("SETS " \o ToJson(hist))
ASSUME PrintT("BASES " \o ToJson([b \in {"min", "full", "sentinels", "edge"} |->
                 CHOOSE x \in Bases : BaseName(x) = b]))
=============================================================================
