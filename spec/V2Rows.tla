------------------------------ MODULE V2Rows ------------------------------
(***************************************************************************)
(* The rows of the schema-2.x tables that the crate / membership / track    *)
(* calls write, the SQL statements those calls issue (triggers and UNIQUE   *)
(* constraints folded into their statement) and the statement program of    *)
(* each public call.  Constant-level module: used by V2Store.tla (model      *)
(* checking, refinement into Library.tla) and by TraceV2Store.tla (the rows  *)
(* an independent reader finds in the real database must be exactly the rows *)
(* this module predicts).                                                    *)
(***************************************************************************)
EXTENDS Integers, Sequences, FiniteSets, TLC

CONSTANTS
    ValidNames, InvalidNames,
    Variant                 \* "current" or one of the pre-repair shapes, see Prog

Names == ValidNames \cup InvalidNames

PRow(t, p, n) == [t |-> t, p |-> p, n |-> n]          \* Playlist: title, parentListId, nextListId
ERow(l, tr, n) == [l |-> l, tr |-> tr, n |-> n]       \* PlaylistEntity: listId, trackId, nextEntityId
Restrict(f, S) == [x \in S |-> f[x]]
Res(ok, s) == [ok |-> ok, s |-> s]

-----------------------------------------------------------------------------
(* Constraints and triggers *)
UniqP(P) == \A a, b \in DOMAIN P : a # b =>
                /\ ~(P[a].t = P[b].t /\ P[a].p = P[b].p)
                /\ ~(P[a].p = P[b].p /\ P[a].n = P[b].n)
UniqE(E) == \A a, b \in DOMAIN E : a # b => ~(E[a].l = E[b].l /\ E[a].tr = E[b].tr)

Min(S) == CHOOSE x \in S : \A y \in S : x <= y

\* INSERT INTO Playlist (title, parentListId, nextListId) with trigger_before_insert_List / trigger_after_insert_List
InsP(S, t, p, n) ==
    LET id == S.sp + 1
        P0 == S.P
        P1 == [x \in DOMAIN P0 |-> IF P0[x].n = n /\ P0[x].p = p THEN [P0[x] EXCEPT !.n = -(1 + n)] ELSE P0[x]]
        P2 == [x \in DOMAIN P1 \cup {id} |-> IF x = id THEN PRow(t, p, n) ELSE P1[x]]
        P3 == [x \in DOMAIN P2 |-> IF P2[x].n = -(1 + n) /\ P2[x].p = p THEN [P2[x] EXCEPT !.n = id] ELSE P2[x]]
    IN Res(UniqP(P1) /\ UniqP(P2) /\ UniqP(P3), [S EXCEPT !.P = P3, !.sp = id])

\* UPDATE Playlist SET <cols> WHERE <cond>: the same new value for every matching row
UpdP(S, Match(_), New(_)) ==
    LET P1 == [x \in DOMAIN S.P |-> IF Match(x) THEN New(x) ELSE S.P[x]]
    IN Res(UniqP(P1), [S EXCEPT !.P = P1])

\* one row of DELETE FROM Playlist with trigger_after_delete_List (re-point, then delete the direct children,
\* which fires no trigger because recursive triggers are off)
DelPRow(P, r) ==
    LET P1 == Restrict(P, DOMAIN P \ {r})
        P2 == [x \in DOMAIN P1 |-> IF P1[x].n = r THEN [P1[x] EXCEPT !.n = P[r].n] ELSE P1[x]]
        P3 == Restrict(P2, {x \in DOMAIN P2 : P2[x].p # r})
    IN Res(UniqP(P2), P3)
RECURSIVE DelPRows(_, _)
DelPRows(P, R) ==
    LET R1 == R \cap DOMAIN P IN
    IF R1 = {} THEN Res(TRUE, P)
    ELSE LET r == Min(R1)
             d == DelPRow(P, r)
             rest == DelPRows(d.s, R1 \ {r})
         IN Res(d.ok /\ rest.ok, rest.s)
DelP(S, R) == LET d == DelPRows(S.P, R) IN Res(d.ok, [S EXCEPT !.P = d.s])

\* one row of DELETE FROM PlaylistEntity with trigger_before_delete_PlaylistEntity
DelERow(E, r) ==
    LET E1 == [x \in DOMAIN E |-> IF E[x].n = r /\ E[x].l = E[r].l THEN [E[x] EXCEPT !.n = E[r].n] ELSE E[x]]
    IN Restrict(E1, DOMAIN E1 \ {r})
RECURSIVE DelERows(_, _)
DelERows(E, R) ==
    LET R1 == R \cap DOMAIN E IN
    IF R1 = {} THEN E ELSE LET r == Min(R1) IN DelERows(DelERow(E, r), R1 \ {r})
DelE(S, R) == Res(TRUE, [S EXCEPT !.E = DelERows(S.E, R)])

InsE(S, l, tr) ==
    LET id == S.se + 1
        E1 == [x \in DOMAIN S.E \cup {id} |-> IF x = id THEN ERow(l, tr, 0) ELSE S.E[x]]
    IN Res(UniqE(E1), [S EXCEPT !.E = E1, !.se = id])
\* UPDATE PlaylistEntity SET nextEntityId = <last id> WHERE listId = l AND nextEntityId = 0 AND id <> <last id>
UpdTail(S, l) ==
    Res(TRUE, [S EXCEPT !.E = [x \in DOMAIN S.E |->
                  IF S.E[x].l = l /\ S.E[x].n = 0 /\ x # S.se THEN [S.E[x] EXCEPT !.n = S.se] ELSE S.E[x]]])

-----------------------------------------------------------------------------
(* Forest helpers on rows *)
RECURSIVE AncP(_, _, _)
AncP(P, c, fuel) == IF fuel = 0 \/ c \notin DOMAIN P \/ P[c].p = 0 THEN {} ELSE {P[c].p} \cup AncP(P, P[c].p, fuel - 1)
AncOf(P, c) == AncP(P, c, Cardinality(DOMAIN P))
DescOf(P, c) == {d \in DOMAIN P : c \in AncOf(P, d)}

\* the library's read path for an ordered group: walk backwards from the tail (sort_ids / get_for_list)
RECURSIVE Walk(_, _, _, _, _)
Walk(R, nxt, curr, acc, fuel) ==
    LET pred == {x \in R : nxt[x] = curr} IN
    IF pred = {} \/ fuel = 0 THEN acc
    ELSE LET x == CHOOSE y \in pred : TRUE IN Walk(R, nxt, x, <<x>> \o acc, fuel - 1)
KidsOf(S, p) == LET R == {c \in DOMAIN S.P : S.P[c].p = p} IN
                Walk(R, [c \in R |-> S.P[c].n], 0, <<>>, Cardinality(R))
EntsOf(S, c) == LET R == {e \in DOMAIN S.E : S.E[e].l = c} IN
                Walk(R, [e \in R |-> S.E[e].n], 0, <<>>, Cardinality(R))
MemOf(S, c) == LET es == EntsOf(S, c) IN [i \in DOMAIN es |-> S.E[es[i]].tr]

-----------------------------------------------------------------------------
(* Statements.  k is the kind; Exec gives the store after the statement, or ok = FALSE when a constraint *)
(* fails (the statement then has no effect and the call throws).                                        *)
Stmt(k, a, b, c, d) == [k |-> k, a |-> a, b |-> b, c |-> c, d |-> d]
Exec(s, S) ==
    CASE s.k = "insP" -> InsP(S, s.a, s.b, s.c)
      [] s.k = "updTitle" -> UpdP(S, LAMBDA x : x = s.a, LAMBDA x : [S.P[x] EXCEPT !.t = s.b])
      [] s.k = "u1" -> UpdP(S, LAMBDA x : x = s.a, LAMBDA x : [S.P[x] EXCEPT !.n = -(1 + @)])
      [] s.k = "u2" -> UpdP(S, LAMBDA x : S.P[x].n = s.b /\ S.P[x].p = s.c, LAMBDA x : [S.P[x] EXCEPT !.n = s.a])
      [] s.k = "u3" -> UpdP(S, LAMBDA x : S.P[x].n = s.b /\ S.P[x].p = s.c, LAMBDA x : [S.P[x] EXCEPT !.n = s.a])
      [] s.k = "u4" -> UpdP(S, LAMBDA x : x = s.a, LAMBDA x : PRow(s.b, s.c, s.d))
      [] s.k = "delEofLists" -> DelE(S, {e \in DOMAIN S.E : S.E[e].l \in s.a})
      [] s.k = "delEofTrack" -> DelE(S, {e \in DOMAIN S.E : S.E[e].tr = s.a})
      [] s.k = "delE" -> DelE(S, {e \in DOMAIN S.E : S.E[e].l = s.a /\ e = s.b})
      [] s.k = "delPdesc" -> DelP(S, DescOf(S.P, s.a))
      [] s.k = "delP" -> DelP(S, {s.a})
      [] s.k = "insE" -> InsE(S, s.a, s.b)
      [] s.k = "updTail" -> UpdTail(S, s.a)
      [] s.k = "insT" -> Res(TRUE, [S EXCEPT !.T = @ \cup {S.stt + 1}, !.stt = @ + 1])
      [] s.k = "delT" -> Res(TRUE, [S EXCEPT !.T = @ \ {s.a}])
      [] OTHER -> Res(FALSE, S)

Begin == Stmt("begin", 0, 0, 0, 0)
Commit == Stmt("commit", 0, 0, 0, 0)
Throw == Stmt("throw", 0, 0, 0, 0)        \* the call rejects its arguments before touching the database

Call(op, c, p, n, t, a) == [op |-> op, c |-> c, p |-> p, n |-> n, t |-> t, a |-> a]

\* The statements a call issues, given the store it starts from (every SELECT happens before the first write)
Prog(call, S) ==
    LET P == S.P
        Dup(p, n) == \E x \in DOMAIN P : P[x].p = p /\ P[x].t = n
        Create(p, n, nxt) == IF Dup(p, n) \/ n \in InvalidNames THEN <<Throw>> ELSE <<Stmt("insP", n, p, nxt, 0)>>
    IN
    CASE call.op = "create_root" -> Create(0, call.n, 0)
      [] call.op = "create_sub" -> Create(call.c, call.n, 0)
      [] call.op = "create_root_after" -> IF P[call.a].p # 0 THEN <<Throw>> ELSE Create(0, call.n, P[call.a].n)
      [] call.op = "create_sub_after" -> IF P[call.a].p # call.c THEN <<Throw>> ELSE Create(call.c, call.n, P[call.a].n)
      [] call.op = "set_name" ->
            IF call.n \in InvalidNames THEN <<Throw>>
            ELSE <<Begin, Stmt("updTitle", call.c, call.n, 0, 0), Commit>>
      [] call.op = "set_parent" ->
            LET c == call.c
                p == call.p
                nn == IF Variant = "set-parent-keeps-next" THEN P[c].n ELSE 0
            IN
            IF p = c \/ (Variant # "set-parent-no-cycle-check" /\ p # 0 /\ c \in AncOf(P, p)) THEN <<Throw>>
            ELSE IF P[c].p = p THEN <<Begin, Stmt("updTitle", c, P[c].t, 0, 0), Commit>>
            ELSE <<Begin, Stmt("u1", c, 0, 0, 0), Stmt("u2", P[c].n, c, P[c].p, 0), Stmt("u3", c, nn, p, 0),
                   Stmt("u4", c, P[c].t, p, nn), Commit>>
      [] call.op = "remove_crate" ->
            IF Variant = "remove-crate-shallow" THEN <<Stmt("delP", call.c, 0, 0, 0)>>
            ELSE <<Begin, Stmt("delEofLists", {call.c} \cup DescOf(P, call.c), 0, 0, 0), Stmt("delPdesc", call.c, 0, 0, 0),
                   Stmt("delP", call.c, 0, 0, 0), Commit>>
      [] call.op = "add_track" ->
            IF \E e \in DOMAIN S.E : S.E[e].l = call.c /\ S.E[e].tr = call.t THEN <<>>
            ELSE IF Variant = "add-track-no-txn" THEN <<Stmt("insE", call.c, call.t, 0, 0), Stmt("updTail", call.c, 0, 0, 0)>>
            ELSE <<Begin, Stmt("insE", call.c, call.t, 0, 0), Stmt("updTail", call.c, 0, 0, 0), Commit>>
      [] call.op = "remove_track_from" ->
            LET es == {e \in DOMAIN S.E : S.E[e].l = call.c /\ S.E[e].tr = call.t} IN
            IF es = {} THEN <<>>
            ELSE IF Variant = "remove-track-from-by-track-id" THEN <<Stmt("delE", call.c, call.t, 0, 0)>>
            ELSE <<Stmt("delE", call.c, CHOOSE e \in es : TRUE, 0, 0)>>
      [] call.op = "clear_tracks" -> <<Stmt("delEofLists", {call.c}, 0, 0, 0)>>
      [] call.op = "create_track" -> <<Stmt("insT", 0, 0, 0, 0)>>
      [] call.op = "remove_track" ->
            IF Variant = "remove-track-shallow" THEN <<Stmt("delT", call.t, 0, 0, 0)>>
            ELSE <<Begin, Stmt("delEofTrack", call.t, 0, 0, 0), Stmt("delT", call.t, 0, 0, 0), Commit>>
      [] OTHER -> <<Throw>>

\* the id a successful creating call reports
NewId(call, S) == IF call.op \in {"create_root", "create_sub", "create_root_after", "create_sub_after"} THEN S.sp
                  ELSE IF call.op = "create_track" THEN S.stt ELSE 0


\* all statements of a program in one go: the store after the call and whether it completed
RECURSIVE RunAll(_, _, _)
RunAll(prog, S, sn) ==
    IF prog = <<>> THEN Res(TRUE, S)
    ELSE LET s == Head(prog)
             ex == IF s.k \in {"begin", "commit", "throw"} THEN Res(s.k # "throw", S) ELSE Exec(s, S)
         IN IF ~ex.ok THEN Res(FALSE, IF sn # <<>> THEN sn[1] ELSE S)
            ELSE RunAll(Tail(prog), ex.s, IF s.k = "begin" THEN <<S>> ELSE IF s.k = "commit" THEN <<>> ELSE sn)

EmptyStore == [P |-> <<>>, E |-> <<>>, T |-> {}, sp |-> 0, se |-> 0, stt |-> 0]
=============================================================================
