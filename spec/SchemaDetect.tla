---------------------------- MODULE SchemaDetect ----------------------------
(***************************************************************************)
(* C13: schema and layout detection as a decision table.                   *)
(*                                                                         *)
(* A directory holds the legacy layout (m.db [+ p.db]), the Database2      *)
(* layout (Database2/m.db), both, or neither.  The library file carries a  *)
(* version triple and, for 1.18.0, the documented variant marker (the      *)
(* declared type of Track.isExternalTrack: NUMERIC = desktop).  Loading    *)
(* must select the schema solely and exactly from these.                   *)
(***************************************************************************)
EXTENDS Integers, Sequences, FiniteSets

\* the 18 supported schemas, as a table (triple -> name); 1.18.0 is resolved by the marker
Supported1 == {<<1, 6, 0>>, <<1, 7, 1>>, <<1, 9, 1>>, <<1, 11, 1>>, <<1, 13, 0>>, <<1, 13, 1>>, <<1, 13, 2>>,
               <<1, 15, 0>>, <<1, 17, 0>>, <<1, 18, 0>>}
Supported2 == {<<2, 18, 0>>, <<2, 20, 1>>, <<2, 20, 2>>, <<2, 20, 3>>, <<2, 21, 0>>, <<2, 21, 1>>, <<2, 21, 2>>}

Digits(n) == CASE n = 0 -> "0" [] n = 1 -> "1" [] n = 2 -> "2" [] n = 3 -> "3" [] n = 6 -> "6" [] n = 7 -> "7"
               [] n = 9 -> "9" [] n = 11 -> "11" [] n = 13 -> "13" [] n = 15 -> "15" [] n = 17 -> "17"
               [] n = 18 -> "18" [] n = 20 -> "20" [] n = 21 -> "21" [] OTHER -> "?"

SchemaName(t, variant) ==
    IF t = <<1, 18, 0>> THEN (IF variant = "desktop" THEN "1.18.0d" ELSE "1.18.0o")
    ELSE Digits(t[1]) \o "." \o Digits(t[2]) \o "." \o Digits(t[3])

\* Expected outcome of load_database for a directory state
\*   s = [t |-> <<maj, min, pat>>, variant |-> "os" | "desktop", legacy |-> BOOLEAN, db2 |-> BOOLEAN]
\* kind: "ok" (schema must equal .schema), "throw" (exception class must equal .ex),
\*       "loose" (cross-layout: any rejection, or acceptance with exactly .schema - never another one)
\*   (legacyE / db2E: the file of that layout is present but empty - it still counts as that layout being present;
\*    alone, it is not a library of any version: loading must fail, with whichever exception)
Expected(s) ==
    IF ~s.legacy /\ ~s.db2 THEN [kind |-> "throw", ex |-> "database_not_found", schema |-> ""]
    ELSE IF s.legacy /\ s.db2 THEN [kind |-> "throw", ex |-> "database_not_found", schema |-> ""]
    ELSE IF (s.legacy /\ s.legacyE) \/ (s.db2 /\ s.db2E) THEN [kind |-> "throwany", ex |-> "", schema |-> ""]
    ELSE IF s.legacy THEN
        IF s.t \in Supported1 THEN [kind |-> "ok", ex |-> "", schema |-> SchemaName(s.t, s.variant)]
        ELSE IF s.t \in Supported2 THEN [kind |-> "loose", ex |-> "", schema |-> SchemaName(s.t, s.variant)]
        ELSE [kind |-> "throw", ex |-> "unsupported_database", schema |-> ""]
    ELSE
        IF s.t \in Supported2 THEN [kind |-> "ok", ex |-> "", schema |-> SchemaName(s.t, s.variant)]
        ELSE IF s.t \in Supported1 THEN [kind |-> "loose", ex |-> "", schema |-> SchemaName(s.t, s.variant)]
        ELSE [kind |-> "throw", ex |-> "unsupported_database", schema |-> ""]

\* what a logged result must look like
ResultOK(s, out, ex, loaded) ==
    LET e == Expected(s) IN
    CASE e.kind = "ok" -> out = "ok" /\ loaded = e.schema
      [] e.kind = "throw" -> out = "throw" /\ ex = e.ex
      [] e.kind = "throwany" -> out = "throw"
      [] OTHER -> (out = "throw") \/ (out = "ok" /\ loaded = e.schema)

\* Properties of the table itself (checked by TLC on the model): no two supported (triple, variant)
\* pairs share a schema, and exactly 18 schemas are reachable.
AllNames == {SchemaName(t, v) : t \in Supported1 \cup Supported2, v \in {"os", "desktop"}}
TableOK == /\ Cardinality(AllNames) = 18
           /\ \A t1, t2 \in Supported1 \cup Supported2 : t1 # t2 => SchemaName(t1, "os") # SchemaName(t2, "os")
           /\ Supported1 \cap Supported2 = {}
=============================================================================
