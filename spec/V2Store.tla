------------------------------ MODULE V2Store ------------------------------
(***************************************************************************)
(* Storage layer of the schema-2.x family, written to be bound to the code: *)
(* the variables are the rows of the tables the crate / membership / track  *)
(* calls write (Playlist, PlaylistEntity, Track ids and the AUTOINCREMENT   *)
(* counters), a public call is a short PROGRAM of SQL statements (one       *)
(* action step per statement, triggers folded into their statement because  *)
(* SQLite runs them inside it), with explicit BEGIN / COMMIT, explicit      *)
(* UNIQUE-constraint failures and an injected statement failure Fail(k).    *)
(*                                                                         *)
(* Facts of the implementation that the model states explicitly:           *)
(*  - foreign keys and recursive triggers are OFF on the connection, so no  *)
(*    ON DELETE CASCADE fires and the DELETE nested in                     *)
(*    trigger_after_delete_List fires no trigger itself;                    *)
(*  - Playlist has UNIQUE(title, parentListId) and UNIQUE(parentListId,     *)
(*    nextListId), checked after every row change (hence the "negative      *)
(*    inversion" -(1+n) in the insert triggers and in update());            *)
(*  - the sibling order is read by walking nextListId backwards from the    *)
(*    row whose nextListId = 0 (sort_ids), entity order likewise.           *)
(*                                                                         *)
(* Checked here: (1) the chain invariants of the stored rows after every    *)
(* completed call (C09, C11), (2) REFINEMENT: the abstraction of the rows,  *)
(* sampled at call boundaries, takes only steps of Library.tla (C07, C08,   *)
(* C09), in particular a call that fails at any statement refines           *)
(* Library!Failed, i.e. leaves the abstract state unchanged (C14).           *)
(* `Variant` re-creates the shapes of the code before its repairs, so that  *)
(* TLC demonstrates which property each of them breaks.                     *)
(***************************************************************************)
EXTENDS V2Rows

CONSTANTS
    MaxP, MaxT, MaxE,       \* bounds on the ids handed out (state-space bound only)
    MaxCalls,
    Faults                  \* BOOLEAN: inject a failure at any one statement of any call

VARIABLES
    st,      \* the stored rows: [P, E, T, sp, se, stt]
    pc,      \* statements of the call in progress still to run
    snap,    \* <<store>> saved at BEGIN while a transaction is open, <<>> otherwise
    pre,     \* store at the start of the call in progress
    cur,     \* the call in progress (abstract call record)
    fail,    \* number of statements until the injected failure strikes (0 = never)
    lastA,   \* the last completed call with its outcome (refines Library!last)
    ncalls

svars == <<st, pc, snap, pre, cur, fail, lastA, ncalls>>

-----------------------------------------------------------------------------
(* Calls offered to the model checker: the domain of Library.tla *)
Calls(S) ==
    LET L == DOMAIN S.P IN
    {Call("create_root", 0, 0, n, 0, 0) : n \in {m \in Names : S.sp < MaxP}}
    \cup {Call("create_sub", c, 0, n, 0, 0) : c \in L, n \in {m \in Names : S.sp < MaxP}}
    \cup {Call("create_root_after", 0, 0, n, 0, a) : n \in {m \in Names : S.sp < MaxP}, a \in L}
    \cup {Call("create_sub_after", c, 0, n, 0, a) : c \in L, n \in {m \in Names : S.sp < MaxP}, a \in L}
    \cup {Call("set_name", c, 0, n, 0, 0) : c \in L, n \in Names}
    \cup {Call("set_parent", c, p, "", 0, 0) : c \in L, p \in L \cup {0}}
    \cup {Call("remove_crate", c, 0, "", 0, 0) : c \in L}
    \cup {Call("create_track", 0, 0, "", 0, 0) : x \in {y \in {0} : S.stt < MaxT}}
    \cup {Call("remove_track", 0, 0, "", t, 0) : t \in S.T}
    \cup {Call("add_track", c, 0, "", t, 0) : c \in L, t \in {u \in S.T : S.se < MaxE}}
    \cup {Call("remove_track_from", c, 0, "", t, 0) : c \in L, t \in S.T}
    \cup {Call("clear_tracks", c, 0, "", 0, 0) : c \in L}

Finish(call, out, new) ==
    lastA' = [op |-> call.op, c |-> call.c, p |-> call.p, n |-> call.n, t |-> call.t, a |-> call.a, out |-> out, new |-> new]

\* Run the statements of `prog` starting with the first; a call whose last statement has run completes in the same step.
RunFirst(call, prog, S, sn, fl, startOfCall) ==
    LET s == Head(prog)
        rest == Tail(prog)
        struck == fl = 1
        ex == IF s.k \in {"begin", "commit", "throw"} THEN Res(s.k # "throw", S) ELSE Exec(s, S)
    IN
    IF struck \/ ~ex.ok
    THEN \* the statement fails: it has no effect; the exception unwinds the call; an open transaction is rolled back
         /\ st' = IF sn # <<>> THEN sn[1] ELSE S
         /\ pc' = <<>> /\ snap' = <<>> /\ fail' = 0
         /\ Finish(call, "throw", 0)
    ELSE /\ st' = ex.s
         /\ snap' = IF s.k = "begin" THEN <<S>> ELSE IF s.k = "commit" THEN <<>> ELSE sn
         /\ pc' = rest
         /\ fail' = IF fl > 1 /\ rest # <<>> THEN fl - 1 ELSE 0
         /\ IF rest = <<>> THEN Finish(call, "ok", NewId(call, ex.s)) ELSE lastA' = lastA

Start ==
    /\ pc = <<>> /\ ncalls < MaxCalls
    /\ \E call \in Calls(st) :
          LET prog == Prog(call, st) IN
          /\ cur' = call /\ pre' = st /\ ncalls' = ncalls + 1
          /\ IF prog = <<>>
             THEN /\ Finish(call, "ok", 0) /\ UNCHANGED <<st, pc, snap, fail>>
             ELSE \E fl \in (IF Faults THEN 0 .. Len(prog) ELSE {0}) :
                     RunFirst(call, prog, st, <<>>, fl, TRUE)

Step ==
    /\ pc # <<>>
    /\ RunFirst(cur, pc, st, snap, fail, FALSE)
    /\ UNCHANGED <<pre, cur, ncalls>>

Init ==
    /\ st = EmptyStore
    /\ pc = <<>> /\ snap = <<>> /\ pre = st /\ fail = 0 /\ ncalls = 0
    /\ cur = Call("init", 0, 0, "", 0, 0)
    /\ lastA = [op |-> "init", c |-> 0, p |-> 0, n |-> "", t |-> 0, a |-> 0, out |-> "ok", new |-> 0]

Next == Start \/ Step
Spec == Init /\ [][Next]_svars

-----------------------------------------------------------------------------
(* Invariants of the stored rows, at call boundaries (C09 / C11 on the model) *)
AtRest == pc = <<>>
GroupChainOK(R, nxt) ==
    \/ R = {}
    \/ /\ Cardinality({x \in R : nxt[x] = 0}) = 1
       /\ \A x \in R : nxt[x] \in R \cup {0} /\ nxt[x] # x
       /\ \A x, y \in R : x # y => nxt[x] # nxt[y]
       /\ Len(Walk(R, nxt, 0, <<>>, Cardinality(R))) = Cardinality(R)       \* the walk from the tail reaches everybody
\* (split so that the induction base below can prune while it enumerates)
POKof(P, sp) ==
    /\ UniqP(P)
    /\ \A c \in DOMAIN P : P[c].p \in DOMAIN P \cup {0} /\ c \notin AncOf(P, c) /\ P[c].t \in ValidNames
    /\ \A p \in DOMAIN P \cup {0} : LET R == {c \in DOMAIN P : P[c].p = p} IN GroupChainOK(R, [c \in R |-> P[c].n])
    /\ DOMAIN P \subseteq 1 .. sp
EOKof(P, T, E, se, stt) ==
    /\ UniqE(E)
    /\ \A e \in DOMAIN E : E[e].l \in DOMAIN P /\ E[e].tr \in T
    /\ \A c \in DOMAIN P : LET R == {e \in DOMAIN E : E[e].l = c} IN GroupChainOK(R, [e \in R |-> E[e].n])
    /\ DOMAIN E \subseteq 1 .. se /\ T \subseteq 1 .. stt
RowsOKof(S) == POKof(S.P, S.sp) /\ EOKof(S.P, S.T, S.E, S.se, S.stt)
RowsInv == AtRest => RowsOKof(st)
NoTxnAtRest == AtRest => snap = <<>>

(* Refinement: the abstraction of the rows visible between calls takes only Library steps *)
vis == IF pc = <<>> THEN st ELSE pre
aLive == DOMAIN vis.P
Lib == INSTANCE Library WITH
          DupPolicy <- "reject", PosPolicy <- "tail",
          fam <- "v2",
          live <- aLive,
          dead <- (1 .. vis.sp) \ aLive,
          par <- [c \in aLive |-> vis.P[c].p],
          nm <- [c \in aLive |-> vis.P[c].t],
          kids <- [x \in aLive \cup {0} |-> KidsOf(vis, x)],
          tlive <- vis.T,
          tdead <- (1 .. vis.stt) \ vis.T,
          mem <- [c \in aLive |-> MemOf(vis, c)],
          last <- lastA,
          kf <- ""

LibInv == AtRest => Lib!TypeOK /\ Lib!ForestInv /\ Lib!QueriesAgree /\ Lib!MemInv

CallOf(r) == Call(r.op, r.c, r.p, r.n, r.t, r.a)
LibStep ==
    \/ \E n \in Names, id \in 1 .. MaxP : Lib!CreateRoot(n, id)
    \/ \E c \in aLive, n \in Names, id \in 1 .. MaxP : Lib!CreateSub(c, n, id)
    \/ \E n \in Names, a \in aLive, id \in 1 .. MaxP : Lib!CreateRootAfter(n, a, id)
    \/ \E c \in aLive, n \in Names, a \in aLive, id \in 1 .. MaxP : Lib!CreateSubAfter(c, n, a, id)
    \/ \E c \in aLive, n \in Names : Lib!SetName(c, n)
    \/ \E c \in aLive, p \in aLive \cup {0} : Lib!SetParent(c, p)
    \/ \E c \in aLive : Lib!RemoveCrate(c)
    \/ \E id \in 1 .. MaxT : Lib!CreateTrack(id)
    \/ \E t \in vis.T : Lib!RemoveTrack(t)
    \/ \E c \in aLive, t \in vis.T : Lib!AddTrack(c, t)
    \/ \E c \in aLive, t \in vis.T : Lib!RemoveTrackFrom(c, t)
    \/ \E c \in aLive : Lib!ClearTracks(c)
    \/ (lastA'.out = "throw" /\ Lib!Failed(CallOf(lastA')))
Refines == [][LibStep]_<<vis, lastA>>

-----------------------------------------------------------------------------
(* INDUCTION.  Spec explores the stores reachable from the empty library within MaxCalls calls.  SpecInd starts   *)
(* from EVERY store within the id bounds that satisfies RowsInv - reachable or not - and makes one call (every     *)
(* statement, every injected failure).  RowsInv, LibInv and Refines checked on SpecInd with MaxCalls = 1 therefore *)
(* say: RowsInv is inductive, RowsInv implies the Library invariants of the abstraction, and from any such store   *)
(* every call is a Library step - i.e. the properties hold after histories of ANY length that hand out at most     *)
(* MaxP crate ids, MaxT track ids and MaxE entity ids (the bound on the number of calls is gone).                  *)
InitInd ==
    /\ \E D \in SUBSET (1 .. MaxP) : \E sp \in 0 .. MaxP :
       \E P \in [D -> [t : ValidNames, p : 0 .. MaxP, n : 0 .. MaxP]] :
          /\ POKof(P, sp)
          /\ \E T \in SUBSET (1 .. MaxT) : \E stt \in 0 .. MaxT : \E DE \in SUBSET (1 .. MaxE) : \E se \in 0 .. MaxE :
             \E E \in [DE -> [l : D, tr : T, n : 0 .. MaxE]] :
                /\ EOKof(P, T, E, se, stt)
                /\ st = [P |-> P, E |-> E, T |-> T, sp |-> sp, se |-> se, stt |-> stt]
    /\ pre = st
    /\ pc = <<>> /\ snap = <<>> /\ fail = 0 /\ ncalls = 0
    /\ cur = Call("init", 0, 0, "", 0, 0)
    /\ lastA = [op |-> "init", c |-> 0, p |-> 0, n |-> "", t |-> 0, a |-> 0, out |-> "ok", new |-> 0]
SpecInd == InitInd /\ [][Next]_svars

\* (for reading counterexamples) a faulted or rejected call never leaves rows behind
FailedCallsAtomic == [][(pc' = <<>> /\ lastA'.out = "throw" /\ ncalls' >= ncalls) => st' = pre']_svars
=============================================================================
