---------------------------- MODULE TraceFormat ----------------------------
(***************************************************************************)
(* Trace validation of the eleven blob codecs against EngineFormat.tla.    *)
(*                                                                         *)
(*  mode "enc" (C02 write direction, C03): the library encoded value r.v;  *)
(*     the harness stripped the frame with plain zlib (r.enc.payload,      *)
(*     r.enc.prefix) and let the library decode its own blob (r.dec).      *)
(*  mode "dec" (C02 read direction, C04): the payload r.payload was framed *)
(*     with plain zlib and decoded by the library (r.dec); the decoded     *)
(*     value was encoded again (r.re).  If the payload came from the       *)
(*     specification's encoder, r.v is the value it encodes.               *)
(***************************************************************************)
EXTENDS EngineFormat, Json, IOUtils, TLC

VARIABLE l
Log == ndJsonDeserialize(IOEnv.TRACE)

Has(r, f) == f \in DOMAIN r
Kf(name) == PrintT(<<"KF", l, name>>)

\* the one byte the format defines as a boolean (main cue adjusted) may be normalised to 0 / 1
BoolNorm(kind, v) == IF kind = "quick_cues2" THEN [v EXCEPT !.isadj = IF @ = 0 THEN 0 ELSE 1] ELSE v

EncRecOK(r) ==
    IF Encodable(r.kind, r.v, r.aux) THEN
        /\ r.enc.out = "ok" /\ r.enc.framed
        /\ r.enc.payload = Enc(r.kind, BoolNorm(r.kind, r.v))                   \* C02: bytes as the format prescribes
        /\ (Compressed(r.kind) => r.enc.prefix = Prefix(r.enc.payload))          \*      4-byte big-endian length prefix
        /\ r.dec.out = "ok"                                                      \* C03: decodes its own encoding ...
        /\ \/ r.dec.v = Norm(r.kind, BoolNorm(r.kind, r.v))                      \*      ... to the original value
           \/ /\ ZeroSentinel(r.kind, r.v) /\ Kf("v1-zero-sentinel")
    ELSE
        \* a value the format cannot hold: rejected with an exception, never written as something else
        /\ r.enc.out = "throw" /\ r.enc.std

DecRecOK(r) ==
    /\ (r.dec.out = "throw" => r.dec.std)
    \* C02 read direction: a payload produced by the specification's encoder decodes to the value it encodes
    /\ Has(r, "v") =>
         /\ r.payload = Enc(r.kind, r.v)
         /\ r.dec.out = "ok"
         /\ \/ r.dec.v = Norm(r.kind, BoolNorm(r.kind, r.v))
            \/ ZeroSentinel(r.kind, r.v) /\ Kf("v1-zero-sentinel")
    \* C04: whatever the decoder accepts is re-encoded byte for byte (schema 2.x blobs keep everything verbatim)
    /\ (r.dec.out = "ok" /\ r.kind \in {"track_data2", "beat_data2", "quick_cues2", "loops2", "overview2"}) =>
         /\ r.re.out = "ok" /\ r.re.framed
         /\ Len(r.re.payload) = Len(r.payload)
         /\ LET pos == IF r.kind = "quick_cues2" THEN Len(r.payload) - Len(r.dec.v.extra) - 8 ELSE 0 IN
            \A k \in DOMAIN r.payload :
                IF k = pos THEN r.re.payload[k] = (IF r.payload[k] = 0 THEN 0 ELSE 1)
                ELSE r.re.payload[k] = r.payload[k]

\* Corners of the domain C03 names (grids of 40000 markers, waveforms of 100000 points): the record carries the sizes,
\* the payload length and the harness's verdict on the round trip instead of the bytes.  The format fixes the length.
NOf(r, f) == IF Has(r.n, f) THEN r.n[f] ELSE 0
BigLen(r) ==
    CASE r.kind = "beat_data2" -> 33 + 24 * (NOf(r, "dflt") + NOf(r, "adj")) + NOf(r, "extra")
      [] r.kind = "overview2" -> 27 + 3 * NOf(r, "pts") + NOf(r, "extra")
      [] r.kind = "overview1" -> 27 + 3 * NOf(r, "pts")
      [] r.kind = "beat_data1" -> 33 + 24 * (NOf(r, "dflt") + NOf(r, "adj"))
      [] r.kind = "hires1" -> 30 + 6 * NOf(r, "pts")
      [] OTHER -> -1
BigEncodable(r) ==
    CASE r.kind = "beat_data1" -> \A f \in {"dflt", "adj"} : NOf(r, f) = 0 \/ (NOf(r, f) >= 2 /\ NOf(r, f) <= 32768)
      [] r.kind \in {"beat_data2", "overview2", "hires1", "overview1"} -> TRUE
      [] OTHER -> FALSE
BigRecOK(r) ==
    IF BigEncodable(r) THEN
        /\ r.enc.out = "ok" /\ r.enc.framed
        /\ r.plen = BigLen(r) /\ r.prefix_ok
        /\ r.dec.out = "ok" /\ r.same
    ELSE r.enc.out = "throw" /\ r.enc.std

RecOK(r) == IF Has(r, "big") THEN BigRecOK(r) ELSE IF Has(r, "enc") THEN EncRecOK(r) ELSE DecRecOK(r)

TInit == l = 1
TNext == l <= Len(Log) /\ RecOK(Log[l]) /\ l' = l + 1
TSpec == TInit /\ [][TNext]_l
Accepted == TLCGet("stats").diameter - 1 = Len(Log)
=============================================================================
