------------------------------ MODULE MCBlobWF ------------------------------
(* BlobWF against the specification's own encoder: every sample payload of DecoderInputs.tla is well-formed, and for the *)
(* 1.x kinds (no trailing data) no proper prefix and no one-byte extension of it is.                                      *)
EXTENDS DecoderInputs
B == INSTANCE BlobWF
AllKinds == {"track_data2", "beat_data2", "quick_cues2", "loops2", "overview2", "track_data1", "beat_data1", "hires1", "overview1", "loops1", "quick_cues1"}
C2(kind, pl) == IF kind \in {"beat_data1", "beat_data2"} THEN SubSeq(pl, 26 + 24 * B!U64(pl, 18), 33 + 24 * B!U64(pl, 18)) ELSE <<>>
Exact == {"track_data1", "hires1", "overview1", "loops1", "quick_cues1"}
ASSUME \A k \in AllKinds : LET pl == Payload(k) IN B!WF(k, Len(pl), pl, C2(k, pl))
ASSUME \A k \in Exact : LET pl == Payload(k) IN
          /\ \A n \in 0 .. Len(pl) - 1 : ~B!WF(k, n, SubSeq(pl, 1, n) \o [j \in 1 .. 40 |-> 0], <<0, 0, 0, 0, 0, 0, 0, 0>>)
          /\ ~B!WF(k, Len(pl) + 1, pl \o <<0>>, C2(k, pl))
\* a count that announces more entries than are there is not well-formed (every kind with counts)
ASSUME \A k \in AllKinds \ {"track_data1", "track_data2"} :
          LET pl == Payload(k) IN \A f \in {g \in CountFields(k) : g[2] = 8} :
             LET bad == WithField(pl, f[1], f[2], f[3], BEn(FieldValue(pl, f[1], f[2], f[3]) + 1, 8)) IN
             k \in {"beat_data1", "beat_data2"} \/ ~B!WF(k, Len(bad), bad, C2(k, bad))
\* (DecoderInputs' own Spec is reused: the ASSUMEs are evaluated when TLC starts)
=============================================================================
