--------------------------- MODULE TraceContention ---------------------------
(***************************************************************************)
(* Trace validation of the lock sweep (harness/libdriver, flag "locks")     *)
(* against Contention: for every attempt of a call made while another        *)
(* connection took a lock right before the call's k-th statement, the        *)
(* result of EVERY statement the library stepped must be the one SQLite's     *)
(* locking protocol gives (Contention!Exec), the library must stop at the     *)
(* first refused statement, roll back, throw, and be left without a lock or   *)
(* an open transaction.  (That a refused call changed nothing observable and   *)
(* that the rows are byte-identical is judged on the same records by          *)
(* TraceLibrary: action Failed.)                                              *)
(***************************************************************************)
EXTENDS Integers, Sequences, FiniteSets, TLC, Json, IOUtils

None == 0
INSTANCE Contention WITH Progs <- <<>>, Guard <- "rollback", pi <- 0, pc <- 0, cs <- 0, fl <- 0, units <- 0,
                         failed <- FALSE, phase <- "", lastrc <- ""

VARIABLES l, fam
Log == ndJsonDeserialize(IOEnv.TRACE)
Has(r, f) == f \in DOMAIN r

\* the class the model gives a logged statement: transaction control by its text, otherwise by the locks its
\* EXPLAIN listing asks for on the database FILES of the connection
ClassOf(s) == IF s.c \in {"begin", "commit", "rollback"} THEN s.c
              ELSE IF ~s.x THEN s.c
              ELSE IF s.fw THEN "write" ELSE IF s.fr THEN "read" ELSE "free"

\* Replays statements i.. of an attempt.  held: the lock the other connection holds from the hook on; cs: connection
\* state; st: "run" until a statement was refused, then "over" (only the scope's ROLLBACK may follow).
RECURSIVE Replay(_, _, _, _, _, _)
Replay(ss, i, held, cs, st, units) ==
    IF i > Len(ss) THEN [ok |-> TRUE, cs |-> cs, refused |-> (st = "over"), units |-> units]
    ELSE LET s == ss[i]
             cls == ClassOf(s)
             fl == IF s.h THEN held ELSE None IN
         IF st = "over"
         THEN \* after the refusal nothing but the recovery action
              IF cls = "rollback" /\ s.r \in {"ok", "err"}
              THEN Replay(ss, i + 1, held, Exec("rollback", FALSE, cs, fl).cs, st, units)
              ELSE [ok |-> FALSE, at |-> i, why |-> "statement after a refused one", cs |-> cs, refused |-> TRUE, units |-> units]
         ELSE IF s.r = "ok"
         THEN LET ex == Exec(cls, s.chg > 0, cs, fl) IN
              IF ex.rc = "ok" THEN Replay(ss, i + 1, held, ex.cs, st, units + ex.unit)
              ELSE [ok |-> FALSE, at |-> i, why |-> <<"predicted", ex.rc, "observed ok">>, cs |-> cs, refused |-> FALSE, units |-> units]
         ELSE IF s.r = "busy"
         THEN \* (whether the refused write would have changed rows is not known: either way must predict the refusal)
              IF \E eff \in BOOLEAN : Exec(cls, eff, cs, fl).rc = "busy"
              THEN LET ex == Exec(cls, CHOOSE eff \in BOOLEAN : Exec(cls, eff, cs, fl).rc = "busy", cs, fl) IN
                   Replay(ss, i + 1, held, ex.cs, "over", units)
              ELSE [ok |-> FALSE, at |-> i, why |-> "busy not predicted", cs |-> cs, refused |-> TRUE, units |-> units]
         ELSE \* an error that has nothing to do with locks (a constraint): the statement has no effect, the call ends
              Replay(ss, i + 1, held, cs, "over", units)

AttemptOK(r) ==
    LET lk == r.lk
        held == IF lk.got THEN lk.lvl ELSE None
        res == Replay(lk.st, 1, held, Idle, "run", 0)
        anybusy == \E i \in DOMAIN lk.st : lk.st[i].r = "busy"
        anyfail == \E i \in DOMAIN lk.st : lk.st[i].r # "ok" IN
    /\ IF res.ok THEN TRUE ELSE PrintT(<<"CONTENTION", l, res>>) /\ FALSE
    /\ res.cs = Idle                       \* model: nothing held, nothing open ...
    /\ lk.ac = 1                           \* ... and the real connection is back in autocommit mode
    /\ (anyfail => r.out = "throw")        \* a refused statement is reported by throwing
    /\ (anybusy <=> (Has(r, "fault") /\ r.fault.fired))
    /\ (anybusy => lk.got /\ lk.hook)      \* nothing is refused unless the other connection holds a lock
    \* a call that throws has made none of its row changes durable, a call that returns made them durable in one unit
    /\ \/ (anyfail => res.units = 0) /\ res.units <= 1
       \* Known finding v2-setter-not-atomic (known_findings.jsonl): four field setters of the 2.x track implementation issue
       \* two UPDATE statements outside a transaction - two units, and one of them stays when the second is refused.
       \/ /\ fam = "v2" /\ r.op = "set" /\ Has(r, "f") /\ r.f \in {"bpm", "key", "sample_count", "sample_rate"}
          /\ res.units <= 2 /\ (anyfail => res.units <= 1)
          /\ PrintT(<<"KF", l, "v2-setter-not-atomic">>)

TCall ==
    /\ l <= Len(Log)
    /\ LET r == Log[l] IN
       /\ (r.e = "call" /\ Has(r, "lk")) => AttemptOK(r)
       /\ fam' = IF r.e = "reset" THEN (IF Has(r, "family") THEN r.family ELSE "") ELSE fam
    /\ l' = l + 1

TInit == l = 1 /\ fam = ""
TSpec == TInit /\ [][TCall]_<<l, fam>>
Accepted == TLCGet("stats").diameter - 1 = Len(Log)
=============================================================================
