----------------------------- MODULE TraceCommit -----------------------------
(***************************************************************************)
(* Trace validation of the syscall-level crash sweep (harness/libdriver,    *)
(* flag syscrash) against CommitProtocol: for every call attempted by a      *)
(* process that dies right before the n-th file-modifying system call of      *)
(* SQLite's VFS, the set of database files found changed after the library     *)
(* was loaded again must be one of CommitProtocol!Outcomes for the files the   *)
(* complete call changes, in attach order, without a master journal (the       *)
(* library's main database is ":memory:").  A strict, non-empty subset - a      *)
(* call committed in one file and not in the other - is possible exactly for    *)
(* calls that change two files (1.x: Track rows in m.db, PerformanceData in      *)
(* p.db); it is printed as an observation.                                       *)
(***************************************************************************)
EXTENDS Integers, Sequences, FiniteSets, TLC, Json, IOUtils

INSTANCE CommitProtocol WITH Files <- <<>>, UseMaster <- FALSE, jrnl <- 0, named <- 0, db <- 0, mj <- 0, pc <- 0, i <- 0

VARIABLE l
Log == ndJsonDeserialize(IOEnv.TRACE)
Has(r, f) == f \in DOMAIN r

Touched(r) == SelectSeq(r.files, LAMBDA x : x.touched)
Names(s) == [k \in DOMAIN s |-> s[k].db]
Changed(r) == {r.files[k].db : k \in {j \in DOMAIN r.files : r.files[j].is # "old"}}

CrashOK(r) ==
    LET t == Names(Touched(r))
        c == Changed(r) IN
    /\ c \in Outcomes(FALSE, t)                         \* (in particular: a file the call does not touch never changes)
    /\ (c # {} /\ c # ToSet(t)) => PrintT(<<"OBS", l, "cross-file-partial", r.op, c>>)
    \* consistent with what the driver did with the attempt: nothing changed <=> logged as a crash without effect
    /\ (r.e = "crash") <=> (c = {})

TStep ==
    /\ l <= Len(Log)
    /\ LET r == Log[l] IN (Has(r, "files") /\ Has(r, "crash")) => CrashOK(r)
    /\ l' = l + 1

TInit == l = 1
TSpec == TInit /\ [][TStep]_l
Accepted == TLCGet("stats").diameter - 1 = Len(Log)
=============================================================================
