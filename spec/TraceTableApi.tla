--------------------------- MODULE TraceTableApi ---------------------------
(* Trace validation of the schema-2.x track table API (harness/tabledriver) against TableApi.tla.      *)
EXTENDS TableApi, Json, IOUtils, TLC

VARIABLES l, schema, uuid, rows
tvars == <<l, schema, uuid, rows>>
Log == ndJsonDeserialize(IOEnv.TRACE)

Has(r, f) == f \in DOMAIN r
ToSet(s) == {s[k] : k \in DOMAIN s}
IsThrow(x) == Has(x, "throw")

\* rows as read back by get(id), for every id the driver knows
Got(r) == LET present == {x \in ToSet(r.obs.rows) : ~IsThrow(x.row) /\ x.row.v # <<>>} IN
          [id \in {x.id : x \in present} |-> (CHOOSE x \in present : x.id = id).row.v[1]]

\* per-column getters agree with the row; accessors of a missing row report an error
ColGetOK(sch, x) ==
    IF IsThrow(x.row) THEN FALSE
    ELSE IF x.row.v = <<>> THEN
        /\ ~IsThrow(x.exists) /\ x.exists.v = FALSE
        /\ \A c \in DOMAIN x.cols : IsThrow(x.cols[c]) /\ x.cols[c].std
    ELSE
        /\ ~IsThrow(x.exists) /\ x.exists.v = TRUE
        /\ \A c \in DOMAIN x.cols :
              IF ~HasCol(sch, c) THEN (IsThrow(x.cols[c]) => x.cols[c].std)
              ELSE IF IsThrow(x.cols[c]) THEN FALSE
              ELSE IF c \in {"date_created", "date_added"} THEN x.cols[c].v = <<x.row.v[1][c]>>
              ELSE x.cols[c].v = x.row.v[1][c]
\* C16 at table level: the read functions (get, exists, all_ids, the 48 per-column getters) issued no write statement,
\* changed no row, left the digest of all tables as it was, and a repeated observation agreed
NoWrite(r) == r.o16.w = 0 /\ r.o16.chg = 0 /\ r.o16.rep /\ r.o16.same
ObsOK(r, R, sch) ==
    /\ Has(r, "obs") /\ NoWrite(r)
    /\ DOMAIN Got(r) = DOMAIN R /\ \A id \in DOMAIN R : Got(r)[id] = R[id]
    /\ ~IsThrow(r.obs.all) /\ ToSet(r.obs.all.v) = DOMAIN R /\ Len(r.obs.all.v) = Cardinality(DOMAIN R)
    /\ \A x \in ToSet(r.obs.rows) : ColGetOK(sch, x)
    \* the same rows through the high-level API (tracks(), snapshot() of every handle): every stored row is listed, a
    \* getter completes or throws a std::exception (NoWrite above covers these reads as well)
    /\ (Has(r.obs, "hl") =>
          /\ ~IsThrow(r.obs.hl.ids) /\ ToSet(r.obs.hl.ids.v) = DOMAIN R /\ Len(r.obs.hl.ids.v) = Cardinality(DOMAIN R)
          /\ \A x \in ToSet(r.obs.hl.tk) : x.id \in DOMAIN R /\ (IsThrow(x.snap) => x.snap.std))

Unchanged(r) == Got(r) = rows

Add(r) ==
    \/ /\ r.out = "throw" /\ r.std /\ Unchanged(r) /\ rows' = rows
    \/ /\ r.out = "ok" /\ r.in.id = 0                                  \* a row that already carries an id must be refused
       /\ r.new \notin DOMAIN rows /\ r.new > 0
       /\ LET G == Got(r) IN
          /\ DOMAIN G = DOMAIN rows \cup {r.new}
          /\ \A id \in DOMAIN rows : G[id] = rows[id]
          /\ RowOK(schema, r.in, G[r.new], r.new, uuid)
          /\ rows' = G

Update(r) ==
    \/ /\ r.out = "throw" /\ r.std /\ Unchanged(r) /\ rows' = rows
    \* (C18 names column accessors and remove() as the calls that must report a missing row; update() of a
    \*  missing row is allowed to do nothing)
    \/ /\ r.out = "ok" /\ r.t \notin DOMAIN rows /\ Unchanged(r) /\ rows' = rows
    \/ /\ r.out = "ok" /\ r.t \in DOMAIN rows
       /\ LET G == Got(r) IN
          /\ DOMAIN G = DOMAIN rows
          /\ \A id \in DOMAIN rows \ {r.t} : G[id] = rows[id]
          /\ RowOK(schema, r.in, G[r.t], r.t, uuid)
          /\ rows' = G

SetCol(r) ==
    \/ /\ r.out = "throw" /\ r.std /\ Unchanged(r) /\ rows' = rows
    \/ /\ r.out = "ok" /\ r.t \in DOMAIN rows
       /\ LET G == Got(r) IN
          /\ DOMAIN G = DOMAIN rows
          /\ \A id \in DOMAIN rows \ {r.t} : G[id] = rows[id]
          /\ SetColOK(schema, r.col, r.in, rows[r.t], G[r.t], r.t, uuid)
          /\ rows' = G

Remove(r) ==
    \/ /\ r.out = "throw" /\ r.std /\ Unchanged(r) /\ rows' = rows
    \/ /\ r.out = "ok" /\ r.t \in DOMAIN rows
       /\ LET G == Got(r) IN
          /\ DOMAIN G = DOMAIN rows \ {r.t}
          /\ \A id \in DOMAIN G : G[id] = rows[id]
          /\ rows' = G

\* column getters on an id that was never a row: every one must report an error
GetColMissing(r) ==
    /\ r.t \notin DOMAIN rows
    /\ \A c \in DOMAIN r.cols : IsThrow(r.cols[c]) /\ r.cols[c].std
    /\ Unchanged(r) /\ rows' = rows

TCall ==
    /\ l <= Len(Log)
    /\ LET r == Log[l] IN
       /\ r.e = "call"
       /\ CASE r.op = "t_add" -> Add(r)
            [] r.op = "t_update" -> Update(r)
            [] r.op = "t_set" -> SetCol(r)
            [] r.op = "t_remove" -> Remove(r)
            [] r.op = "t_getcol" -> GetColMissing(r)
            [] r.op = "pl_add" -> r.out \in {"ok", "throw"} /\ Unchanged(r) /\ rows' = rows
            [] OTHER -> FALSE
       /\ ObsOK(r, rows', schema)
    /\ l' = l + 1 /\ UNCHANGED <<schema, uuid>>

TReset ==
    /\ l <= Len(Log)
    /\ LET r == Log[l] IN
       /\ r.e = "reset" /\ r.out = "ok"
       /\ schema' = r.schema /\ uuid' = r.uuid /\ rows' = <<>>
       /\ ObsOK(r, <<>>, r.schema)
    /\ l' = l + 1

TInit == l = 1 /\ schema = "2.21.2" /\ uuid = "" /\ rows = <<>>
TNext == TCall \/ TReset
TSpec == TInit /\ [][TNext]_tvars
Accepted == TLCGet("stats").diameter - 1 = Len(Log)
=============================================================================
