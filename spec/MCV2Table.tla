------------------------------ MODULE MCV2Table ------------------------------
(***************************************************************************)
(* Script generation for the 2.x playlist / playlist-entity TABLE API        *)
(* (playlist_table::add / update / remove, playlist_entity_table::add_back / *)
(* remove / clear) over the storage-layer model V2Rows: every legal          *)
(* parent / next combination of add and update, on every store reachable     *)
(* within the bounds.  Checked on the way: the chain invariants hold after    *)
(* every table-level operation (C09 at table level).  Every generated        *)
(* transition is printed with the complete operation sequence reaching it.   *)
(***************************************************************************)
EXTENDS V2Rows, Json

CONSTANTS MaxP, MaxE, Tracks, MaxOps, OpNames

VARIABLES st, hist

Kids(S, p) == {c \in DOMAIN S.P : S.P[c].p = p}

\* what playlist_table::update(row) does: a plain UPDATE when neither parent nor next changes, else the four-statement splice
UpdateProg(S, id, t, p, n) ==
    IF t \in InvalidNames THEN <<Throw>>
    ELSE IF S.P[id].p = p /\ S.P[id].n = n THEN <<Begin, Stmt("updTitle", id, t, 0, 0), Commit>>
    ELSE <<Begin, Stmt("u1", id, 0, 0, 0), Stmt("u2", S.P[id].n, id, S.P[id].p, 0), Stmt("u3", id, n, p, 0),
           Stmt("u4", id, t, p, n), Commit>>
RemoveProg(S, id) == <<Begin, Stmt("delEofLists", {id} \cup DescOf(S.P, id), 0, 0, 0), Stmt("delPdesc", id, 0, 0, 0),
                        Stmt("delP", id, 0, 0, 0), Commit>>
AddProg(S, t, p, n) == IF t \in InvalidNames THEN <<Throw>> ELSE <<Stmt("insP", t, p, n, 0)>>
AddBackProg(S, l, tr) == IF \E e \in DOMAIN S.E : S.E[e].l = l /\ S.E[e].tr = tr THEN <<>>
                         ELSE <<Begin, Stmt("insE", l, tr, 0, 0), Stmt("updTail", l, 0, 0, 0), Commit>>

TableProg(o, S) ==
    CASE o.op = "pl_add" -> AddProg(S, o.title, o.parent, o.next)
      [] o.op = "pl_update" -> UpdateProg(S, o.id, o.title, o.parent, o.next)
      [] o.op = "pl_remove" -> RemoveProg(S, o.id)
      [] o.op = "pe_add" -> AddBackProg(S, o.list, o.track)
      [] o.op = "pe_remove" -> <<Stmt("delE", o.list, o.entity, 0, 0)>>
      [] o.op = "pe_clear" -> <<Stmt("delEofLists", {o.list}, 0, 0, 0)>>
      [] OTHER -> <<Throw>>

Op(op, id, title, parent, next, list, track, entity) ==
    [op |-> op, id |-> id, title |-> title, parent |-> parent, next |-> next, list |-> list, track |-> track, entity |-> entity]

LegalOps(S) ==
    LET L == DOMAIN S.P IN
    {Op("pl_add", 0, t, p, n, 0, 0, 0) : t \in {x \in OpNames : S.sp < MaxP}, p \in L \cup {0}, n \in L \cup {0}}
    \cup {Op("pl_update", id, t, p, n, 0, 0, 0) : id \in L, t \in OpNames, p \in L \cup {0}, n \in L \cup {0}}
    \cup {Op("pl_remove", id, "", 0, 0, 0, 0, 0) : id \in L}
    \cup {Op("pe_add", 0, "", 0, 0, l, tr, 0) : l \in {x \in L : S.se < MaxE}, tr \in Tracks}
    \cup {Op("pe_remove", 0, "", 0, 0, l, 0, e) : l \in L, e \in DOMAIN S.E}
    \cup {Op("pe_clear", 0, "", 0, 0, l, 0, 0) : l \in L}
\* the API's preconditions: `next` is a sibling-to-be (or 0 = last), the new parent is not inside the moved sub-tree
Legal(o, S) ==
    CASE o.op = "pl_add" -> o.next = 0 \/ (o.next \in Kids(S, o.parent))
      [] o.op = "pl_update" -> /\ o.parent # o.id /\ o.parent \notin DescOf(S.P, o.id)
                               /\ (o.next = 0 \/ (o.next \in Kids(S, o.parent) /\ o.next # o.id))
      [] o.op = "pe_remove" -> S.E[o.entity].l = o.list
      [] OTHER -> TRUE

MCInit == st = EmptyStore /\ hist = <<>>
MCNext ==
    /\ Len(hist) < MaxOps
    /\ \E o \in LegalOps(st) :
          /\ Legal(o, st)
          /\ LET res == RunAll(TableProg(o, st), st, <<>>) IN
             /\ st' = res.s
             /\ hist' = Append(hist, o @@ [out |-> IF res.ok THEN "ok" ELSE "throw"])
MCSpec == MCInit /\ [][MCNext]_<<st, hist>>
MCView == st

\* chain well-formedness after every table-level operation
GroupChainOK(R, nxt) ==
    \/ R = {}
    \/ /\ Cardinality({x \in R : nxt[x] = 0}) = 1
       /\ \A x \in R : nxt[x] \in R \cup {0} /\ nxt[x] # x
       /\ \A x, y \in R : x # y => nxt[x] # nxt[y]
       /\ Len(Walk(R, nxt, 0, <<>>, Cardinality(R))) = Cardinality(R)
ChainInv ==
    /\ \A p \in DOMAIN st.P \cup {0} : LET R == Kids(st, p) IN GroupChainOK(R, [c \in R |-> st.P[c].n])
    /\ \A c \in DOMAIN st.P : st.P[c].p \in DOMAIN st.P \cup {0} /\ c \notin AncOf(st.P, c)
    /\ \A c \in DOMAIN st.P : LET R == {e \in DOMAIN st.E : st.E[e].l = c} IN GroupChainOK(R, [e \in R |-> st.E[e].n])
    /\ \A e \in DOMAIN st.E : st.E[e].l \in DOMAIN st.P

Emit == PrintT("SCRIPT " \o ToJson([h |-> hist', loop |-> (st' = st)]))
=============================================================================
