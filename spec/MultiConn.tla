------------------------------ MODULE MultiConn ------------------------------
(***************************************************************************)
(* Several database objects (connections) on ONE library directory.  The    *)
(* stored library is the single shared state of Library.tla; every          *)
(* connection has a VIEW of it - what its queries answer.  The contract the  *)
(* library keeps (and which harness/libdriver, flag conn2, binds to the      *)
(* code: some calls of a history go through a second connection, both are    *)
(* observed after every call) is                                             *)
(*                                                                         *)
(*   Coherent: at every call boundary every connection's view IS the shared  *)
(*   state - whichever connection made the call; in particular a handle      *)
(*   whose crate another connection removed reports is_valid() = false.      *)
(*                                                                         *)
(* Caching = "own-writes" is the shape of a per-connection cache of mutable  *)
(* state that is refreshed only by the connection's own calls; TLC must      *)
(* report it (sensitivity of the model).                                     *)
(***************************************************************************)
EXTENDS Library

CONSTANTS Conns, Caching, MaxId, MaxCalls

VARIABLES view,    \* connection -> the state its queries describe
          via,     \* connection of the last call
          ncalls

mvars == <<vars, view, via, ncalls>>

Ids == 1 .. MaxId

LibNext ==
    \/ \E n \in Names, id \in Ids : CreateRoot(n, id)
    \/ \E c \in live, n \in Names, id \in Ids : CreateSub(c, n, id)
    \/ \E c \in live, n \in Names : SetName(c, n)
    \/ \E c \in live, p \in live \cup {Root} : SetParent(c, p)
    \/ \E c \in live : RemoveCrate(c)
    \/ \E id \in Ids : CreateTrack(id)
    \/ \E t \in tlive : RemoveTrack(t)
    \/ \E c \in live, t \in tlive : AddTrack(c, t) \/ RemoveTrackFrom(c, t)
    \/ \E c \in live : ClearTracks(c)

MInit == InitWith("v2") /\ view = [c \in Conns |-> state] /\ via \in Conns /\ ncalls = 0
MNext ==
    /\ ncalls < MaxCalls /\ ncalls' = ncalls + 1
    /\ LibNext
    /\ \E c \in Conns :
          /\ via' = c
          /\ view' = [d \in Conns |-> IF Caching = "none" \/ d = c \/ last'.out = "throw" THEN state' ELSE view[d]]
MSpec == MInit /\ [][MNext]_mvars

Coherent == \A c \in Conns : view[c] = state
=============================================================================
