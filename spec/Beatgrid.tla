------------------------------ MODULE Beatgrid ------------------------------
(***************************************************************************)
(* C20: beat-grid normalisation.                                           *)
(*                                                                         *)
(* A grid is a sequence of markers [i |-> beat index, o |-> sample offset] *)
(* strictly increasing in both; sc is the sample count of the track.       *)
(* Everything is exact integer arithmetic: the instances only contain      *)
(* grids whose first and last segment have an integer number of samples    *)
(* per beat, so that the library's double arithmetic is exact and results  *)
(* can be compared for equality (floating-point rounding is outside TLA+). *)
(*                                                                         *)
(* The module holds (1) the property, as predicates over input and output  *)
(* (PostOK), which is what decides C20, and (2) a model of the algorithm    *)
(* (Normalize), which is what TLC explores to predict where the property   *)
(* fails and which is compared with the code only as a drift indicator.    *)
(***************************************************************************)
EXTENDS Integers, Sequences

Increasing(g) == \A k \in 1 .. Len(g) - 1 : g[k].i < g[k + 1].i /\ g[k].o < g[k + 1].o

\* a / b rounded up, b > 0
CeilDiv(a, b) == IF a >= 0 THEN (a + b - 1) \div b ELSE -((-a) \div b)

-----------------------------------------------------------------------------
(* (2) the algorithm as written: trim the tail, trim the head, extrapolate the first marker to
   beat -4, extrapolate the last marker to the first beat at or after the end *)
FirstWhere(g, P(_)) == IF \E k \in DOMAIN g : P(g[k]) THEN CHOOSE k \in DOMAIN g : P(g[k]) /\ \A j \in 1 .. k - 1 : ~P(g[j])
                       ELSE 0
TrimTail(g, sc) == LET k == FirstWhere(g, LAMBDA m : m.o > sc) IN IF k = 0 THEN g ELSE SubSeq(g, 1, k)
TrimHead(g) == LET k == FirstWhere(g, LAMBDA m : m.o > 0) IN
               IF k = 1 THEN g
               ELSE IF k = 0 THEN SubSeq(g, Len(g), Len(g))       \* nothing after 0: only the last marker survives
               ELSE SubSeq(g, k - 1, Len(g))
Trim(g, sc) == IF g = <<>> THEN g ELSE TrimHead(TrimTail(g, sc))

\* samples per beat of the segment (a, b) as a fraction num / den
Exact(a, b) == b.i > a.i /\ (b.o - a.o) % (b.i - a.i) = 0
Spb(a, b) == (b.o - a.o) \div (b.i - a.i)

ExtrapolateFirst(t) == [t EXCEPT ![1] = [i |-> -4, o |-> t[1].o - (4 + t[1].i) * Spb(t[1], t[2])]]
ExtrapolateLast(t, sc) ==
    LET L == Len(t)
        s == Spb(t[L - 1], t[L])
        adj == CeilDiv(sc - t[L].o, s)
    IN [t EXCEPT ![L] = [i |-> t[L].i + adj, o |-> t[L].o + adj * s]]

\* "undef": the algorithm divides by zero (the code then converts inf/NaN to an integer)
Normalize(g, sc) ==
    IF g = <<>> THEN [out |-> "ok", grid |-> g]
    ELSE LET t == Trim(g, sc) IN
         IF Len(t) < 2 THEN [out |-> "reject", grid |-> <<>>]
         ELSE IF ~Exact(t[1], t[2]) THEN [out |-> "inexact", grid |-> <<>>]
         ELSE LET f == ExtrapolateFirst(t)
                  L == Len(f) IN
              \* beat -4 on or past the second marker: no normal form
              IF f[2].i <= f[1].i \/ f[2].o <= f[1].o THEN [out |-> "reject", grid |-> <<>>]
              ELSE IF ~Exact(f[L - 1], f[L]) \/ Spb(f[L - 1], f[L]) <= 0 THEN [out |-> "inexact", grid |-> f]
              ELSE LET r == ExtrapolateLast(f, sc) IN
                   \* the first beat at or beyond the end on or before the marker preceding it: no normal form
                   IF r[L].i <= r[L - 1].i \/ r[L].o <= r[L - 1].o THEN [out |-> "reject", grid |-> <<>>]
                   ELSE [out |-> "ok", grid |-> r]

-----------------------------------------------------------------------------
(* (1) the property *)
\* grids the property speaks about: at least two markers, well-formed, overlapping the track
InDomain(g, sc) == /\ Len(g) >= 2 /\ Increasing(g) /\ sc > 0
                   /\ g[1].o < sc /\ g[Len(g)].o > 0
\* Among the grids in the domain, those for which a result with the required shape exists at all
\* (stated without reference to the algorithm): with t the part of the grid that overlaps the track,
\*  - the second marker lies after beat -4 (otherwise a first marker at beat -4 cannot precede it),
\*  - two markers: beat -4 of their line lies before the end of the track (otherwise the first beat
\*    at or beyond the end is beat -4 itself or an earlier one),
\*  - more markers: the last-but-one marker lies strictly inside the track (a marker exactly at the
\*    end is itself the first beat at or beyond the end).
Normalisable(g, sc) ==
    LET t == Trim(g, sc)
        L == Len(t) IN
    /\ L >= 2
    /\ t[2].i > -4
    /\ L = 2 => (t[1].o - sc) * (t[2].i - t[1].i) < (4 + t[1].i) * (t[2].o - t[1].o)
    /\ L > 2 => t[L - 1].o < sc

\* grids that cannot be normalised and must be rejected with invalid_argument
MustReject(g, sc) == \/ Len(g) = 1
                     \/ Len(g) >= 2 /\ Increasing(g) /\ (g[1].o > sc \/ g[Len(g)].o <= 0)
                     \/ InDomain(g, sc) /\ ~Normalisable(g, sc)

SameTempo(a, b, c, d) == /\ b.i > a.i /\ d.i > c.i
                         /\ (b.o - a.o) * (d.i - c.i) = (d.o - c.o) * (b.i - a.i)

\* r = result for input g (t = the part of g that overlaps the track, as the property describes it)
PostOK(g, sc, r) ==
    LET t == Trim(g, sc)
        L == Len(r) IN
    /\ Len(r) = Len(t) /\ Len(r) >= 2
    /\ Increasing(r)
    /\ r[1].i = -4                                                       \* first marker has beat index -4
    /\ r[L].o >= sc                                                      \* last marker at or beyond the end ...
    /\ (r[L].o - sc) * (r[L].i - r[L - 1].i) < r[L].o - r[L - 1].o       \* ... less than one beat past it
    /\ SameTempo(t[1], t[2], r[1], r[2])                                 \* tempo of the first segment kept
    /\ SameTempo(t[L - 1], t[L], r[L - 1], r[L])                         \* tempo of the last segment kept
    /\ \A k \in 2 .. L - 1 : r[k] = t[k]                                 \* interior markers unchanged
=============================================================================
