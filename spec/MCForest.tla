------------------------------ MODULE MCForest ------------------------------
(* Bounded model-checking / script-generation instance of Library: crate forest + membership. *)
EXTENDS Library, Json

CONSTANTS Family, MaxCrates, MaxTracks, MaxOps, WithTracks,
          OpNames,      \* names used as arguments (subset of Names)
          CrateOpSet,   \* "all" | "basic" (create_root, create_sub, remove_crate only) | "move" (create_root, create_sub, set_parent only)
          TrackOpSet,   \* "all" | "mem" (add_track / remove_track_from / clear_tracks only)
          Pre           \* "none" | "diverge" | "rich": start after a preamble that makes crate, track and
                        \* membership-row ids diverge (what a fresh-database test never has)

VARIABLE hist      \* the calls made so far (ghost; hidden by the VIEW)

NextId == Cardinality(live \cup dead) + 1
NextTid == Cardinality(tlive \cup tdead) + 1

H(op, c, n, t, new) == [op |-> op, c |-> c, p |-> 0, n |-> n, t |-> t, a |-> 0, out |-> "ok", new |-> new]
Preamble == << H("create_root", 0, "c", 0, 1), H("create_root", 0, "d", 0, 2), H("remove_crate", 1, "", 0, 0),
               H("create_track", 0, "", 0, 1), H("create_track", 0, "", 0, 2), H("create_track", 0, "", 0, 3),
               H("create_track", 0, "", 0, 4), H("remove_track", 0, "", 1, 0), H("remove_track", 0, "", 2, 0),
               H("remove_track", 0, "", 3, 0) >>

\* "rich": two crates and three tracks are alive, so that membership orderings can be explored deeply
Preamble2 == Preamble \o << H("create_track", 0, "", 0, 5), H("create_track", 0, "", 0, 6), H("create_root", 0, "c", 0, 3) >>

MCInit ==
    IF Pre = "none" THEN InitWith(Family) /\ hist = <<>>
    ELSE IF Pre = "rich" THEN
         /\ fam = Family
         /\ live = {2, 3} /\ dead = {1}
         /\ par = (2 :> Root) @@ (3 :> Root) /\ nm = (2 :> "d") @@ (3 :> "c")
         /\ kids = (Root :> <<2, 3>>) @@ (2 :> <<>>) @@ (3 :> <<>>)
         /\ tlive = {4, 5, 6} /\ tdead = {1, 2, 3}
         /\ mem = (2 :> <<>>) @@ (3 :> <<>>)
         /\ last = Preamble2[Len(Preamble2)]
         /\ kf = ""
         /\ hist = Preamble2
    ELSE /\ fam = Family
         /\ live = {2} /\ dead = {1}
         /\ par = (2 :> Root) /\ nm = (2 :> "d")
         /\ kids = (Root :> <<2>>) @@ (2 :> <<>>)
         /\ tlive = {4} /\ tdead = {1, 2, 3}
         /\ mem = (2 :> <<>>)
         /\ last = Preamble[Len(Preamble)]
         /\ kf = ""
         /\ hist = Preamble

CrateOps ==
    \/ \E n \in OpNames : NextId <= MaxCrates /\ CreateRoot(n, NextId)
    \/ \E c \in live, n \in OpNames : NextId <= MaxCrates /\ CreateSub(c, n, NextId)
    \/ CrateOpSet # "move" /\ \E c \in live : RemoveCrate(c)
    \* "move": creation and re-parenting only - deeper forests (4 crates) moved around twice within the same number of calls
    \/ CrateOpSet = "move" /\ \E c \in live, p \in live \cup {Root} : SetParent(c, p)
    \/ /\ CrateOpSet = "all"
       /\ \/ \E n \in OpNames, a \in live : NextId <= MaxCrates /\ CreateRootAfter(n, a, NextId)
          \/ \E c \in live, n \in OpNames, a \in live : NextId <= MaxCrates /\ CreateSubAfter(c, n, a, NextId)
          \/ \E c \in live, n \in OpNames : SetName(c, n)
          \/ \E c \in live, p \in live \cup {Root} : SetParent(c, p)

TrackOps ==
    \/ TrackOpSet = "all" /\ NextTid <= MaxTracks /\ CreateTrack(NextTid)
    \/ TrackOpSet = "all" /\ \E t \in tlive : RemoveTrack(t)
    \/ \E c \in live, t \in tlive : AddTrack(c, t)
    \/ \E c \in live, t \in tlive : RemoveTrackFrom(c, t)
    \/ \E c \in live : ClearTracks(c)

MCNext ==
    /\ Len(hist) < MaxOps
    /\ ((CrateOpSet # "none" /\ CrateOps) \/ (WithTracks /\ TrackOps))
    /\ hist' = Append(hist, last')

MCSpec == MCInit /\ [][MCNext]_<<vars, hist>>

MCView == state

\* Simulation mode (random long histories): every candidate successor that completes a history of
\* MaxOps calls is printed; each printed history is a behaviour of the specification.
SimEmit == Len(hist) < MaxOps \/ PrintT("HIST " \o ToJson(hist))

\* Every generated transition is printed with the complete call sequence that reaches it.
Emit == PrintT("SCRIPT " \o ToJson([h |-> hist', loop |-> (state' = state)]))
=============================================================================
