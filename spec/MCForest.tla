------------------------------ MODULE MCForest ------------------------------
(* Bounded model-checking / script-generation instance of Library: crate forest + membership. *)
EXTENDS Library, Json

CONSTANTS Family, MaxCrates, MaxTracks, MaxOps, WithTracks

VARIABLE hist      \* the calls made so far (ghost; hidden by the VIEW)

NextId == Cardinality(live \cup dead) + 1
NextTid == Cardinality(tlive \cup tdead) + 1

MCInit == InitWith(Family) /\ hist = <<>>

CrateOps ==
    \/ \E n \in Names : NextId <= MaxCrates /\ CreateRoot(n, NextId)
    \/ \E n \in Names, a \in live : NextId <= MaxCrates /\ CreateRootAfter(n, a, NextId)
    \/ \E c \in live, n \in Names : NextId <= MaxCrates /\ CreateSub(c, n, NextId)
    \/ \E c \in live, n \in Names, a \in live : NextId <= MaxCrates /\ CreateSubAfter(c, n, a, NextId)
    \/ \E c \in live, n \in Names : SetName(c, n)
    \/ \E c \in live, p \in live \cup {Root} : SetParent(c, p)
    \/ \E c \in live : RemoveCrate(c)

TrackOps ==
    \/ NextTid <= MaxTracks /\ CreateTrack(NextTid)
    \/ \E t \in tlive : RemoveTrack(t)
    \/ \E c \in live, t \in tlive : AddTrack(c, t)
    \/ \E c \in live, t \in tlive : RemoveTrackFrom(c, t)
    \/ \E c \in live : ClearTracks(c)

MCNext ==
    /\ Len(hist) < MaxOps
    /\ (CrateOps \/ (WithTracks /\ TrackOps))
    /\ hist' = Append(hist, last')

MCSpec == MCInit /\ [][MCNext]_<<vars, hist>>

MCView == state

\* Every generated transition is printed with the complete call sequence that reaches it.
Emit == PrintT("SCRIPT " \o ToJson([h |-> hist', loop |-> (state' = state)]))
=============================================================================
