------------------------------ MODULE V1Rows ------------------------------
(***************************************************************************)
(* The rows of the schema-1.x tables that the crate / membership / track    *)
(* calls write, the SQL statements those calls issue and the statement      *)
(* program of each public call (engine_crate_impl.cpp,                      *)
(* engine_database_impl.cpp).  The forest is stored three times:            *)
(*   Crate (id, title, path)            path = names root..crate, each + ";" *)
(*   CrateParentList (origin, parent)   a root crate is its own parent       *)
(*   CrateHierarchy (crateId, child)    the flattened proper-ancestor        *)
(*                                       relation                            *)
(* and membership in CrateTrackList (crateId, trackId).  None of the tables  *)
(* has a UNIQUE constraint besides Crate's primary key, foreign keys are not *)
(* enforced, so every redundancy is maintained by the statements below.      *)
(* From 1.9.1 the four names are views over List* tables with INSTEAD OF     *)
(* triggers that perform the same row changes, and the crate id is chosen    *)
(* as MAX(id)+1 - which is also what the rowid alias of the older schemas    *)
(* yields, so one model serves all eleven schemas.                           *)
(* Constant-level module: used by V1Store.tla and TraceV1Store.tla.          *)
(***************************************************************************)
EXTENDS Integers, Sequences, FiniteSets, TLC

CONSTANTS
    ValidNames, InvalidNames,
    Variant                 \* "current" or one of the pre-repair shapes, see Prog

Names == ValidNames \cup InvalidNames
CRow(t, path) == [t |-> t, path |-> path]
Res(ok, s) == [ok |-> ok, s |-> s]
Restrict(f, S) == [x \in S |-> f[x]]
Max(S) == CHOOSE x \in S : \A y \in S : y <= x
Min(S) == CHOOSE x \in S : \A y \in S : x <= y

EmptyStore == [C |-> <<>>, PL |-> {}, H |-> {}, TL |-> {}, T |-> {}]
NextCrateId(S) == IF DOMAIN S.C = {} THEN 1 ELSE Max(DOMAIN S.C) + 1

\* what the library's own queries read
ParentOf(S, c) == LET ps == {x[2] : x \in {y \in S.PL : y[1] = c /\ y[2] # c}} IN IF ps = {} THEN 0 ELSE CHOOSE p \in ps : TRUE
KidsOf(S, c) == {x[1] : x \in {y \in S.PL : y[2] = c /\ y[1] # c}}
AncH(S, c) == {x[1] : x \in {y \in S.H : y[2] = c}}
DescH(S, c) == {x[2] : x \in {y \in S.H : y[1] = c}}
PathOf(S, c) == IF c \in DOMAIN S.C THEN S.C[c].path ELSE ""
RECURSIVE AncPL(_, _, _)
AncPL(S, c, fuel) == LET p == ParentOf(S, c) IN IF fuel = 0 \/ p = 0 THEN {} ELSE {p} \cup AncPL(S, p, fuel - 1)

-----------------------------------------------------------------------------
Stmt(k, a, b, c) == [k |-> k, a |-> a, b |-> b, c |-> c]
Begin == Stmt("begin", 0, 0, 0)
Commit == Stmt("commit", 0, 0, 0)
Throw == Stmt("throw", 0, 0, 0)

Exec(s, S) ==
    CASE s.k = "insC" -> Res(s.a \notin DOMAIN S.C, [S EXCEPT !.C = [x \in DOMAIN S.C \cup {s.a} |-> IF x = s.a THEN CRow(s.b, s.c) ELSE S.C[x]]])
      [] s.k = "updC" -> Res(TRUE, [S EXCEPT !.C = [x \in DOMAIN S.C |-> IF x = s.a THEN CRow(s.b, s.c) ELSE S.C[x]]])
      [] s.k = "updPath" -> Res(TRUE, [S EXCEPT !.C = [x \in DOMAIN S.C |-> IF x = s.a THEN CRow(S.C[x].t, s.b) ELSE S.C[x]]])
      [] s.k = "delC" -> Res(TRUE, [S EXCEPT !.C = Restrict(S.C, DOMAIN S.C \ {s.a})])
      [] s.k = "insPL" -> Res(TRUE, [S EXCEPT !.PL = @ \cup {<<s.a, s.b>>}])
      [] s.k = "delPL" -> Res(TRUE, [S EXCEPT !.PL = {x \in @ : x[1] # s.a}])
      \* INSERT INTO CrateHierarchy SELECT crateId, :new FROM CrateHierarchy WHERE crateIdChild = :p UNION SELECT :p, :new
      [] s.k = "insHunder" -> Res(TRUE, [S EXCEPT !.H = @ \cup {<<a, s.a>> : a \in AncH(S, s.b)} \cup {<<s.b, s.a>>}])
      \* DELETE FROM CrateHierarchy WHERE crateId IN (ancestors of c) AND crateIdChild IN (descendants of c)
      [] s.k = "delHcross" -> Res(TRUE, [S EXCEPT !.H = {x \in @ : ~(x[1] \in AncH(S, s.a) /\ x[2] \in DescH(S, s.a))}])
      [] s.k = "delHchild" -> Res(TRUE, [S EXCEPT !.H = {x \in @ : x[2] # s.a}])
      \* INSERT ... SELECT a.crateId, d.crateIdChild FROM CrateHierarchy a, CrateHierarchy d WHERE a.crateIdChild = c AND d.crateId = c
      [] s.k = "insHcross" -> Res(TRUE, [S EXCEPT !.H = @ \cup {<<a, d>> : a \in AncH(S, s.a), d \in DescH(S, s.a)}])
      [] s.k = "delHany" -> Res(TRUE, [S EXCEPT !.H = {x \in @ : x[1] # s.a /\ x[2] # s.a}])
      [] s.k = "insTL" -> Res(TRUE, [S EXCEPT !.TL = @ \cup {<<s.a, s.b>>}])
      [] s.k = "delTL" -> Res(TRUE, [S EXCEPT !.TL = @ \ {<<s.a, s.b>>}])
      [] s.k = "delTLcrate" -> Res(TRUE, [S EXCEPT !.TL = {x \in @ : x[1] # s.a}])
      [] s.k = "delTLtrack" -> Res(TRUE, [S EXCEPT !.TL = {x \in @ : x[2] # s.a}])
      [] s.k = "insT" -> Res(s.a \notin S.T, [S EXCEPT !.T = @ \cup {s.a}])
      [] s.k = "delT" -> Res(TRUE, [S EXCEPT !.T = @ \ {s.a}])
      [] OTHER -> Res(FALSE, S)

\* update_path(): the crate, then recursively its children (ascending ids), each with the new prefix
RECURSIVE PathStmts(_, _, _, _)
RECURSIVE PathStmtsOver(_, _, _, _)
PathStmts(S, c, prefix, fuel) ==
    LET path == prefix \o (IF c \in DOMAIN S.C THEN S.C[c].t ELSE "") \o ";" IN
    <<Stmt("updPath", c, path, 0)>> \o (IF fuel = 0 THEN <<>> ELSE PathStmtsOver(S, KidsOf(S, c), path, fuel - 1))
PathStmtsOver(S, K, prefix, fuel) ==
    IF K = {} THEN <<>> ELSE LET k == Min(K) IN PathStmts(S, k, prefix, fuel) \o PathStmtsOver(S, K \ {k}, prefix, fuel)

RECURSIVE RemoveStmts(_)
RemoveOne(c) == <<Stmt("delTLcrate", c, 0, 0), Stmt("delHany", c, 0, 0), Stmt("delPL", c, 0, 0), Stmt("delC", c, 0, 0)>>
RemoveStmts(K) == IF K = {} THEN <<>> ELSE LET k == Min(K) IN RemoveOne(k) \o RemoveStmts(K \ {k})

Call(op, c, p, n, t, a) == [op |-> op, c |-> c, p |-> p, n |-> n, t |-> t, a |-> a]

\* `newt` is the id the database hands to a created track (taken from the trace, chosen by the model checker)
Prog(call, S, newt) ==
    LET n == call.n
        c == call.c
        fuel == Cardinality(DOMAIN S.C)
        Create(p) ==
            IF n \in InvalidNames THEN <<Throw>>
            ELSE LET id == NextCrateId(S) IN
                 IF p = 0 THEN <<Begin, Stmt("insC", id, n, n \o ";"), Stmt("insPL", id, id, 0), Commit>>
                 ELSE <<Begin, Stmt("insC", id, n, PathOf(S, p) \o n \o ";"), Stmt("insPL", id, p, 0), Stmt("insHunder", id, p, 0), Commit>>
    IN
    CASE call.op \in {"create_root", "create_root_after"} -> Create(0)
      [] call.op \in {"create_sub", "create_sub_after"} -> Create(c)
      [] call.op = "set_name" ->
            IF n \in InvalidNames THEN <<Throw>>
            ELSE LET path == PathOf(S, ParentOf(S, c)) \o n \o ";" IN
                 <<Begin, Stmt("updC", c, n, path)>> \o PathStmtsOver(S, KidsOf(S, c), path, fuel) \o <<Commit>>
      [] call.op = "set_parent" ->
            LET p == call.p IN
            IF p = c \/ (Variant # "set-parent-no-cycle-check" /\ p # 0 /\ c \in AncPL(S, p, fuel)) THEN <<Throw>>
            ELSE <<Begin, Stmt("delPL", c, 0, 0), Stmt("insPL", c, IF p = 0 THEN c ELSE p, 0)>>
                 \o (IF Variant = "set-parent-leaves-subtree" THEN <<>> ELSE <<Stmt("delHcross", c, 0, 0)>>)
                 \o <<Stmt("delHchild", c, 0, 0)>>
                 \o (IF p = 0 THEN <<>>
                     ELSE <<Stmt("insHunder", c, p, 0)>> \o (IF Variant = "set-parent-leaves-subtree" THEN <<>> ELSE <<Stmt("insHcross", c, 0, 0)>>))
                 \o (IF Variant = "set-parent-leaves-subtree"
                     THEN <<Stmt("updPath", c, PathOf(S, p) \o S.C[c].t \o ";", 0)>>
                     ELSE PathStmts(S, c, PathOf(S, p), fuel))
                 \o <<Commit>>
      [] call.op = "remove_crate" ->
            IF Variant = "remove-crate-shallow" THEN <<Stmt("delC", c, 0, 0)>>
            ELSE <<Begin>> \o RemoveStmts(DescH(S, c)) \o RemoveOne(c) \o <<Commit>>
      [] call.op = "add_track" ->
            IF Variant = "add-track-no-txn" THEN <<Stmt("delTL", c, call.t, 0), Stmt("insTL", c, call.t, 0)>>
            ELSE <<Begin, Stmt("delTL", c, call.t, 0), Stmt("insTL", c, call.t, 0), Commit>>
      [] call.op = "remove_track_from" -> <<Stmt("delTL", c, call.t, 0)>>
      [] call.op = "clear_tracks" -> <<Stmt("delTLcrate", c, 0, 0)>>
      [] call.op = "create_track" -> <<Begin, Stmt("insT", newt, 0, 0), Commit>>
      [] call.op = "remove_track" ->
            IF Variant = "remove-track-shallow" THEN <<Stmt("delT", call.t, 0, 0)>>
            ELSE <<Begin, Stmt("delTLtrack", call.t, 0, 0), Stmt("delT", call.t, 0, 0), Commit>>
      [] OTHER -> <<Throw>>

NewId(call, S, newt) == IF call.op \in {"create_root", "create_sub", "create_root_after", "create_sub_after"} THEN Max(DOMAIN S.C)
                        ELSE IF call.op = "create_track" THEN newt ELSE 0

\* all statements of a program in one go: the store after the call and whether it completed
RECURSIVE RunAll(_, _, _)
RunAll(prog, S, sn) ==
    IF prog = <<>> THEN Res(TRUE, S)
    ELSE LET s == Head(prog)
             ex == IF s.k \in {"begin", "commit", "throw"} THEN Res(s.k # "throw", S) ELSE Exec(s, S)
         IN IF ~ex.ok THEN Res(FALSE, IF sn # <<>> THEN sn[1] ELSE S)
            ELSE RunAll(Tail(prog), ex.s, IF s.k = "begin" THEN <<S>> ELSE IF s.k = "commit" THEN <<>> ELSE sn)

\* ---- the stored rows describe one forest three times over (C11 on the model) ----
RECURSIVE PathIn(_, _, _)
PathIn(S, c, fuel) == LET p == ParentOf(S, c) IN
                      IF p = 0 \/ fuel = 0 THEN S.C[c].t \o ";" ELSE PathIn(S, p, fuel - 1) \o S.C[c].t \o ";"
RowsOK(S) ==
    LET L == DOMAIN S.C
        fuel == Cardinality(L) IN
    /\ {x[1] : x \in S.PL} = L /\ Cardinality(S.PL) = Cardinality(L)                 \* one parent row per crate
    /\ \A x \in S.PL : x[2] \in L
    /\ \A c \in L : c \notin AncPL(S, c, fuel)                                        \* acyclic
    /\ S.H = UNION {{<<a, d>> : a \in AncPL(S, d, fuel)} : d \in L}                   \* hierarchy = ancestor relation
    /\ \A c \in L : S.C[c].path = PathIn(S, c, fuel) /\ S.C[c].t \in ValidNames
    /\ \A x \in S.TL : x[1] \in L /\ x[2] \in S.T
=============================================================================
