--------------------------- MODULE DbgTrackFields ---------------------------
(* Debug aid (not part of any check): walks a track-driver trace, accepts every record and prints, per    *)
(* create / update / set record, the fields whose read-back TrackFields does not accept.                  *)
EXTENDS TraceTrackFields

BadSnap(in, out) == {f \in AllFields : ~FieldOK(fam, fb, f, in[f], out[f])}
Subj(r) == IF r.op = "create" THEN r.new ELSE r.t
DNext ==
    /\ l <= Len(Log)
    /\ LET r == Log[l] IN
       /\ IF r.e = "reset" THEN fam' = r.family /\ fb' = (r.schema \in FbSchemas) ELSE UNCHANGED <<fam, fb>>
       /\ IF r.e = "call" /\ Has(r, "obs") /\ r.out = "ok" /\ r.op \in {"create", "update"} /\ Subj(r) \in DOMAIN Snaps(r)
          THEN PrintT(<<"DBG", l, r.op, "bad", BadSnap(r.in, Snaps(r)[Subj(r)]), "mustreject", MustReject(fam, r.in, r.pathinfo.has_ext),
                        "others", {u \in DOMAIN ts \ {Subj(r)} : u \notin DOMAIN Snaps(r) \/ Snaps(r)[u] # ts[u]},
                        "getters", GettersAgree(r, fam), "gthrow", {f \in DOMAIN (CHOOSE x \in ToSet(r.obs.tk) : TRUE).get : \E x \in ToSet(r.obs.tk) : IsThrow(x.get[f])},
                        "gbad", {f \in AllFields \ {"file_bytes"} : \E x \in ToSet(r.obs.tk) : ~IsThrow(x.get[f]) /\ x.get[f].v # x.snap.v[f]},
                        "slots", \A x \in ToSet(r.obs.tk) : IsThrow(x.get.cue_at) \/ IsThrow(x.get.loop_at) \/ (x.get.cue_at.v = x.snap.v.hot_cues /\ x.get.loop_at.v = x.snap.v.loops),
                        "nowrite", NoWrite(r), "derived", DerivedOK(r, (Subj(r) :> r.pathinfo) @@ pinfo)>>)
          ELSE IF r.e = "call" /\ Has(r, "obs") /\ r.out = "ok" /\ r.op = "set" /\ r.t \in DOMAIN ts
          THEN PrintT(<<"DBG", l, "set", r.f, "frame", {h \in AllFields \ {SetField(r.f)} : Snaps(r)[r.t][h] # ts[r.t][h]},
                        "setok", SetOK(r, ts[r.t][SetField(r.f)], Snaps(r)[r.t][SetField(r.f)]), "getters", GettersAgree(r, fam)>>)
          ELSE IF r.e = "call" /\ r.op = "fixpoint" /\ r.out = "ok"
          THEN PrintT(<<"DBG", l, "fixpoint", {f \in AllFields : r.s1[f] # r.s2[f]}, "s1=ts", r.s1 = ts[r.t]>>)
          ELSE PrintT(<<"DBG", l, r.e>>)
       /\ IF Has(r, "obs") /\ Has(r.obs, "tk") THEN ts' = Snaps(r) ELSE ts' = ts
       /\ pinfo' = IF r.e = "call" /\ Has(r, "pathinfo") /\ r.out = "ok" /\ (Subj(r) \in DOMAIN Snaps(r)) THEN (Subj(r) :> r.pathinfo) @@ pinfo ELSE pinfo
    /\ l' = l + 1 /\ UNCHANGED <<dead, probing, vs>>
DSpec == TInit /\ [][DNext]_tvars
=============================================================================
