------------------------------ MODULE SchemaRef ------------------------------
(***************************************************************************)
(* C12: a freshly created library has exactly the schema of the reference   *)
(* libraries of its version.                                                *)
(*                                                                         *)
(* A schema is an INVENTORY: the set of objects of every database file of    *)
(* the library, an object being (file, type, name, owning table, definition) *)
(* with type one of table / index / view / trigger.  The definition is the   *)
(* object's SQL text as a token sequence - whitespace and comments dropped,  *)
(* identifier quoting removed - rendered as one string (the abstraction       *)
(* function lives in the harness: tools/schemaref.py, `tokens`), so "modulo   *)
(* whitespace and identifier quoting" is equality of these values.           *)
(*                                                                         *)
(* The specification of the schema creators is then one line per version:    *)
(*     Create(v) yields an inventory equal to Reference(v)                    *)
(* for every reference library that loads as version v, in both forms (on    *)
(* disk, temporary), with the version numbers of the reference, accepted by  *)
(* verify(), recognised on load as v.  The operators below are what the       *)
(* trace specification evaluates and what it reports about a difference.      *)
(***************************************************************************)
EXTENDS Integers, Sequences, FiniteSets, TLC

Elems(s) == {s[k] : k \in DOMAIN s}
Obj(x) == [db |-> x[1], type |-> x[2], name |-> x[3], tbl |-> x[4], def |-> x[5]]
Inventory(objs) == {Obj(x) : x \in Elems(objs)}
Key(o) == <<o.db, o.type, o.name>>
Keys(I) == {Key(o) : o \in I}

\* an inventory names every object once per file and type, and every index / trigger belongs to a table or view of its file
WellFormed(I) ==
    /\ Cardinality(Keys(I)) = Cardinality(I)
    /\ \A o \in I : o.type \in {"table", "index", "view", "trigger"}
    /\ \A o \in I : o.type \in {"index", "trigger"} => \E t \in I : t.db = o.db /\ t.type \in {"table", "view"} /\ t.name = o.tbl

Missing(R, C) == Keys(R) \ Keys(C)            \* in the reference, not created
Extra(R, C) == Keys(C) \ Keys(R)              \* created, not in the reference
Altered(R, C) == {k \in Keys(R) \cap Keys(C) : (CHOOSE o \in R : Key(o) = k) # (CHOOSE o \in C : Key(o) = k)}
Same(R, C) == R = C

\* version rows: one per database file that carries an Information table
Versions(info) == {<<x[1], x[2], x[3], x[4]>> : x \in Elems(info)}
=============================================================================
