-------------------------- MODULE MCCommitProtocol --------------------------
EXTENDS CommitProtocol
MCFiles == <<"music", "perfdata">>
MCFiles3 == <<"music", "perfdata", "third">>
=============================================================================
