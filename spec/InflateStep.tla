---------------------------- MODULE InflateStep ----------------------------
(* The contract of one inflate / deflate call as the chunk loops of zlib_uncompress / zlib_compress see it *)
(* (shared by the loop model InflateLoop.tla and by the validation of recorded hand-offs, TraceDecoders).   *)
EXTENDS Integers

(* step relation for recorded hand-offs (trace validation of the real loop): *)
\* one recorded call: sizes within what was offered, regions addressable
CallOK(c) == c.used >= 0 /\ c.used <= c.ai /\ c.made >= 0 /\ c.made <= c.ao /\ c.inok /\ c.outok
\* two consecutive calls that neither consumed, produced nor ended: the loop is not making progress
Stalled(a, b) == a.used = 0 /\ a.made = 0 /\ a.ret # 1 /\ b.used = 0 /\ b.made = 0 /\ b.ret # 1 /\ b.ai = 0
=============================================================================
