------------------------------ MODULE V1Store ------------------------------
(***************************************************************************)
(* Storage layer of the schema-1.x family as a state machine: the rows of   *)
(* V1Rows.tla, one step per SQL statement of the call in progress, BEGIN /  *)
(* COMMIT, and an injected failure at any one statement (Fail(k)).          *)
(*                                                                         *)
(* Checked: RowsOK (the three redundant encodings of the forest and the     *)
(* membership rows agree, C11 on the model) after every completed call,     *)
(* and REFINEMENT into Library.tla at call boundaries (C07, C08, C14: a     *)
(* call failing at any statement must be a Library!Failed step).            *)
(*                                                                         *)
(* The 1.x family has no observable sibling / entry order, but Library.tla  *)
(* carries one; it is supplied by history variables (kord, mord) that are   *)
(* updated at call completion and tied to the rows by GhostAgree.  Ids:     *)
(* crates get MAX(id)+1 (both the rowid alias of the old schemas and the    *)
(* explicit query of the List-based ones), so the highest id is handed out  *)
(* again after its crate was removed - Library's known finding              *)
(* "v1-id-reuse", reproduced here on the model (kfA).                       *)
(***************************************************************************)
EXTENDS V1Rows

CONSTANTS MaxC, MaxT, MaxCalls, Faults

VARIABLES
    st, pc, snap, pre, cur, curT, fail, lastA, ncalls,
    kord,    \* history: parent (0 = root) -> sequence of its children in creation / move order
    mord,    \* history: crate -> sequence of member tracks in insertion order
    everC, everT,   \* history: ids ever handed out
    kfA      \* known-finding note of the last completed call (refines Library!kf)

svars == <<st, pc, snap, pre, cur, curT, fail, lastA, ncalls, kord, mord, everC, everT, kfA>>

ToSet(s) == {s[i] : i \in DOMAIN s}
Without(s, x) == SelectSeq(s, LAMBDA y : y # x)

Calls(S) ==
    LET L == DOMAIN S.C
        room == Cardinality(everC) < MaxC IN
    {Call("create_root", 0, 0, n, 0, 0) : n \in {m \in Names : room}}
    \cup {Call("create_sub", c, 0, n, 0, 0) : c \in L, n \in {m \in Names : room}}
    \cup {Call("set_name", c, 0, n, 0, 0) : c \in L, n \in Names}
    \cup {Call("set_parent", c, p, "", 0, 0) : c \in L, p \in L \cup {0}}
    \cup {Call("remove_crate", c, 0, "", 0, 0) : c \in L}
    \cup {Call("create_track", 0, 0, "", 0, 0) : x \in {y \in {0} : Cardinality(everT) < MaxT}}
    \cup {Call("remove_track", 0, 0, "", t, 0) : t \in S.T}
    \cup {Call("add_track", c, 0, "", t, 0) : c \in L, t \in S.T}
    \cup {Call("remove_track_from", c, 0, "", t, 0) : c \in L, t \in S.T}
    \cup {Call("clear_tracks", c, 0, "", 0, 0) : c \in L}

\* the id a created track gets: the rowid alias hands MAX(id)+1 out (schemas before 1.17.0)
NextTrackId(S) == IF S.T = {} THEN 1 ELSE Max(S.T) + 1

Finish(call, out, new) ==
    lastA' = [op |-> call.op, c |-> call.c, p |-> call.p, n |-> call.n, t |-> call.t, a |-> call.a, out |-> out, new |-> new]

\* history variables after a completed call (S0 = rows before the call, S1 = rows after it)
GhostDone(call, S0, S1, newt) ==
    LET op == call.op
        c == call.c IN
    CASE op \in {"create_root", "create_sub"} ->
            LET id == Max(DOMAIN S1.C)
                p == IF op = "create_root" THEN 0 ELSE c IN
            /\ kord' = [x \in DOMAIN kord \cup {id} |-> IF x = id THEN <<>> ELSE IF x = p THEN Append(kord[p], id) ELSE kord[x]]
            /\ mord' = [x \in DOMAIN mord \cup {id} |-> IF x = id THEN <<>> ELSE mord[x]]
            /\ everC' = everC \cup {id} /\ everT' = everT
            /\ kfA' = IF id \in everC THEN "v1-id-reuse" ELSE ""
      [] op = "set_parent" ->
            LET old == ParentOf(S0, c) IN
            /\ kord' = IF old = call.p THEN kord
                       ELSE [kord EXCEPT ![old] = Without(@, c), ![call.p] = Append(@, c)]
            /\ UNCHANGED <<mord, everC, everT>> /\ kfA' = ""
      [] op = "remove_crate" ->
            LET G == DOMAIN S0.C \ DOMAIN S1.C
                keep == (DOMAIN kord) \ G IN
            /\ kord' = [x \in keep |-> SelectSeq(kord[x], LAMBDA y : y \notin G)]
            /\ mord' = [x \in DOMAIN mord \ G |-> mord[x]]
            /\ UNCHANGED <<everC, everT>> /\ kfA' = ""
      [] op = "create_track" ->
            /\ everT' = everT \cup {newt} /\ UNCHANGED <<kord, mord, everC>>
            /\ kfA' = IF newt \in everT THEN "v1-track-id-reuse" ELSE ""
      [] op = "remove_track" ->
            /\ mord' = [x \in DOMAIN mord |-> Without(mord[x], call.t)] /\ UNCHANGED <<kord, everC, everT>> /\ kfA' = ""
      [] op = "add_track" ->
            /\ mord' = IF call.t \in ToSet(mord[c]) THEN mord ELSE [mord EXCEPT ![c] = Append(@, call.t)]
            /\ UNCHANGED <<kord, everC, everT>> /\ kfA' = ""
      [] op = "remove_track_from" ->
            /\ mord' = [mord EXCEPT ![c] = Without(@, call.t)] /\ UNCHANGED <<kord, everC, everT>> /\ kfA' = ""
      [] op = "clear_tracks" ->
            /\ mord' = [mord EXCEPT ![c] = <<>>] /\ UNCHANGED <<kord, everC, everT>> /\ kfA' = ""
      [] OTHER -> UNCHANGED <<kord, mord, everC, everT>> /\ kfA' = ""

RunFirst(call, prog, S, sn, fl, S0, newt) ==
    LET s == Head(prog)
        rest == Tail(prog)
        struck == fl = 1
        ex == IF s.k \in {"begin", "commit", "throw"} THEN Res(s.k # "throw", S) ELSE Exec(s, S)
    IN
    IF struck \/ ~ex.ok
    THEN /\ st' = IF sn # <<>> THEN sn[1] ELSE S
         /\ pc' = <<>> /\ snap' = <<>> /\ fail' = 0
         /\ Finish(call, "throw", 0)
         /\ UNCHANGED <<kord, mord, everC, everT>> /\ kfA' = ""
    ELSE /\ st' = ex.s
         /\ snap' = IF s.k = "begin" THEN <<S>> ELSE IF s.k = "commit" THEN <<>> ELSE sn
         /\ pc' = rest
         /\ fail' = IF fl > 1 /\ rest # <<>> THEN fl - 1 ELSE 0
         /\ IF rest = <<>>
            THEN Finish(call, "ok", NewId(call, ex.s, newt)) /\ GhostDone(call, S0, ex.s, newt)
            ELSE lastA' = lastA /\ UNCHANGED <<kord, mord, everC, everT, kfA>>

Start ==
    /\ pc = <<>> /\ ncalls < MaxCalls
    /\ \E call \in Calls(st) :
          LET newt == NextTrackId(st)
              prog == Prog(call, st, newt) IN
          /\ cur' = call /\ curT' = newt /\ pre' = st /\ ncalls' = ncalls + 1
          /\ \E fl \in (IF Faults THEN 0 .. Len(prog) ELSE {0}) : RunFirst(call, prog, st, <<>>, fl, st, newt)

Step ==
    /\ pc # <<>>
    /\ RunFirst(cur, pc, st, snap, fail, pre, curT)
    /\ UNCHANGED <<pre, cur, curT, ncalls>>

Init ==
    /\ st = EmptyStore /\ pc = <<>> /\ snap = <<>> /\ pre = EmptyStore /\ fail = 0 /\ ncalls = 0 /\ curT = 0
    /\ cur = Call("init", 0, 0, "", 0, 0)
    /\ lastA = [op |-> "init", c |-> 0, p |-> 0, n |-> "", t |-> 0, a |-> 0, out |-> "ok", new |-> 0]
    /\ kord = [x \in {0} |-> <<>>] /\ mord = <<>> /\ everC = {} /\ everT = {} /\ kfA = ""

Next == Start \/ Step
Spec == Init /\ [][Next]_svars

-----------------------------------------------------------------------------
AtRest == pc = <<>>
RowsInv == AtRest => RowsOK(st)
NoTxnAtRest == AtRest => snap = <<>>
\* the history variables describe the rows
GhostAgree ==
    AtRest =>
        /\ DOMAIN kord = DOMAIN st.C \cup {0} /\ DOMAIN mord = DOMAIN st.C
        /\ \A p \in DOMAIN kord : ToSet(kord[p]) = {c \in DOMAIN st.C : ParentOf(st, c) = p} /\ Len(kord[p]) = Cardinality(ToSet(kord[p]))
        /\ \A c \in DOMAIN mord : ToSet(mord[c]) = {x[2] : x \in {y \in st.TL : y[1] = c}} /\ Len(mord[c]) = Cardinality(ToSet(mord[c]))
        /\ DOMAIN st.C \subseteq everC /\ st.T \subseteq everT

vis == IF pc = <<>> THEN st ELSE pre
aLive == DOMAIN vis.C
Lib == INSTANCE Library WITH
          DupPolicy <- "accept", PosPolicy <- "tail",
          fam <- "v1",
          live <- aLive,
          dead <- everC \ aLive,
          par <- [c \in aLive |-> ParentOf(vis, c)],
          nm <- [c \in aLive |-> vis.C[c].t],
          kids <- kord,
          tlive <- vis.T,
          tdead <- everT \ vis.T,
          mem <- mord,
          last <- lastA,
          kf <- kfA

LibInv == AtRest => Lib!TypeOK /\ Lib!ForestInv /\ Lib!QueriesAgree /\ Lib!MemInv

CallOf(r) == Call(r.op, r.c, r.p, r.n, r.t, r.a)
LibStep ==
    \/ \E n \in Names, id \in 1 .. MaxC + 1 : Lib!CreateRoot(n, id)
    \/ \E c \in aLive, n \in Names, id \in 1 .. MaxC + 1 : Lib!CreateSub(c, n, id)
    \/ \E c \in aLive, n \in Names : Lib!SetName(c, n)
    \/ \E c \in aLive, p \in aLive \cup {0} : Lib!SetParent(c, p)
    \/ \E c \in aLive : Lib!RemoveCrate(c)
    \/ \E id \in 1 .. MaxT + 1 : Lib!CreateTrack(id)
    \/ \E t \in vis.T : Lib!RemoveTrack(t)
    \/ \E c \in aLive, t \in vis.T : Lib!AddTrack(c, t)
    \/ \E c \in aLive, t \in vis.T : Lib!RemoveTrackFrom(c, t)
    \/ \E c \in aLive : Lib!ClearTracks(c)
    \/ (lastA'.out = "throw" /\ Lib!Failed(CallOf(lastA')))
Refines == [][LibStep]_<<vis, lastA, kord, mord, everC, everT, kfA>>
-----------------------------------------------------------------------------
(* INDUCTION (as V2Store!SpecInd).  SpecInd starts from EVERY store within the id bounds that satisfies RowsOK -      *)
(* built constructively from a forest (D, par), titles, tracks and membership pairs, since RowsOK fixes paths, parent   *)
(* rows and hierarchy rows in terms of those - and makes one call with every injected failure.  RowsInv / GhostAgree / *)
(* LibInv / Refines on SpecInd with MaxCalls = 1: the invariants are inductive and every call from any well-formed      *)
(* store is a Library step, i.e. the bound on the NUMBER of calls is gone (ids stay bounded).  The history variables    *)
(* start with siblings and members in ascending id order: the 1.x family has no observable order, no statement reads    *)
(* kord / mord, and they are only ever changed by Append / Without, so the choice cannot matter.                        *)
RECURSIVE AncF(_, _, _)
AncF(par, c, fuel) == IF fuel = 0 \/ par[c] = 0 THEN {} ELSE {par[c]} \cup AncF(par, par[c], fuel - 1)
RECURSIVE PathF(_, _, _, _)
PathF(par, t, c, fuel) == IF par[c] = 0 \/ fuel = 0 THEN t[c] \o ";" ELSE PathF(par, t, par[c], fuel - 1) \o t[c] \o ";"
RECURSIVE Asc(_)
Asc(S) == IF S = {} THEN <<>> ELSE <<Min(S)>> \o Asc(S \ {Min(S)})
Build(D, par, t, T, TL) ==
    [C |-> [c \in D |-> CRow(t[c], PathF(par, t, c, Cardinality(D)))],
     PL |-> {<<c, IF par[c] = 0 THEN c ELSE par[c]>> : c \in D},
     H |-> UNION {{<<a, d>> : a \in AncF(par, d, Cardinality(D))} : d \in D},
     TL |-> TL, T |-> T]
InitInd ==
    /\ \E D \in SUBSET (1 .. MaxC) : \E par \in [D -> D \cup {0}] :
          /\ \A c \in D : c \notin AncF(par, c, Cardinality(D))
          /\ \E t \in [D -> ValidNames] : \E T \in SUBSET (1 .. MaxT) : \E TL \in SUBSET (D \X T) :
             \E eC \in SUBSET (1 .. MaxC) : \E eT \in SUBSET (1 .. MaxT) :
                /\ D \subseteq eC /\ T \subseteq eT
                /\ st = Build(D, par, t, T, TL)
                /\ RowsOK(st)
                /\ kord = [p \in D \cup {0} |-> Asc({c \in D : par[c] = p})]
                /\ mord = [c \in D |-> Asc({x[2] : x \in {y \in TL : y[1] = c}})]
                /\ everC = eC /\ everT = eT
    /\ pre = st
    /\ pc = <<>> /\ snap = <<>> /\ fail = 0 /\ ncalls = 0 /\ curT = 0 /\ kfA = ""
    /\ cur = Call("init", 0, 0, "", 0, 0)
    /\ lastA = [op |-> "init", c |-> 0, p |-> 0, n |-> "", t |-> 0, a |-> 0, out |-> "ok", new |-> 0]
SpecInd == InitInd /\ [][Next]_svars
=============================================================================
