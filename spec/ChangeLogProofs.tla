--------------------------- MODULE ChangeLogProofs ---------------------------
(***************************************************************************)
(* Unbounded counterpart of ChangeLog!LogInv / AppendOnly: the two ways the  *)
(* library changes the change log - appending an entry with the next counter *)
(* value (change_log_table::add and the track triggers), and replacing the   *)
(* track id of the entries of a removed track by NULL (track_table::remove)  *)
(* - preserve, for logs of ANY length, that ids strictly increase in log      *)
(* order, lie in 1 .. counter, the newest entry carries the counter, and that *)
(* an appended id was never used before.  Checked by TLAPS (tlapm).           *)
(***************************************************************************)
EXTENDS Integers, Sequences, TLAPS

Entry(id, tid) == [id |-> id, tid |-> tid]
IsLog(L) == L \in Seq([id : Int, tid : Int])
StrictInc(L) == \A i, j \in 1 .. Len(L) : i < j => L[i].id < L[j].id
Bounded(L, cs) == \A k \in 1 .. Len(L) : L[k].id \in 1 .. cs
LastIs(L, cs) == Len(L) > 0 => L[Len(L)].id = cs
Inv(L, cs) == StrictInc(L) /\ Bounded(L, cs) /\ LastIs(L, cs)

Nulled(L, t) == [k \in 1 .. Len(L) |-> IF L[k].tid = t THEN Entry(L[k].id, 0) ELSE L[k]]

THEOREM AppendKeeps ==
    ASSUME NEW L, NEW cs \in Nat, NEW t \in Int, IsLog(L), Inv(L, cs)
    PROVE  LET M == Append(L, Entry(cs + 1, t)) IN
           /\ IsLog(M)
           /\ Inv(M, cs + 1)
           /\ \A k \in 1 .. Len(L) : M[k] = L[k]                  \* append-only: earlier entries keep place and content
           /\ \A k \in 1 .. Len(L) : L[k].id # cs + 1              \* the new id was never used
<1> DEFINE e == Entry(cs + 1, t)
<1> DEFINE M == Append(L, e)
<1>1. e \in [id : Int, tid : Int]
    BY DEF Entry
<1>2. /\ Len(M) = Len(L) + 1
      /\ \A k \in 1 .. Len(L) : M[k] = L[k]
      /\ M[Len(L) + 1] = e
      /\ M \in Seq([id : Int, tid : Int])
      /\ Len(L) \in Nat
    BY <1>1 DEF IsLog
<1>3. \A k \in 1 .. Len(L) : L[k].id \in 1 .. cs
    BY DEF Inv, Bounded
<1>4. StrictInc(M)
  <2> SUFFICES ASSUME NEW i \in 1 .. Len(M), NEW j \in 1 .. Len(M), i < j PROVE M[i].id < M[j].id
      BY DEF StrictInc
  <2>1. CASE j <= Len(L)
      BY <2>1, <1>2 DEF Inv, StrictInc
  <2>2. CASE j = Len(L) + 1
    <3>1. i \in 1 .. Len(L)
        BY <2>2, <1>2
    <3>2. M[i].id \in 1 .. cs
        BY <3>1, <1>2, <1>3
    <3>3. M[j].id = cs + 1
        BY <2>2, <1>2 DEF Entry
    <3> QED BY <3>2, <3>3
  <2> QED BY <2>1, <2>2, <1>2
<1>5. Bounded(M, cs + 1)
  <2> SUFFICES ASSUME NEW k \in 1 .. Len(M) PROVE M[k].id \in 1 .. cs + 1
      BY DEF Bounded
  <2>1. CASE k <= Len(L)
      BY <2>1, <1>2, <1>3
  <2>2. CASE k = Len(L) + 1
      BY <2>2, <1>2 DEF Entry
  <2> QED BY <2>1, <2>2, <1>2
<1>6. LastIs(M, cs + 1)
    BY <1>2 DEF LastIs, Entry
<1>7. \A k \in 1 .. Len(L) : L[k].id # cs + 1
    BY <1>3
<1> QED BY <1>2, <1>4, <1>5, <1>6, <1>7 DEF Inv, IsLog

THEOREM NullKeeps ==
    ASSUME NEW L, NEW cs \in Nat, NEW t \in Int, IsLog(L), Inv(L, cs)
    PROVE  LET M == Nulled(L, t) IN
           /\ Len(M) = Len(L)
           /\ \A k \in 1 .. Len(L) : M[k].id = L[k].id /\ M[k].tid \in {L[k].tid, 0}      \* only track ids change, only to NULL
           /\ \A k \in 1 .. Len(L) : M[k].tid # t \/ t = 0                                \* no entry names the removed track
           /\ Inv(M, cs)
<1> DEFINE M == Nulled(L, t)
<1>0. Len(L) \in Nat
    BY DEF IsLog
<1>1. /\ Len(M) = Len(L)
      /\ \A k \in 1 .. Len(L) : M[k] = IF L[k].tid = t THEN Entry(L[k].id, 0) ELSE L[k]
    BY <1>0 DEF Nulled
<1>2. \A k \in 1 .. Len(L) : M[k].id = L[k].id /\ M[k].tid \in {L[k].tid, 0}
    BY <1>1 DEF Entry
<1>3. \A k \in 1 .. Len(L) : M[k].tid # t \/ t = 0
    BY <1>1 DEF Entry
<1>4. StrictInc(M)
    BY <1>1, <1>2 DEF Inv, StrictInc
<1>5. Bounded(M, cs)
    BY <1>1, <1>2 DEF Inv, Bounded
<1>6. LastIs(M, cs)
  <2>1. CASE Len(L) = 0
      BY <2>1, <1>1 DEF LastIs
  <2>2. CASE Len(L) > 0
    <3>1. Len(L) \in 1 .. Len(L)
        BY <2>2, <1>0
    <3>2. M[Len(M)].id = L[Len(L)].id
        BY <3>1, <1>1, <1>2
    <3> QED BY <3>2, <2>2, <1>1 DEF Inv, LastIs
  <2> QED BY <2>1, <2>2, <1>0
<1> QED BY <1>1, <1>2, <1>3, <1>4, <1>5, <1>6 DEF Inv
=============================================================================
