--------------------------- MODULE TraceDecoders ---------------------------
(* C05: every record is one byte string fed to a decoder (or to zlib_uncompress) in the sanitizer     *)
(* flavour.  The call must have returned or thrown an exception derived from std::exception, and every  *)
(* recorded hand-off to zlib must satisfy the step relation of InflateLoop.tla: sizes within what was   *)
(* offered, regions inside the caller's buffers (checked by the shim with the sanitizer's allocator     *)
(* map), and no two consecutive calls without progress (which is how non-termination shows up as a       *)
(* finite, deterministic rejection).  A crash, sanitizer report or watchdog expiry never reaches TLC:    *)
(* the driver dies and the check reports the input.                                                      *)
EXTENDS InflateStep, Sequences, Json, IOUtils, TLC

VARIABLE l
Log == ndJsonDeserialize(IOEnv.TRACE)

RecOK(r) ==
    /\ r.out \in {"ok", "throw"}
    /\ (r.out = "throw" => r.std)
    /\ ~r.z.over                                                       \* the chunk loop was not cut off by the shim
    /\ \A k \in DOMAIN r.z.log : CallOK(r.z.log[k])
    /\ \A k \in 1 .. Len(r.z.log) - 1 : ~Stalled(r.z.log[k], r.z.log[k + 1])

TInit == l = 1
TNext == l <= Len(Log) /\ RecOK(Log[l]) /\ l' = l + 1
TSpec == TInit /\ [][TNext]_l
Accepted == TLCGet("stats").diameter - 1 = Len(Log)
=============================================================================
