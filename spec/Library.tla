------------------------------- MODULE Library -------------------------------
(***************************************************************************)
(* Abstract API layer of libdjinterop: what a user of database / crate /   *)
(* track handles may rely on, one action per public mutating call, with an *)
(* explicit outcome ("ok" / "throw").  Properties C07 (one well-formed     *)
(* forest), C08 (membership), C09 (sibling / entry order, 2.x), C10        *)
(* (reopen), C14 (failed call has no effect), C16 (observers do not        *)
(* change state) are invariants / action properties of this module.        *)
(*                                                                         *)
(* Crate and track ids are positive integers, Root = 0 is the pseudo       *)
(* parent of root crates.  The module is deliberately loose where the      *)
(* properties are silent; each looseness is a constant so that generation  *)
(* instances can resolve it the way the code does today while trace        *)
(* validation keeps it open ("any").                                       *)
(***************************************************************************)
EXTENDS Integers, Sequences, FiniteSets, TLC

CONSTANTS
    ValidNames,     \* crate names the library must accept
    InvalidNames,   \* names it must reject ("" and anything containing ';')
    DupPolicy,      \* sibling with the same name: "reject" | "accept" | "any"
    PosPolicy       \* un-positioned insert / move lands at: "tail" | "any" position

VARIABLES
    fam,     \* "v1" | "v2" : schema family of the library (fixed after Init / reset)
    live,    \* ids of live crates
    dead,    \* ids of removed crates
    par,     \* live -> live \cup {Root}
    nm,      \* live -> name
    kids,    \* live \cup {Root} -> Seq(live) : sibling order (observable in 2.x only)
    tlive,   \* ids of live tracks
    tdead,   \* ids of removed tracks
    mem,     \* live -> Seq(tlive) : crate contents in insertion order, no duplicates
    last,    \* ghost: the call just made, its arguments and outcome
    kf       \* ghost: name of the known finding the last step matched ("" = none)

Root == 0
Names == ValidNames \cup InvalidNames
state == <<fam, live, dead, par, nm, kids, tlive, tdead, mem>>
vars == <<fam, live, dead, par, nm, kids, tlive, tdead, mem, last, kf>>

-----------------------------------------------------------------------------
(* Sequence helpers *)
ToSet(s) == {s[i] : i \in DOMAIN s}
NoDup(s) == \A i, j \in DOMAIN s : i # j => s[i] # s[j]
Without(s, x) == SelectSeq(s, LAMBDA y : y # x)
InsertAt(s, i, x) == SubSeq(s, 1, i) \o <<x>> \o SubSeq(s, i + 1, Len(s))   \* i \in 0..Len(s)
IndexOf(s, x) == CHOOSE i \in DOMAIN s : s[i] = x
Restrict(f, S) == [x \in S |-> f[x]]
\* (the 1.x family has no observable sibling order, so nothing is gained by exploring positions)
Positions(s) == IF PosPolicy = "tail" \/ fam = "v1" THEN {Len(s)} ELSE 0 .. Len(s)
\* x before y in s (both members)
Before(s, x, y) == IndexOf(s, x) < IndexOf(s, y)

(* Forest helpers, parameterised so that they can be applied to primed values *)
ChildrenIn(L, P, c) == {d \in L : P[d] = c}
RECURSIVE AncsIn(_, _, _)
AncsIn(P, c, fuel) == IF fuel = 0 \/ P[c] = Root THEN {} ELSE {P[c]} \cup AncsIn(P, P[c], fuel - 1)
AncestorsIn(L, P, c) == AncsIn(P, c, Cardinality(L))
DescIn(L, P, c) == {d \in L : c \in AncestorsIn(L, P, d)}

Children(c) == ChildrenIn(live, par, c)
Ancestors(c) == AncestorsIn(live, par, c)
Desc(c) == DescIn(live, par, c)

-----------------------------------------------------------------------------
(* What the public queries must return in a state (the observation function) *)
QAll == live
QRoots == kids[Root]
QChildren(c) == kids[c]
QDescendants(c) == Desc(c)
QParent(c) == par[c]
QByName(n) == {c \in live : nm[c] = n}
QRootByName(n) == {c \in live : par[c] = Root /\ nm[c] = n}
QSubByName(c, n) == {d \in live : par[d] = c /\ nm[d] = n}
QTracks(c) == mem[c]
QContaining(t) == {c \in live : t \in ToSet(mem[c])}

-----------------------------------------------------------------------------
Call(op, c, p, n, t, a) == [op |-> op, c |-> c, p |-> p, n |-> n, t |-> t, a |-> a]
Done(call, out, new) == last' = [op |-> call.op, c |-> call.c, p |-> call.p, n |-> call.n,
                                  t |-> call.t, a |-> call.a, out |-> out, new |-> new]

\* A rejected call: reported by throwing, no effect whatsoever.
Reject(call) == /\ Done(call, "throw", 0)
                /\ kf' = ""
                /\ UNCHANGED state

DupUnder(p, n, except) == \E d \in live : d # except /\ par[d] = p /\ nm[d] = n
MayRejectDup == DupPolicy \in {"reject", "any"}
MayAcceptDup == DupPolicy \in {"accept", "any"}

\* Fresh id: never handed out before.  The 1.x family hands the highest id out again after its
\* holder was removed (rowid alias / MAX(id)+1): known finding "v1-id-reuse", see KnownFindings.
FreshId(id) == id > 0 /\ id \notin live
IdReuse(id) == id \in dead

AddCrate(call, id, n, p, pos) ==
    /\ FreshId(id)
    /\ live' = live \cup {id}
    /\ dead' = dead \ {id}
    /\ par' = [x \in live \cup {id} |-> IF x = id THEN p ELSE par[x]]
    /\ nm' = [x \in live \cup {id} |-> IF x = id THEN n ELSE nm[x]]
    /\ kids' = [x \in live \cup {id, Root} |->
                  IF x = id THEN <<>> ELSE IF x = p THEN InsertAt(kids[p], pos, id) ELSE kids[x]]
    /\ mem' = [x \in live \cup {id} |-> IF x = id THEN <<>> ELSE mem[x]]
    /\ kf' = IF IdReuse(id) THEN "v1-id-reuse" ELSE ""
    /\ (IdReuse(id) => fam = "v1")
    /\ Done(call, "ok", id)
    /\ UNCHANGED <<fam, tlive, tdead>>

CreateUnder(call, p, n, id) ==
    \/ /\ n \in InvalidNames
       /\ Reject(call)
    \/ /\ n \in ValidNames /\ DupUnder(p, n, -1) /\ MayRejectDup
       /\ Reject(call)
    \/ /\ n \in ValidNames /\ (~DupUnder(p, n, -1) \/ MayAcceptDup)
       /\ \E pos \in Positions(kids[p]) : AddCrate(call, id, n, p, pos)

CreateRoot(n, id) == CreateUnder(Call("create_root", 0, 0, n, 0, 0), Root, n, id)

CreateSub(c, n, id) == c \in live /\ CreateUnder(Call("create_sub", c, 0, n, 0, 0), c, n, id)

\* create_*_after: in 2.x the new crate appears immediately after `a`, which must be a sibling-to-be;
\* the 1.x family has no sibling order and ignores `a`.
CreateAfterUnder(call, p, n, a, id) ==
    IF fam = "v1" THEN CreateUnder(call, p, n, id)
    ELSE
    \/ /\ (n \in InvalidNames \/ par[a] # p)
       /\ Reject(call)
    \/ /\ n \in ValidNames /\ DupUnder(p, n, -1) /\ MayRejectDup
       /\ Reject(call)
    \/ /\ n \in ValidNames /\ par[a] = p /\ (~DupUnder(p, n, -1) \/ MayAcceptDup)
       /\ AddCrate(call, id, n, p, IndexOf(kids[p], a))

CreateRootAfter(n, a, id) ==
    a \in live /\ CreateAfterUnder(Call("create_root_after", 0, 0, n, 0, a), Root, n, a, id)

CreateSubAfter(c, n, a, id) ==
    c \in live /\ a \in live /\ CreateAfterUnder(Call("create_sub_after", c, 0, n, 0, a), c, n, a, id)

SetName(c, n) ==
    LET call == Call("set_name", c, 0, n, 0, 0) IN
    /\ c \in live
    /\ \/ /\ n \in InvalidNames
          /\ Reject(call)
       \/ /\ n \in ValidNames /\ DupUnder(par[c], n, c) /\ MayRejectDup
          /\ Reject(call)
       \/ /\ n \in ValidNames /\ (~DupUnder(par[c], n, c) \/ MayAcceptDup)
          /\ nm' = [nm EXCEPT ![c] = n]
          /\ kf' = ""
          /\ Done(call, "ok", 0)
          /\ UNCHANGED <<fam, live, dead, par, kids, tlive, tdead, mem>>

\* p = Root means "no parent".  Re-parenting under oneself or one's own descendant is rejected.
SetParent(c, p) ==
    LET call == Call("set_parent", c, p, "", 0, 0) IN
    /\ c \in live /\ p \in live \cup {Root}
    /\ \/ /\ (p = c \/ p \in Desc(c))
          /\ Reject(call)
       \/ /\ p # c /\ p \notin Desc(c) /\ p # par[c] /\ DupUnder(p, nm[c], c) /\ MayRejectDup
          /\ Reject(call)
       \/ /\ p = par[c]
          /\ Done(call, "ok", 0) /\ kf' = ""
          /\ UNCHANGED state
       \/ /\ p # c /\ p \notin Desc(c) /\ p # par[c]
          /\ (~DupUnder(p, nm[c], c) \/ MayAcceptDup)
          /\ \E pos \in Positions(kids[p]) :
                kids' = [kids EXCEPT ![par[c]] = Without(@, c), ![p] = InsertAt(@, pos, c)]
          /\ par' = [par EXCEPT ![c] = p]
          /\ kf' = ""
          /\ Done(call, "ok", 0)
          /\ UNCHANGED <<fam, live, dead, nm, tlive, tdead, mem>>

\* Removing a crate removes its whole sub-tree (the only way to leave a well-formed forest
\* without changing anybody's parent) together with the memberships of the removed crates.
RemoveCrate(c) ==
    LET call == Call("remove_crate", c, 0, "", 0, 0)
        G == {c} \cup Desc(c)
        L == live \ G
    IN
    /\ c \in live
    /\ live' = L
    /\ dead' = dead \cup G
    /\ par' = Restrict(par, L)
    /\ nm' = Restrict(nm, L)
    /\ kids' = [x \in L \cup {Root} |-> IF x = par[c] THEN Without(kids[x], c) ELSE kids[x]]
    /\ mem' = Restrict(mem, L)
    /\ kf' = ""
    /\ Done(call, "ok", 0)
    /\ UNCHANGED <<fam, tlive, tdead>>

\* (1.x schemas before 1.17.0 hand the highest track id out again: known finding "v1-track-id-reuse")
CreateTrack(id) ==
    /\ id > 0 /\ id \notin tlive
    /\ (id \in tdead => fam = "v1")
    /\ tlive' = tlive \cup {id}
    /\ tdead' = tdead \ {id}
    /\ kf' = IF id \in tdead THEN "v1-track-id-reuse" ELSE ""
    /\ Done(Call("create_track", 0, 0, "", 0, 0), "ok", id)
    /\ UNCHANGED <<fam, live, dead, par, nm, kids, mem>>

RemoveTrack(t) ==
    /\ t \in tlive
    /\ tlive' = tlive \ {t}
    /\ tdead' = tdead \cup {t}
    /\ mem' = [c \in live |-> Without(mem[c], t)]
    /\ kf' = ""
    /\ Done(Call("remove_track", 0, 0, "", t, 0), "ok", 0)
    /\ UNCHANGED <<fam, live, dead, par, nm, kids>>

\* Adding a member twice is a no-op (it keeps its place).
AddTrack(c, t) ==
    /\ c \in live /\ t \in tlive
    /\ mem' = IF t \in ToSet(mem[c]) THEN mem ELSE [mem EXCEPT ![c] = Append(@, t)]
    /\ kf' = ""
    /\ Done(Call("add_track", c, 0, "", t, 0), "ok", 0)
    /\ UNCHANGED <<fam, live, dead, par, nm, kids, tlive, tdead>>

\* The bulk entry point crate::add_tracks(first, last): the members are added in the order given; an id that occurs twice in the
\* range, or that the crate already holds, is added once and keeps its first place.  (Not a disjunct of Next: the model graph is
\* generated with single adds; replayed scripts reach this entry point by folding consecutive adds, see tools/libcheck.bulkify.)
RECURSIVE AddAll(_, _)
AddAll(m, ts) == IF ts = <<>> THEN m ELSE AddAll(IF Head(ts) \in ToSet(m) THEN m ELSE Append(m, Head(ts)), Tail(ts))
AddTracks(c, ts) ==
    /\ c \in live /\ \A k \in DOMAIN ts : ts[k] \in tlive
    /\ mem' = [mem EXCEPT ![c] = AddAll(@, ts)]
    /\ kf' = ""
    /\ Done(Call("add_tracks", c, 0, "", 0, 0), "ok", 0)
    /\ UNCHANGED <<fam, live, dead, par, nm, kids, tlive, tdead>>

RemoveTrackFrom(c, t) ==
    /\ c \in live /\ t \in tlive
    /\ mem' = [mem EXCEPT ![c] = Without(@, t)]
    /\ kf' = ""
    /\ Done(Call("remove_track_from", c, 0, "", t, 0), "ok", 0)
    /\ UNCHANGED <<fam, live, dead, par, nm, kids, tlive, tdead>>

ClearTracks(c) ==
    /\ c \in live
    /\ mem' = [mem EXCEPT ![c] = <<>>]
    /\ kf' = ""
    /\ Done(Call("clear_tracks", c, 0, "", 0, 0), "ok", 0)
    /\ UNCHANGED <<fam, live, dead, par, nm, kids, tlive, tdead>>

\* Any public mutating call that fails because an SQL statement failed: reported by throwing,
\* nothing observable changes (C14).  `call` is whatever was attempted.
Failed(call) == Reject(call)

\* Observing, closing and re-loading change nothing (C16, C10).
Observe == /\ Done(Call("observe", 0, 0, "", 0, 0), "ok", 0) /\ kf' = "" /\ UNCHANGED state
Reopen == /\ Done(Call("reopen", 0, 0, "", 0, 0), "ok", 0) /\ kf' = "" /\ UNCHANGED state

-----------------------------------------------------------------------------
InitWith(f) ==
    /\ fam = f
    /\ live = {} /\ dead = {}
    /\ par = <<>> /\ nm = <<>>
    /\ kids = [x \in {Root} |-> <<>>]
    /\ tlive = {} /\ tdead = {}
    /\ mem = <<>>
    /\ last = [op |-> "init", c |-> 0, p |-> 0, n |-> "", t |-> 0, a |-> 0, out |-> "ok", new |-> 0]
    /\ kf = ""

-----------------------------------------------------------------------------
(* Invariants (C07, C08, C09) *)
TypeOK ==
    /\ fam \in {"v1", "v2"}
    /\ live \cap dead = {} /\ tlive \cap tdead = {}
    /\ DOMAIN par = live /\ DOMAIN nm = live /\ DOMAIN mem = live
    /\ DOMAIN kids = live \cup {Root}
    /\ \A c \in live : nm[c] \in ValidNames

ForestInv ==
    /\ \A c \in live : par[c] \in live \cup {Root}
    /\ \A c \in live : c \notin Ancestors(c)                           \* acyclic
    /\ \A p \in live \cup {Root} : /\ NoDup(kids[p])
                                    /\ ToSet(kids[p]) = Children(p)    \* every child exactly once

\* The structural queries describe one and the same forest.
QueriesAgree ==
    /\ \A c \in live : ToSet(QChildren(c)) = {d \in QAll : QParent(d) = c}
    /\ \A c \in live : QDescendants(c) = UNION {{d} \cup QDescendants(d) : d \in ToSet(QChildren(c))}
    /\ ToSet(QRoots) = {c \in QAll : QParent(c) = Root}
    /\ \A n \in Names : QRootByName(n) = {c \in ToSet(QRoots) : nm[c] = n}
    /\ \A c \in live, n \in Names : QSubByName(c, n) = {d \in ToSet(QChildren(c)) : nm[d] = n}

MemInv ==
    /\ \A c \in live : NoDup(mem[c]) /\ ToSet(mem[c]) \subseteq tlive
    /\ \A t \in tlive, c \in live : (c \in QContaining(t)) <=> (t \in ToSet(QTracks(c)))

(* Action properties.  NewLib: the step starts a fresh library (trace validation only). *)
NewLib == last'.op = "reset"
NoResurrection == [][NewLib \/ dead \subseteq dead' \/ kf' # ""]_vars
TracksNoResurrection == [][NewLib \/ tdead \subseteq tdead' \/ kf' # ""]_vars
RejectNoEffect == [][NewLib \/ (last'.out = "throw" => UNCHANGED state)]_vars
\* No call loses, duplicates or reorders the siblings / entries it does not address.
OrderStable ==
    [][NewLib \/
       /\ \A p \in (live \cap live') \cup {Root} :
            \A x, y \in ToSet(kids[p]) \cap ToSet(kids'[p]) :
                x # y => (Before(kids[p], x, y) <=> Before(kids'[p], x, y))
       /\ \A c \in live \cap live' :
            \A x, y \in ToSet(mem[c]) \cap ToSet(mem'[c]) :
                x # y => (Before(mem[c], x, y) <=> Before(mem'[c], x, y))]_vars
\* An operation on one crate / track never changes the membership of any other pair.
MemFrame ==
    [][NewLib \/ \A c \in live \cap live', t \in tlive \cap tlive' :
          (t \in ToSet(mem[c])) # (t \in ToSet(mem'[c])) =>
              (last'.c = c /\ last'.op \in {"clear_tracks", "add_track", "add_tracks", "remove_track_from"}
                 /\ (last'.op \in {"clear_tracks", "add_tracks"} \/ last'.t = t))]_vars
=============================================================================
