SPECIFICATION TSpec
CONSTANTS
  ValidNames = {"a", "b", "c", "d", "e", "f", "g", "h", "Ä ö", "a b"}
  InvalidNames = {"", "x;y", ";", "a;"}
  DupPolicy = "any"
  PosPolicy = "any"
INVARIANTS TypeOK ForestInv QueriesAgree MemInv
PROPERTIES NoResurrection TracksNoResurrection RejectNoEffect OrderStable MemFrame
ACTION_CONSTRAINT KfNote
POSTCONDITION Accepted
CHECK_DEADLOCK FALSE
