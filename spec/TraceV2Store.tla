--------------------------- MODULE TraceV2Store ---------------------------
(***************************************************************************)
(* Binding of the storage-layer specification to the code (2.x family):     *)
(* the driver logs, after every public call, the rows of Playlist,          *)
(* PlaylistEntity, Track and sqlite_sequence as read by an independent      *)
(* reader (plain SQLite C API).  This trace specification runs the statement *)
(* program V2Rows!Prog of the logged call on the modelled rows and requires  *)
(* the real rows to be EXACTLY the predicted ones - ids, titles, parents,    *)
(* nextListId / nextEntityId links and AUTOINCREMENT counters - and the      *)
(* outcome (ok / throw) to be the predicted one.  A call attempt in which an *)
(* injected statement failure fired must leave exactly the rows it found.    *)
(***************************************************************************)
EXTENDS V2Rows, Json, IOUtils

VARIABLES l, st
tvars == <<l, st>>
Log == ndJsonDeserialize(IOEnv.TRACE)

Has(r, f) == f \in DOMAIN r
ToSet(s) == {s[k] : k \in DOMAIN s}
Faulted(r) == Has(r, "fault") /\ r.fault.fired

Row(rows, id) == CHOOSE x \in ToSet(rows) : x[1] = id
Ids(rows) == {x[1] : x \in ToSet(rows)}
SeqOf(raw, name) == IF \E x \in ToSet(raw.seq) : x[1] = name THEN (CHOOSE x \in ToSet(raw.seq) : x[1] = name)[2] ELSE 0
\* (Playlist: id, title, parentListId, nextListId, ..; PlaylistEntity: id, listId, trackId, nextEntityId, ..)
RawStore(raw) ==
    [P |-> [id \in Ids(raw.pl) |-> PRow(Row(raw.pl, id)[2], Row(raw.pl, id)[3], Row(raw.pl, id)[4])],
     E |-> [id \in Ids(raw.pe) |-> ERow(Row(raw.pe, id)[2], Row(raw.pe, id)[3], Row(raw.pe, id)[4])],
     T |-> Ids(raw.tk),
     sp |-> SeqOf(raw, "Playlist"), se |-> SeqOf(raw, "PlaylistEntity"), stt |-> SeqOf(raw, "Track")]
RowsAre(r, S) == Len(r.raw.pl) = Cardinality(Ids(r.raw.pl)) /\ Len(r.raw.pe) = Cardinality(Ids(r.raw.pe)) /\ RawStore(r.raw) = S

F(r, f, d) == IF Has(r, f) THEN r[f] ELSE d
CallOfRec(r) == Call(r.op, F(r, "c", 0), F(r, "p", 0), F(r, "n", ""), F(r, "t", 0), F(r, "after", 0))

TCall ==
    /\ l <= Len(Log)
    /\ LET r == Log[l] IN
       /\ r.e = "call" /\ ~Has(r, "probe") /\ Has(r, "raw")
       /\ IF Faulted(r)
          THEN /\ r.out = "throw"
               /\ RowsAre(r, st)                                   \* C14 at row level
               /\ st' = st
          ELSE LET call == CallOfRec(r)
                   res == RunAll(Prog(call, st), st, <<>>)
               IN /\ (r.out = "ok") <=> res.ok
                  /\ RowsAre(r, res.s)
                  /\ (res.ok /\ NewId(call, res.s) # 0 => r.new = NewId(call, res.s))
                  /\ st' = res.s
    /\ l' = l + 1

\* calls outside the modelled domain (C15 probes): only re-synchronise
TProbe ==
    /\ l <= Len(Log)
    /\ LET r == Log[l] IN
       /\ r.e = "call" /\ Has(r, "probe")
       /\ st' = IF Has(r, "raw") THEN RawStore(r.raw) ELSE st
    /\ l' = l + 1

TReopen ==
    /\ l <= Len(Log)
    /\ LET r == Log[l] IN
       /\ r.e = "reopen"
       /\ (Has(r, "raw") => RowsAre(r, st))
    /\ l' = l + 1 /\ st' = st

TSkip == l <= Len(Log) /\ Log[l].e = "skip" /\ l' = l + 1 /\ st' = st

TReset ==
    /\ l <= Len(Log)
    /\ LET r == Log[l] IN
       /\ r.e = "reset" /\ r.out = "ok"
       /\ (Has(r, "raw") => RowsAre(r, EmptyStore))
    /\ st' = EmptyStore
    /\ l' = l + 1

TInit == l = 1 /\ st = EmptyStore
TNext == TCall \/ TProbe \/ TReopen \/ TSkip \/ TReset
TSpec == TInit /\ [][TNext]_tvars
Accepted == TLCGet("stats").diameter - 1 = Len(Log)
=============================================================================
