---- MODULE MCContention_TTrace_1790669379 ----
EXTENDS Sequences, TLCExt, MCContention, Toolbox, Naturals, TLC

_expression ==
    LET MCContention_TEExpression == INSTANCE MCContention_TEExpression
    IN MCContention_TEExpression!expression
----

_trace ==
    LET MCContention_TETrace == INSTANCE MCContention_TETrace
    IN MCContention_TETrace!trace
----

_inv ==
    ~(
        TLCGet("level") = Len(_TETrace)
        /\
        phase = ("done")
        /\
        cs = ([ll |-> 0, txn |-> TRUE, dirty |-> FALSE])
        /\
        pc = (2)
        /\
        fl = (4)
        /\
        pi = (1)
        /\
        units = (0)
        /\
        failed = (TRUE)
        /\
        lastrc = ("busy")
    )
----

_init ==
    /\ phase = _TETrace[1].phase
    /\ lastrc = _TETrace[1].lastrc
    /\ units = _TETrace[1].units
    /\ cs = _TETrace[1].cs
    /\ pc = _TETrace[1].pc
    /\ pi = _TETrace[1].pi
    /\ fl = _TETrace[1].fl
    /\ failed = _TETrace[1].failed
----

_next ==
    /\ \E i,j \in DOMAIN _TETrace:
        /\ \/ /\ j = i + 1
              /\ i = TLCGet("level")
        /\ phase  = _TETrace[i].phase
        /\ phase' = _TETrace[j].phase
        /\ lastrc  = _TETrace[i].lastrc
        /\ lastrc' = _TETrace[j].lastrc
        /\ units  = _TETrace[i].units
        /\ units' = _TETrace[j].units
        /\ cs  = _TETrace[i].cs
        /\ cs' = _TETrace[j].cs
        /\ pc  = _TETrace[i].pc
        /\ pc' = _TETrace[j].pc
        /\ pi  = _TETrace[i].pi
        /\ pi' = _TETrace[j].pi
        /\ fl  = _TETrace[i].fl
        /\ fl' = _TETrace[j].fl
        /\ failed  = _TETrace[i].failed
        /\ failed' = _TETrace[j].failed

\* Uncomment the ASSUME below to write the states of the error trace
\* to the given file in Json format. Note that you can pass any tuple
\* to `JsonSerialize`. For example, a sub-sequence of _TETrace.
    \* ASSUME
    \*     LET J == INSTANCE Json
    \*         IN J!JsonSerialize("MCContention_TTrace_1790669379.json", _TETrace)

=============================================================================

 Note that you can extract this module `MCContention_TEExpression`
  to a dedicated file to reuse `expression` (the module in the 
  dedicated `MCContention_TEExpression.tla` file takes precedence 
  over the module `MCContention_TEExpression` below).

---- MODULE MCContention_TEExpression ----
EXTENDS Sequences, TLCExt, MCContention, Toolbox, Naturals, TLC

expression == 
    [
        \* To hide variables of the `MCContention` spec from the error trace,
        \* remove the variables below.  The trace will be written in the order
        \* of the fields of this record.
        phase |-> phase
        ,lastrc |-> lastrc
        ,units |-> units
        ,cs |-> cs
        ,pc |-> pc
        ,pi |-> pi
        ,fl |-> fl
        ,failed |-> failed
        
        \* Put additional constant-, state-, and action-level expressions here:
        \* ,_stateNumber |-> _TEPosition
        \* ,_phaseUnchanged |-> phase = phase'
        
        \* Format the `phase` variable as Json value.
        \* ,_phaseJson |->
        \*     LET J == INSTANCE Json
        \*     IN J!ToJson(phase)
        
        \* Lastly, you may build expressions over arbitrary sets of states by
        \* leveraging the _TETrace operator.  For example, this is how to
        \* count the number of times a spec variable changed up to the current
        \* state in the trace.
        \* ,_phaseModCount |->
        \*     LET F[s \in DOMAIN _TETrace] ==
        \*         IF s = 1 THEN 0
        \*         ELSE IF _TETrace[s].phase # _TETrace[s-1].phase
        \*             THEN 1 + F[s-1] ELSE F[s-1]
        \*     IN F[_TEPosition - 1]
    ]

=============================================================================



Parsing and semantic processing can take forever if the trace below is long.
 In this case, it is advised to uncomment the module below to deserialize the
 trace from a generated binary file.

\*
\*---- MODULE MCContention_TETrace ----
\*EXTENDS IOUtils, MCContention, TLC
\*
\*trace == IODeserialize("MCContention_TTrace_1790669379.bin", TRUE)
\*
\*=============================================================================
\*

---- MODULE MCContention_TETrace ----
EXTENDS MCContention, TLC

trace == 
    <<
    ([phase |-> "run",cs |-> [ll |-> 0, txn |-> FALSE, dirty |-> FALSE],pc |-> 1,fl |-> 0,pi |-> 1,units |-> 0,failed |-> FALSE,lastrc |-> "ok"]),
    ([phase |-> "run",cs |-> [ll |-> 0, txn |-> TRUE, dirty |-> FALSE],pc |-> 2,fl |-> 0,pi |-> 1,units |-> 0,failed |-> FALSE,lastrc |-> "ok"]),
    ([phase |-> "run",cs |-> [ll |-> 0, txn |-> TRUE, dirty |-> FALSE],pc |-> 2,fl |-> 4,pi |-> 1,units |-> 0,failed |-> FALSE,lastrc |-> "ok"]),
    ([phase |-> "done",cs |-> [ll |-> 0, txn |-> TRUE, dirty |-> FALSE],pc |-> 2,fl |-> 4,pi |-> 1,units |-> 0,failed |-> TRUE,lastrc |-> "busy"])
    >>
----


=============================================================================

---- CONFIG MCContention_TTrace_1790669379 ----
CONSTANTS
    Progs <- MCProgs
    Guard = "leak"

INVARIANT
    _inv

CHECK_DEADLOCK
    \* CHECK_DEADLOCK off because of PROPERTY or INVARIANT above.
    FALSE

INIT
    _init

NEXT
    _next

CONSTANT
    _TETrace <- _trace

ALIAS
    _expression
=============================================================================
\* Generated on Tue Sep 29 08:09:42 UTC 2026