------------------------------ MODULE TraceTxn ------------------------------
(***************************************************************************)
(* Transaction discipline of a public call, judged on the statement log    *)
(* the link-level shim records for it (every prepared statement with its    *)
(* class begin / commit / rollback / read / write, its step result and the  *)
(* number of rows it changed, triggers included).                           *)
(*                                                                         *)
(* This is the design rule behind C14 ("a failed mutating call leaves no    *)
(* partial update") in the form the storage-layer model uses it             *)
(* (V2Store: a call is a program of statements; an open transaction is       *)
(* rolled back when a statement fails; a statement is atomic by itself):     *)
(*                                                                         *)
(*   the row-changing statements of one call form at most ONE atomic unit    *)
(*   - a single statement, or one BEGIN .. COMMIT bracket - and no           *)
(*   transaction is begun inside another or left open at the end.            *)
(*                                                                         *)
(* A call that changes rows in two units can be cut between them by a        *)
(* failure, whatever the sweep of the run at hand happened to hit.           *)
(***************************************************************************)
EXTENDS Integers, Sequences, FiniteSets, Json, IOUtils, TLC

VARIABLES l, fam
Log == ndJsonDeserialize(IOEnv.TRACE)
Has(r, f) == f \in DOMAIN r

Executed(s) == ~s.f /\ s.rc \in {100, 101}            \* SQLITE_ROW / SQLITE_DONE
Start == [intxn |-> FALSE, units |-> 0, txw |-> 0, nested |-> FALSE]
StepStmt(a, s) ==
    CASE s.c = "begin" /\ Executed(s) -> [a EXCEPT !.nested = a.nested \/ a.intxn, !.intxn = TRUE, !.txw = 0]
      [] s.c = "commit" /\ Executed(s) -> [a EXCEPT !.intxn = FALSE, !.units = a.units + (IF a.txw > 0 THEN 1 ELSE 0), !.txw = 0]
      [] s.c = "rollback" -> [a EXCEPT !.intxn = FALSE, !.txw = 0]
      [] s.c = "write" /\ Executed(s) /\ s.chg > 0 ->
            IF a.intxn THEN [a EXCEPT !.txw = a.txw + 1] ELSE [a EXCEPT !.units = a.units + 1]
      [] OTHER -> a
RECURSIVE Fold(_, _, _)
Fold(ss, i, a) == IF i > Len(ss) THEN a ELSE Fold(ss, i + 1, StepStmt(a, ss[i]))

Discipline(ss) ==
    LET a == Fold(ss, 1, Start) IN
    /\ ~a.nested             \* no BEGIN inside an open transaction
    /\ ~a.intxn              \* nothing left open when the call returns or throws
    /\ a.units <= 1          \* all row changes of the call are one atomic unit

\* Known finding v2-setter-not-atomic (see known_findings.jsonl): four field setters of the 2.x track implementation
\* issue two UPDATE statements outside a transaction.
KnownTwoUnits(r) ==
    /\ fam = "v2" /\ Has(r, "f") /\ r.f \in {"bpm", "key", "sample_count", "sample_rate"}
    /\ LET a == Fold(r.stmts, 1, Start) IN ~a.nested /\ ~a.intxn /\ a.units = 2
    /\ PrintT(<<"KF", l, "v2-setter-not-atomic">>)

TCall ==
    /\ l <= Len(Log)
    /\ LET r == Log[l] IN
       \/ r.e \notin {"call", "reset"} /\ fam' = fam
       \/ r.e = "reset" /\ fam' = (IF Has(r, "family") THEN r.family ELSE "")
       \/ r.e = "call" /\ fam' = fam /\ (Has(r, "stmts") => (Discipline(r.stmts) \/ KnownTwoUnits(r)))
    /\ l' = l + 1

TInit == l = 1 /\ fam = ""
TSpec == TInit /\ [][TCall]_<<l, fam>>
Accepted == TLCGet("stats").diameter - 1 = Len(Log)
=============================================================================
