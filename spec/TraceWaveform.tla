--------------------------- MODULE TraceWaveform ---------------------------
(* Differential trace validation of calculate_{high_resolution,overview}_waveform_extents:      *)
(* every record {n, rf, hs, hq, os, ospan} logged by harness/puredriver (n = sample count, rf =  *)
(* floor(rate), hs/hq = high-resolution size and samples-per-entry, os = overview size, ospan =  *)
(* 1024 * overview samples-per-entry, exact = the two doubles were integer-valued as logged)     *)
(* must be what Waveform.tla defines, and must satisfy the C19 properties themselves.            *)
EXTENDS Waveform, Json, IOUtils, TLC, Sequences

VARIABLE l
Log == ndJsonDeserialize(IOEnv.TRACE)

RecOK(r) ==
    /\ r.exact
    /\ r.hs = HiSize(r.n, r.rf)
    /\ r.hq = HiSpe(r.n, r.rf)
    /\ r.os = OvSize(r.n, r.rf)
    /\ r.ospan = OvSpan(r.n, r.rf)
    \* the property itself, on the values the code returned
    /\ (r.n = 0 \/ r.rf < 210) <=> (r.hs = 0)
    /\ (r.hs = 0) <=> (r.os = 0)
    /\ r.hs # 0 => /\ r.hs * r.hq >= r.n /\ (r.hs - 1) * r.hq < r.n
                   /\ r.os = 1024 /\ r.ospan <= r.n /\ r.n < r.ospan + r.hq

TInit == l = 1
TNext == l <= Len(Log) /\ RecOK(Log[l]) /\ l' = l + 1
TSpec == TInit /\ [][TNext]_l
Accepted == TLCGet("stats").diameter - 1 = Len(Log)
=============================================================================
