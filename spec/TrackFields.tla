---------------------------- MODULE TrackFields ----------------------------
(***************************************************************************)
(* Track data: what must read back after writing a snapshot or calling a   *)
(* field setter (C01, C06).                                                *)
(*                                                                         *)
(* Values are the canonical tokens of harness/snapjson.hpp: optionals are  *)
(* sequences of length <= 1, strings are opaque tokens, doubles are 16 hex *)
(* digits of their bit pattern, wide integers decimal strings, time points *)
(* [s |-> seconds (string), f |-> nanosecond remainder].  The module is    *)
(* relational: FieldOK(f, in, out) says whether `out` is an acceptable     *)
(* read-back of `in`; NormF is the functional form where one exists (used  *)
(* by the model instance to check that normal forms are fixed points).     *)
(***************************************************************************)
EXTENDS Integers, Sequences, FiniteSets

Zero == "0000000000000000"
NegZero == "8000000000000000"
MinusOne == "bff0000000000000"
IsZeroD(h) == h \in {Zero, NegZero}

StrFields == {"album", "artist", "comment", "composer", "genre", "title", "publisher", "relative_path"}
ZeroAbsentFields == {"average_loudness", "main_cue", "sample_rate"}       \* 0 is the stored form of "absent"
PlainFields == {"bpm", "bitrate", "track_number", "year", "key", "beatgrid"}
AllFields == StrFields \cup ZeroAbsentFields \cup PlainFields
             \cup {"rating", "duration", "file_bytes", "sample_count", "last_played_at", "hot_cues", "loops", "waveform"}

Clamp(x, lo, hi) == IF x < lo THEN lo ELSE IF x > hi THEN hi ELSE x
TruncDiv(x, d) == IF x >= 0 THEN x \div d ELSE -((-x) \div d)          \* toward zero

\* a cue / loop slot: an offset of -1 is the stored form of an empty slot
SlotNorm(o, offField) == IF o = <<>> THEN <<>> ELSE IF o[1][offField] = MinusOne THEN <<>> ELSE o
\* (a list of more than eight entries may be refused; if it is stored, every entry must come back)
Pad8(s, offField) == [k \in 1 .. (IF Len(s) > 8 THEN Len(s) ELSE 8) |-> IF k <= Len(s) THEN SlotNorm(s[k], offField) ELSE <<>>]

\* Functional normal form.  fam = "v1" | "v2"; fb = the schema has a file-size column (>= 1.15.0, all 2.x)
NormF(fam, fb, f, v) ==
    CASE f \in StrFields \cup PlainFields -> v
      [] f \in ZeroAbsentFields -> IF v # <<>> /\ IsZeroD(v[1]) THEN <<>> ELSE v
      [] f = "rating" -> IF v = <<>> THEN <<>>
                         ELSE LET c == Clamp(v[1], 0, 100) IN IF c = 0 THEN <<>> ELSE <<c>>
      [] f = "duration" -> IF v = <<>> THEN <<>>
                           ELSE LET s == TruncDiv(v[1], 1000) IN IF s = 0 THEN <<>> ELSE <<s * 1000>>
      [] f = "file_bytes" -> IF fb THEN v ELSE <<>>
      [] f = "sample_count" -> IF v # <<>> /\ v[1] = "0" THEN <<>> ELSE v
      [] f = "last_played_at" -> IF v = <<>> THEN <<>> ELSE <<[s |-> v[1].s, f |-> 0]>>
      [] f = "hot_cues" -> Pad8(v, "off")
      [] f = "loops" -> Pad8(v, "start")
      [] OTHER -> v

\* Relational form: is `out` an acceptable read-back of `in`?
FieldOK(fam, fb, f, in, out) ==
    CASE f = "waveform" -> IF fam = "v1" THEN out = in
                           ELSE TRUE          \* 2.x stores a 1024-point overview only; judged by the fixed-point rule
      [] f = "rating" -> \/ out = NormF(fam, fb, f, in)
                         \/ in # <<>> /\ Clamp(in[1], 0, 100) = 0 /\ out = <<0>>     \* an explicit 0 may read back as 0
      [] f = "duration" -> \/ out = NormF(fam, fb, f, in)
                           \/ in # <<>> /\ TruncDiv(in[1], 1000) = 0 /\ out = <<0>>
      \* (numeric equality: -0.0 and +0.0 are the same number; SQLite stores both as 0)
      [] f = "bpm" -> out = in \/ (in # <<>> /\ out # <<>> /\ IsZeroD(in[1]) /\ IsZeroD(out[1]))
      \* a cue / loop whose offset is the reserved -1 may read back as an empty slot or exactly as given
      \* (2.x loops carry explicit "set" flags and keep it)
      [] f \in {"hot_cues", "loops"} ->
            LET n == NormF(fam, fb, f, in) IN
            /\ Len(out) = Len(n)
            /\ \A k \in 1 .. Len(n) : out[k] = n[k] \/ (k <= Len(in) /\ out[k] = in[k])
      [] OTHER -> out = NormF(fam, fb, f, in)

-----------------------------------------------------------------------------
(* Snapshots the library must reject rather than store in a form that reads back differently *)
SlotsBad(fam, s) == \/ (fam = "v2" /\ Len(s) > 8)              \* the 2.x blob conversion has exactly eight slots
                    \/ \E k \in DOMAIN s : s[k] # <<>> /\ (s[k][1].len > 255 \/ (fam = "v1" /\ s[k][1].len = 0))
GridBad(fam, g) == fam = "v1" /\ g.n # 0 /\ (g.n < 2 \/ g.n > 32768 \/ ~g.sorted)
MustReject(fam, in, hasExt) ==
    \/ in.relative_path = <<>>
    \/ fam = "v2" /\ ~hasExt
    \/ SlotsBad(fam, in.hot_cues) \/ SlotsBad(fam, in.loops)
    \/ GridBad(fam, in.beatgrid)

\* every field of the stored snapshot is an acceptable read-back of the written one
SnapOK(fam, fb, in, out) == \A f \in AllFields : FieldOK(fam, fb, f, in[f], out[f])
=============================================================================
