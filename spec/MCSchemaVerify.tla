--------------------------- MODULE MCSchemaVerify ---------------------------
(* Enumerates every single-element mutation of the inventory of one schema version (read from the   *)
(* JSON file named by the environment variable INVENTORY) and checks, on the model, that each one    *)
(* is a structural deviation; every state is emitted as a mutant to be materialised and verified.    *)
EXTENDS SchemaVerify, Json, IOUtils, TLC

ToSet(s) == {s[k] : k \in DOMAIN s}
Raw == JsonDeserialize(IOEnv.INVENTORY)
Inv0 == [tables |-> ToSet(Raw.tables), indices |-> ToSet(Raw.indices), views |-> ToSet(Raw.views)]

VARIABLE m

Init == m \in Mutations(Inv0)
Next == UNCHANGED m
Spec == Init /\ [][Next]_m

DeviatesInv == Deviates(m, Inv0)

EmitMutant == PrintT("MUT " \o ToJson(m))
=============================================================================
