------------------------------ MODULE RawStore ------------------------------
(***************************************************************************)
(* C11: the stored SQLite database, as read by an independent reader (plain *)
(* SQLite C API, no library accessor), is a well-formed Engine library and  *)
(* stores exactly the abstract state of Library.tla.                        *)
(*                                                                         *)
(* `raw` is the projection logged by the driver: rows as tuples in column   *)
(* order, NULL as -999999 / "<NULL>".  The abstract state is passed         *)
(* explicitly (L live crates, P parent, N names, K sibling order, TL live   *)
(* tracks, M membership, TI track info: path / base name / extension).      *)
(***************************************************************************)
EXTENDS Library

NULLI == -999999
NULLT == "<NULL>"

Uniq(rows, col) == Len(rows) = Cardinality({r[col] : r \in ToSet(rows)})
NoDupRows(rows) == Len(rows) = Cardinality(ToSet(rows))
Count(S) == Cardinality(S)

Sane(raw) == raw.integrity = "ok" /\ raw.fk = <<>> /\ raw.verify = "ok"

(* ---- schema 2.x: Playlist (id, title, parentListId, nextListId, isPersisted),
        PlaylistEntity (id, listId, trackId, nextEntityId, databaseUuid),
        Track (id, path, filename, fileType, originDatabaseUuid, originTrackId) ---- *)
RawV2OK(raw, L, P, N, K, TL, M, TI) ==
    LET pl == ToSet(raw.pl)
        pe == ToSet(raw.pe)
        tk == ToSet(raw.tk)
        Pl(i) == CHOOSE r \in pl : r[1] = i
        Ent(c, t) == CHOOSE r \in pe : r[2] = c /\ r[3] = t
    IN
    /\ Sane(raw)
    \* one row per live crate, holding its name and parent
    /\ Uniq(raw.pl, 1) /\ {r[1] : r \in pl} = L
    /\ \A r \in pl : r[2] = N[r[1]] /\ r[3] = P[r[1]]
    \* per parent one acyclic sibling chain covering all rows, tail = 0: it is exactly the listed order
    /\ \A p \in L \cup {Root} : \A i \in 1 .. Len(K[p]) :
          Pl(K[p][i])[4] = IF i = Len(K[p]) THEN 0 ELSE K[p][i + 1]
    \* membership rows: only live crates and live tracks of this database, one chain per crate in listed order
    /\ Uniq(raw.pe, 1)
    /\ \A r \in pe : r[2] \in L /\ r[3] \in TL /\ r[5] = raw.uuid
    /\ \A c \in L :
          /\ Count({r \in pe : r[2] = c}) = Len(M[c])
          /\ {r[3] : r \in {x \in pe : x[2] = c}} = ToSet(M[c])
          /\ \A i \in 1 .. Len(M[c]) :
                Ent(c, M[c][i])[4] = IF i = Len(M[c]) THEN 0 ELSE Ent(c, M[c][i + 1])[1]
    \* track rows: derived columns agree with the path, origin columns with the database
    /\ Uniq(raw.tk, 1) /\ {r[1] : r \in tk} = TL
    /\ \A r \in tk : /\ r[2] = TI[r[1]].path /\ r[3] = TI[r[1]].base /\ r[4] = TI[r[1]].ext
                     /\ r[5] = raw.uuid /\ r[6] = r[1]
    /\ \A r \in ToSet(raw.prep) : r[2] \in TL

(* ---- schema 1.x: Crate (id, title, path), CrateParentList (origin, parent), CrateHierarchy
        (crateId, crateIdChild), CrateTrackList (crateId, trackId), Track (id, path, filename) ---- *)
RECURSIVE PathIn(_, _, _)
PathIn(P, N, c) == IF P[c] = Root THEN N[c] \o ";" ELSE PathIn(P, N, P[c]) \o N[c] \o ";"

RawV1OK(raw, L, P, N, TL, M, TI) ==
    LET cr == ToSet(raw.crate)
        tk == {r \in ToSet(raw.tk) : r[2] # NULLT}        \* (a NULL placeholder row is kept from 1.17.0)
    IN
    /\ Sane(raw)
    /\ Uniq(raw.crate, 1) /\ {r[1] : r \in cr} = L
    \* the three redundant encodings describe the same forest
    /\ \A r \in cr : r[2] = N[r[1]] /\ r[3] = PathIn(P, N, r[1])
    /\ NoDupRows(raw.cpl)
    /\ ToSet(raw.cpl) = {<<c, IF P[c] = Root THEN c ELSE P[c]>> : c \in L}
    /\ NoDupRows(raw.ch)
    /\ ToSet(raw.ch) = UNION {{<<a, d>> : a \in AncestorsIn(L, P, d)} : d \in L}
    \* membership rows: exactly the abstract membership, no duplicates, no dangling references
    /\ NoDupRows(raw.ctl)
    /\ ToSet(raw.ctl) = UNION {{<<c, t>> : t \in ToSet(M[c])} : c \in L}
    /\ Len(raw.tk) - Cardinality(tk) <= 1
    /\ Cardinality(tk) = Cardinality({r[1] : r \in tk}) /\ {r[1] : r \in tk} = TL
    /\ \A r \in tk : r[2] = TI[r[1]].path /\ r[3] = TI[r[1]].base
    /\ \A r \in ToSet(raw.md) : r[2] = 13 => (r[1] \in TL /\ r[3] = TI[r[1]].ext)
    /\ \A r \in ToSet(raw.mdall) \cup ToSet(raw.mdi) \cup ToSet(raw.perf) : r[1] \in TL
    \* from 1.9.1 the four crate tables are views over List* tables: no membership row may outlive its list
    \* (the CrateTrackList view joins to List and would hide such a row until the list id is handed out again)
    /\ "list" \in DOMAIN raw =>
          \A x \in ToSet(raw.ltl) : \E r \in ToSet(raw.list) : r[1] = x[1] /\ r[2] = x[2]
    \* trackCount maintained by triggers (from 1.11.1)
    /\ "list" \in DOMAIN raw =>
          \A r \in ToSet(raw.list) :
              r[5] \in {-1, Count({x \in ToSet(raw.ltl) : x[1] = r[1] /\ x[2] = r[2]})}
=============================================================================
