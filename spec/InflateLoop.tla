---------------------------- MODULE InflateLoop ----------------------------
(***************************************************************************)
(* The chunk loop of zlib_uncompress (C05), against an abstract inflate.   *)
(*                                                                         *)
(* The compressed buffer holds N bytes after the 4-byte prefix.  The loop  *)
(* hands inflate at most Chunk bytes at a time (outer loop) and calls it   *)
(* again while the output chunk was filled completely (inner loop).  The   *)
(* abstract stream has S compressed bytes and P output bytes left; S may   *)
(* exceed what the buffer holds (a truncated stream) or be less (trailing  *)
(* garbage).  inflate answers OK / STREAM_END / BUF_ERROR / DATA_ERROR     *)
(* within its contract.                                                    *)
(*                                                                         *)
(* Safety: the region handed to inflate lies inside the buffer.            *)
(* Liveness: the loop terminates (returns or throws) for every behaviour   *)
(* of inflate - in particular on a truncated stream.                       *)
(***************************************************************************)
EXTENDS Integers, InflateStep

CONSTANTS N,        \* bytes in the buffer after the prefix
          Chunk,    \* input / output chunk size (16384 in the code)
          S0, P0    \* compressed / output bytes of the abstract stream

VARIABLES pc,       \* "outer" | "inner" | "check" | "done" | "throw"
          ptr,      \* bytes of the buffer already handed over
          availIn, availOut,
          s, p,     \* what is left of the stream
          ret,      \* last answer of inflate
          calls     \* number of inflate calls (ghost)
vars == <<pc, ptr, availIn, availOut, s, p, ret, calls>>

Min(a, b) == IF a < b THEN a ELSE b

Init == /\ pc = "outer" /\ ptr = 0 /\ availIn = 0 /\ availOut = Chunk
        /\ s = S0 /\ p = P0 /\ ret = "OK" /\ calls = 0

\* outer loop head: take the next chunk of input
Outer == /\ pc = "outer"
         /\ availIn' = Min(Chunk, N - ptr)
         /\ ptr' = ptr + Min(Chunk, N - ptr)
         /\ pc' = "inner"
         /\ UNCHANGED <<availOut, s, p, ret, calls>>

\* one call of inflate with a fresh output chunk, within zlib's contract
Inflate ==
    /\ pc = "inner"
    /\ calls' = calls + 1
    /\ \/ \E c \in 0 .. Min(availIn, s), q \in 0 .. Min(Chunk, p) :
             \* progress: input consumed, or output delivered that was already pending (end of the
             \* compressed data reached, or the previous call filled its output chunk)
             /\ (c > 0 \/ (q > 0 /\ (s = 0 \/ availOut = 0)))
             /\ s' = s - c /\ p' = p - q /\ availIn' = availIn - c /\ availOut' = Chunk - q
             /\ ret' = IF s - c = 0 /\ p - q = 0 THEN "STREAM_END" ELSE "OK"
             /\ pc' = IF q = Chunk THEN "inner" ELSE "check"       \* output chunk full: call again
       \/ /\ s = 0 /\ p = 0 /\ ret # "STREAM_END"                  \* (empty stream)
          /\ ret' = "STREAM_END" /\ availOut' = Chunk /\ pc' = "check" /\ UNCHANGED <<s, p, availIn>>
       \/ /\ Min(availIn, s) = 0 /\ ~(p > 0 /\ (s = 0 \/ availOut = 0)) /\ ~(s = 0 /\ p = 0)   \* no progress possible
          /\ ret' = "BUF_ERROR" /\ availOut' = Chunk /\ pc' = "check" /\ UNCHANGED <<s, p, availIn>>
       \/ /\ ret' = "DATA_ERROR" /\ pc' = "throw" /\ UNCHANGED <<s, p, availIn, availOut>>
    /\ UNCHANGED ptr

\* after the inner loop: truncated input => throw; stream end => done; else next chunk
Check == /\ pc = "check"
         /\ pc' = IF ret # "STREAM_END" /\ ptr = N THEN "throw"
                  ELSE IF ret = "STREAM_END" THEN "done" ELSE "outer"
         /\ UNCHANGED <<ptr, availIn, availOut, s, p, ret, calls>>

Next == Outer \/ Inflate \/ Check
Spec == Init /\ [][Next]_vars
FairSpec == Spec /\ WF_vars(Next)

\* the region handed to inflate lies inside the buffer
HandoffInBuffer == availIn >= 0 /\ ptr <= N /\ availIn <= ptr
Terminates == <>(pc \in {"done", "throw"})

=============================================================================
