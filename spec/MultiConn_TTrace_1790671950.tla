---- MODULE MultiConn_TTrace_1790671950 ----
EXTENDS Sequences, TLCExt, Toolbox, Naturals, TLC, MultiConn

_expression ==
    LET MultiConn_TEExpression == INSTANCE MultiConn_TEExpression
    IN MultiConn_TEExpression!expression
----

_trace ==
    LET MultiConn_TETrace == INSTANCE MultiConn_TETrace
    IN MultiConn_TETrace!trace
----

_inv ==
    ~(
        TLCGet("level") = Len(_TETrace)
        /\
        par = (<<0>>)
        /\
        last = ([a |-> 0, n |-> "a", c |-> 0, p |-> 0, t |-> 0, out |-> "ok", op |-> "create_root", new |-> 1])
        /\
        tdead = ({})
        /\
        dead = ({})
        /\
        via = (1)
        /\
        view = (<<<<"v2", {1}, {}, <<0>>, <<"a">>, (0 :> <<1>> @@ 1 :> <<>>), {}, {}, <<<<>>>>>>, <<"v2", {}, {}, <<>>, <<>>, (0 :> <<>>), {}, {}, <<>>>>>>)
        /\
        ncalls = (1)
        /\
        fam = ("v2")
        /\
        mem = (<<<<>>>>)
        /\
        tlive = ({})
        /\
        kf = ("")
        /\
        live = ({1})
        /\
        nm = (<<"a">>)
        /\
        kids = ((0 :> <<1>> @@ 1 :> <<>>))
    )
----

_init ==
    /\ fam = _TETrace[1].fam
    /\ par = _TETrace[1].par
    /\ nm = _TETrace[1].nm
    /\ view = _TETrace[1].view
    /\ tdead = _TETrace[1].tdead
    /\ ncalls = _TETrace[1].ncalls
    /\ tlive = _TETrace[1].tlive
    /\ last = _TETrace[1].last
    /\ kids = _TETrace[1].kids
    /\ via = _TETrace[1].via
    /\ dead = _TETrace[1].dead
    /\ live = _TETrace[1].live
    /\ kf = _TETrace[1].kf
    /\ mem = _TETrace[1].mem
----

_next ==
    /\ \E i,j \in DOMAIN _TETrace:
        /\ \/ /\ j = i + 1
              /\ i = TLCGet("level")
        /\ fam  = _TETrace[i].fam
        /\ fam' = _TETrace[j].fam
        /\ par  = _TETrace[i].par
        /\ par' = _TETrace[j].par
        /\ nm  = _TETrace[i].nm
        /\ nm' = _TETrace[j].nm
        /\ view  = _TETrace[i].view
        /\ view' = _TETrace[j].view
        /\ tdead  = _TETrace[i].tdead
        /\ tdead' = _TETrace[j].tdead
        /\ ncalls  = _TETrace[i].ncalls
        /\ ncalls' = _TETrace[j].ncalls
        /\ tlive  = _TETrace[i].tlive
        /\ tlive' = _TETrace[j].tlive
        /\ last  = _TETrace[i].last
        /\ last' = _TETrace[j].last
        /\ kids  = _TETrace[i].kids
        /\ kids' = _TETrace[j].kids
        /\ via  = _TETrace[i].via
        /\ via' = _TETrace[j].via
        /\ dead  = _TETrace[i].dead
        /\ dead' = _TETrace[j].dead
        /\ live  = _TETrace[i].live
        /\ live' = _TETrace[j].live
        /\ kf  = _TETrace[i].kf
        /\ kf' = _TETrace[j].kf
        /\ mem  = _TETrace[i].mem
        /\ mem' = _TETrace[j].mem

\* Uncomment the ASSUME below to write the states of the error trace
\* to the given file in Json format. Note that you can pass any tuple
\* to `JsonSerialize`. For example, a sub-sequence of _TETrace.
    \* ASSUME
    \*     LET J == INSTANCE Json
    \*         IN J!JsonSerialize("MultiConn_TTrace_1790671950.json", _TETrace)

=============================================================================

 Note that you can extract this module `MultiConn_TEExpression`
  to a dedicated file to reuse `expression` (the module in the 
  dedicated `MultiConn_TEExpression.tla` file takes precedence 
  over the module `MultiConn_TEExpression` below).

---- MODULE MultiConn_TEExpression ----
EXTENDS Sequences, TLCExt, Toolbox, Naturals, TLC, MultiConn

expression == 
    [
        \* To hide variables of the `MultiConn` spec from the error trace,
        \* remove the variables below.  The trace will be written in the order
        \* of the fields of this record.
        fam |-> fam
        ,par |-> par
        ,nm |-> nm
        ,view |-> view
        ,tdead |-> tdead
        ,ncalls |-> ncalls
        ,tlive |-> tlive
        ,last |-> last
        ,kids |-> kids
        ,via |-> via
        ,dead |-> dead
        ,live |-> live
        ,kf |-> kf
        ,mem |-> mem
        
        \* Put additional constant-, state-, and action-level expressions here:
        \* ,_stateNumber |-> _TEPosition
        \* ,_famUnchanged |-> fam = fam'
        
        \* Format the `fam` variable as Json value.
        \* ,_famJson |->
        \*     LET J == INSTANCE Json
        \*     IN J!ToJson(fam)
        
        \* Lastly, you may build expressions over arbitrary sets of states by
        \* leveraging the _TETrace operator.  For example, this is how to
        \* count the number of times a spec variable changed up to the current
        \* state in the trace.
        \* ,_famModCount |->
        \*     LET F[s \in DOMAIN _TETrace] ==
        \*         IF s = 1 THEN 0
        \*         ELSE IF _TETrace[s].fam # _TETrace[s-1].fam
        \*             THEN 1 + F[s-1] ELSE F[s-1]
        \*     IN F[_TEPosition - 1]
    ]

=============================================================================



Parsing and semantic processing can take forever if the trace below is long.
 In this case, it is advised to uncomment the module below to deserialize the
 trace from a generated binary file.

\*
\*---- MODULE MultiConn_TETrace ----
\*EXTENDS IOUtils, TLC, MultiConn
\*
\*trace == IODeserialize("MultiConn_TTrace_1790671950.bin", TRUE)
\*
\*=============================================================================
\*

---- MODULE MultiConn_TETrace ----
EXTENDS TLC, MultiConn

trace == 
    <<
    ([par |-> <<>>,last |-> [a |-> 0, n |-> "", c |-> 0, p |-> 0, t |-> 0, out |-> "ok", op |-> "init", new |-> 0],tdead |-> {},dead |-> {},via |-> 1,view |-> <<<<"v2", {}, {}, <<>>, <<>>, (0 :> <<>>), {}, {}, <<>>>>, <<"v2", {}, {}, <<>>, <<>>, (0 :> <<>>), {}, {}, <<>>>>>>,ncalls |-> 0,fam |-> "v2",mem |-> <<>>,tlive |-> {},kf |-> "",live |-> {},nm |-> <<>>,kids |-> (0 :> <<>>)]),
    ([par |-> <<0>>,last |-> [a |-> 0, n |-> "a", c |-> 0, p |-> 0, t |-> 0, out |-> "ok", op |-> "create_root", new |-> 1],tdead |-> {},dead |-> {},via |-> 1,view |-> <<<<"v2", {1}, {}, <<0>>, <<"a">>, (0 :> <<1>> @@ 1 :> <<>>), {}, {}, <<<<>>>>>>, <<"v2", {}, {}, <<>>, <<>>, (0 :> <<>>), {}, {}, <<>>>>>>,ncalls |-> 1,fam |-> "v2",mem |-> <<<<>>>>,tlive |-> {},kf |-> "",live |-> {1},nm |-> <<"a">>,kids |-> (0 :> <<1>> @@ 1 :> <<>>)])
    >>
----


=============================================================================

---- CONFIG MultiConn_TTrace_1790671950 ----
CONSTANTS
    ValidNames = { "a" }
    InvalidNames = { "" }
    DupPolicy = "reject"
    PosPolicy = "tail"
    Conns = { 1 , 2 }
    Caching = "own-writes"
    MaxId = 3
    MaxCalls = 4

INVARIANT
    _inv

CHECK_DEADLOCK
    \* CHECK_DEADLOCK off because of PROPERTY or INVARIANT above.
    FALSE

INIT
    _init

NEXT
    _next

CONSTANT
    _TETrace <- _trace

ALIAS
    _expression
=============================================================================
\* Generated on Tue Sep 29 08:52:32 UTC 2026