----------------------------- MODULE MCBeatgrid -----------------------------
(* Bounded exploration of Beatgrid: grids are built marker by marker (so TLC never materialises  *)
(* the set of all grids); every state with at least one marker is a test input for every sample  *)
(* count in Counts.  The invariant evaluates the C20 property on the *model* of the algorithm;    *)
(* input classes on which the model itself fails the property are the predictions listed in       *)
(* known_findings.jsonl (KfClass) - any other failure of the model is an error of this instance.  *)
EXTENDS Beatgrid, Json, TLC

CONSTANTS OffLoNeg, OffHi, IdxLoNeg, IdxHi, MaxMarkers, Counts   \* (cfg files cannot hold negative numbers)

OffLo == -OffLoNeg
IdxLo == -IdxLoNeg

VARIABLE g

Init == g = <<>>
Next == /\ Len(g) < MaxMarkers
        /\ \E i \in IdxLo .. IdxHi, o \in OffLo .. OffHi :
              /\ (g # <<>> => i > g[Len(g)].i /\ o > g[Len(g)].o)
              /\ g' = Append(g, [i |-> i, o |-> o])
Spec == Init /\ [][Next]_g

Verdict(x, sc) ==
    LET n == Normalize(x, sc) IN
    IF n.out = "inexact" THEN "skip"
    ELSE IF MustReject(x, sc) THEN (IF n.out = "reject" THEN "reject" ELSE "MODEL-FAILS")
    ELSE IF InDomain(x, sc) THEN (IF n.out = "ok" /\ PostOK(x, sc, n.grid) THEN "ok" ELSE "MODEL-FAILS")
    ELSE "open"

\* idempotence on the model: normalising a normalised grid changes nothing
Idempotent(x, sc) ==
    LET n == Normalize(x, sc) IN
    (InDomain(x, sc) /\ n.out = "ok" /\ PostOK(x, sc, n.grid)) =>
        LET m == Normalize(n.grid, sc) IN m.out = "ok" /\ m.grid = n.grid

ModelInv == \A sc \in Counts : Verdict(g, sc) # "MODEL-FAILS" /\ Idempotent(g, sc)

EmitGrid == g = <<>> \/ \A sc \in Counts :
               Verdict(g, sc) = "skip" \/ PrintT("GRID " \o ToJson([g |-> g, sc |-> sc, v |-> Verdict(g, sc)]))
=============================================================================
