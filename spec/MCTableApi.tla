----------------------------- MODULE MCTableApi -----------------------------
(* Script generation for C18: all sequences of at most MaxOps table operations over at most two rows.   *)
(* A row is named by (variant, mask): the variant decides the value every column takes (pairwise         *)
(* distinct across same-typed columns), the mask which optional columns are absent.  The abstract state  *)
(* maps a row handle to the (variant, mask) last written and, per column, the pair last written to that  *)
(* column alone; the model checks that a column write never changes what the model holds for any other   *)
(* column or row (the frame the implementation is validated against) and emits every sequence.           *)
EXTENDS Integers, Sequences, FiniteSets, Json, TLC

CONSTANTS MaxOps, Variants, Masks, Cols

VARIABLES rows,     \* handle -> [v, m, over : col -> [v, m]]   (live rows only)
          n,        \* handles handed out so far
          hist

NoOver == [c \in {} |-> 0]

Init == rows = <<>> /\ n = 0 /\ hist = <<>>

Add(v, m) == /\ n < 2
             /\ n' = n + 1
             /\ rows' = (n + 1 :> [v |-> v, m |-> m, over |-> NoOver]) @@ rows
             /\ hist' = Append(hist, [op |-> "t_add", variant |-> v, mask |-> m])
Update(h, v, m) == /\ h \in DOMAIN rows
                   /\ rows' = [rows EXCEPT ![h] = [v |-> v, m |-> m, over |-> NoOver]]
                   /\ n' = n
                   /\ hist' = Append(hist, [op |-> "t_update", h |-> h, variant |-> v, mask |-> m])
SetCol(h, c, v, m) == /\ h \in DOMAIN rows
                      /\ rows' = [rows EXCEPT ![h].over = (c :> [v |-> v, m |-> m]) @@ @]
                      /\ n' = n
                      /\ hist' = Append(hist, [op |-> "t_set", h |-> h, col |-> c, variant |-> v, mask |-> m])
Remove(h) == /\ h \in DOMAIN rows
             /\ rows' = [x \in DOMAIN rows \ {h} |-> rows[x]]
             /\ n' = n
             /\ hist' = Append(hist, [op |-> "t_remove", h |-> h])

Next == /\ Len(hist) < MaxOps
        /\ \/ \E v \in Variants, m \in Masks : Add(v, m)
           \/ \E h \in DOMAIN rows, v \in Variants, m \in Masks : Update(h, v, m)
           \/ \E h \in DOMAIN rows, c \in Cols, v \in Variants, m \in Masks : SetCol(h, c, v, m)
           \/ \E h \in DOMAIN rows : Remove(h)
Spec == Init /\ [][Next]_<<rows, n, hist>>

\* what the model says column c of row h holds
Holds(h, c) == IF c \in DOMAIN rows[h].over THEN rows[h].over[c] ELSE [v |-> rows[h].v, m |-> rows[h].m]

\* frame: a step that is a column write changes what is held for that column of that row only
Frame == [][\A h \in DOMAIN rows \cap DOMAIN rows' : \A c \in Cols :
               (hist' # hist /\ hist'[Len(hist')].op = "t_set") =>
                   (Holds(h, c)' # Holds(h, c) => hist'[Len(hist')].h = h /\ hist'[Len(hist')].col = c)]_<<rows, n, hist>>

EmitSeq == hist = <<>> \/ PrintT("OPS " \o ToJson(hist))
=============================================================================
