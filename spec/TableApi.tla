------------------------------ MODULE TableApi ------------------------------
(***************************************************************************)
(* C18: the schema-2.x table API as a row store.                           *)
(*                                                                         *)
(* rows : id -> row, where a row is a record with one field per column of  *)
(* the Track table in the canonical token form of harness/tabledriver      *)
(* (optionals as sequences of length <= 1, strings as tokens, doubles as   *)
(* bit patterns, time points as [s, f], blobs as digests of their          *)
(* encoding).  A row read back after add / update equals the row written   *)
(* apart from the id and the columns the database itself maintains         *)
(* (last-edit time, origin fix-up); per-column accessors agree with the    *)
(* row and change their column only; accessors naming a row that does not  *)
(* exist report an error.                                                  *)
(***************************************************************************)
EXTENDS Integers, Sequences, FiniteSets

TimeCols == {"time_last_played", "date_created", "date_added"}
Maintained == {"id", "last_edit_time"}
OriginCols == {"origin_database_uuid", "origin_track_id"}
EmptyTok == "="

\* columns that exist only from some schema version on (older schemas cannot hold them)
HasCol(schema, col) ==
    CASE col = "active_on_load_loops" -> schema # "2.18.0"
      [] col = "last_edit_time" -> schema \in {"2.20.3", "2.21.0", "2.21.1", "2.21.2"}
      [] OTHER -> TRUE

\* time points are stored at whole-second resolution
TimeOK(in, out) == \/ out = in
                   \/ /\ in.s = out.s /\ out.f = 0
OptTimeOK(in, out) == IF in = <<>> THEN out = <<>> ELSE out # <<>> /\ TimeOK(in[1], out[1])

\* the origin fix-up trigger: a blank origin is replaced by (library uuid, own id)
OriginBlank(r) == r.origin_track_id = 0 \/ r.origin_database_uuid = EmptyTok

ColOK(schema, col, in, out, id, uuid) ==
    CASE col \in Maintained -> TRUE
      [] ~HasCol(schema, col) -> TRUE
      [] col = "time_last_played" -> OptTimeOK(in[col], out[col])
      [] col \in {"date_created", "date_added"} -> TimeOK(in[col], out[col])
      [] col = "origin_track_id" -> IF OriginBlank(in) THEN out[col] = id ELSE out[col] = in[col]
      [] col = "origin_database_uuid" -> IF OriginBlank(in) THEN out[col] = uuid ELSE out[col] = in[col]
      [] OTHER -> out[col] = in[col]

\* the row read back equals the row written
RowOK(schema, in, out, id, uuid) ==
    /\ out.id = id
    /\ \A col \in DOMAIN in : ColOK(schema, col, in, out, id, uuid)

\* a single-column write: that column takes the value, every other column keeps its own
SetColOK(schema, col, v, old, new, id, uuid) ==
    /\ \A c \in DOMAIN old \ ({col} \cup Maintained \cup (IF col \in OriginCols THEN OriginCols ELSE {})) : new[c] = old[c]
    /\ ColOK(schema, col, [old EXCEPT ![col] = v], new, id, uuid)
=============================================================================
