-------------------------- MODULE TraceTrackFields --------------------------
(***************************************************************************)
(* Trace validation of track-level histories (harness/trackdriver) against *)
(* TrackFields.tla: C01 (snapshot round trip, fixed point, rejection),     *)
(* C06 (getters = what setters stored, setters touch only their field),    *)
(* plus the track part of C10 (reopen), C14 (failed call has no effect)    *)
(* and C16 (observers do not write).                                       *)
(*                                                                         *)
(* The state is relational: ts maps every live track id to the snapshot    *)
(* record observed after the last call; each step relates the new          *)
(* observation to ts and to the call's input.                              *)
(***************************************************************************)
EXTENDS TrackFields, Json, IOUtils, TLC

VARIABLES l, fam, fb, ts, dead, pinfo, probing,
          vs      \* tracks whose state was last changed by a field setter (not by a whole-snapshot write)
tvars == <<l, fam, fb, ts, dead, pinfo, probing, vs>>
Log == ndJsonDeserialize(IOEnv.TRACE)

Has(r, f) == f \in DOMAIN r
ToSet(s) == {s[k] : k \in DOMAIN s}
IsThrow(x) == Has(x, "throw")
Kf(name) == PrintT(<<"KF", l, name>>)

FbSchemas == {"1.15.0", "1.17.0", "1.18.0d", "1.18.0o", "2.18.0", "2.20.1", "2.20.2", "2.20.3", "2.21.0", "2.21.1", "2.21.2"}

\* snapshot() of every live track returned a value (a getter that throws on a LIVE track is a rejection, not an error of
\* the evaluation: this conjunct comes first in every action that reads the snapshots)
SnapsThere(r) == Has(r, "obs") /\ \A x \in ToSet(r.obs.tk) : Has(x.snap, "v")
\* snapshots of all live tracks as observed in record r
Snaps(r) == [id \in {x.id : x \in ToSet(r.obs.tk)} |-> (CHOOSE x \in ToSet(r.obs.tk) : x.id = id).snap.v]

\* every getter returns the corresponding snapshot field (C06), per-slot getters agree with the lists
GettersAgree(r, F) ==
    \A x \in ToSet(r.obs.tk) :
        /\ ~IsThrow(x.snap)
        /\ \A f \in DOMAIN x.get : ~IsThrow(x.get[f])
        /\ \A f \in AllFields \ {"file_bytes"} :                  \* (no getter exists for file_bytes)
              x.get[f].v = x.snap.v[f]
        \* (the driver asks for slots 0..7; a 1.x track may hold more)
        /\ x.get.cue_at.v = SubSeq(x.snap.v.hot_cues, 1, 8) /\ x.get.loop_at.v = SubSeq(x.snap.v.loops, 1, 8)
NoWrite(r) == r.o16.w = 0 /\ r.o16.chg = 0 /\ (Has(r.o16, "same") => r.o16.same) /\ (Has(r.o16, "rep") => r.o16.rep)
\* observing through handles to removed tracks: completes or throws a std::exception, validity false
StaleOK(r, D) == \A s \in ToSet(r.obs.stale) : s.id \in D /\ s.v = FALSE /\
                    (Has(s, "get") => \A f \in DOMAIN s.get : (IsThrow(s.get[f]) => s.get[f].std))
DerivedOK(r, PI) == \A x \in ToSet(r.obs.tk) : x.id \in DOMAIN PI =>
                        x.get.fn.v = PI[x.id].base /\ x.get.ext.v = PI[x.id].ext
\* C11 at track level (driver flag raw): the stored row of every live track carries the path the getter reports, the file name and
\* extension (1.x: MetaData type 13; 2.x: fileType) derived from it, and (2.x) the origin columns of this database; SQLite's
\* integrity and foreign-key checks are clean and verify() passes.
\* ... and every stored performance blob decodes, as an independent reader judges it (BlobWF.tla): the frame is intact and the
\* payload is a well-formed blob of its column's layout (a column that holds no blob at all is fine)
BWF == INSTANCE BlobWF
StoredBlobsOK(rw) ==
    Has(rw, "sb") => \A b \in ToSet(rw.sb) : b.st = "absent" \/ (b.st = "ok" /\ BWF!WF(b.kind, b.n, b.p, b.c2))
\* what an independent reader requires of the stored database whatever the call was (also after calls outside the modelled domain):
\* integrity and foreign keys clean, verify() passes, every stored blob well-formed, no per-track row that names no stored track
RawSane(rw) == /\ rw.integrity = "ok" /\ rw.fk = 0 /\ rw.verify = "ok"
               /\ StoredBlobsOK(rw)
               /\ (Has(rw, "orph") => rw.orph = 0)
RawTracksOK(r, PI) ==
    Has(r.obs, "rawt") =>
        LET rw == r.obs.rawt IN
        /\ RawSane(rw)
        /\ {x.id : x \in ToSet(rw.rows)} = ToSet(r.obs.tracks) /\ Len(rw.rows) = Len(r.obs.tracks)
        /\ \A x \in ToSet(rw.rows) :
              /\ x.ouuid /\ x.oid = x.id
              /\ \A o \in ToSet(r.obs.tk) : o.id = x.id =>
                    /\ (Has(o.get.relative_path, "v") => <<x.path>> = o.get.relative_path.v)
                    /\ (x.id \in DOMAIN PI /\ PI[x.id].base # "=" => x.fn = PI[x.id].base /\ (PI[x.id].has_ext => x.ext = PI[x.id].ext))
\* lookups by path (observers with an argument): the stored spelling finds the track; a near miss of it (other separator, other
\* case, padding, the empty string) has no prescribed answer, but it must answer or throw a std::exception - and, like every
\* observer, it must not write (NoWrite covers the whole observation phase, C16)
LookupsOK(r) ==
    Has(r.obs, "lk") =>
        \A e \in ToSet(r.obs.lk) :
            /\ (e.out = "throw" => e.std)
            /\ (e.k = "exact" => e.out = "ok" /\ e.id \in ToSet(e.r))
ObsOK(r, TS, D, F, PI) ==
    /\ Has(r, "obs")
    /\ DOMAIN TS = {x.id : x \in ToSet(r.obs.tk)}
    /\ ToSet(r.obs.tracks) = DOMAIN TS
    /\ GettersAgree(r, F) /\ NoWrite(r) /\ StaleOK(r, D) /\ DerivedOK(r, PI) /\ RawTracksOK(r, PI) /\ LookupsOK(r)

Unchanged(r) == Snaps(r) = ts
V2TwoStatementSetters == {"bpm", "key", "sample_count", "sample_rate"}

\* Known finding (see known_findings.jsonl, v1-bpm-from-grid): when a snapshot carries no BPM, the 1.x family stores
\* the tempo of its first two beat-grid markers instead, so the absent field reads back as present.
BpmDerived(in, out) == fam = "v1" /\ in.bpm = <<>> /\ out.bpm # <<>> /\ in.beatgrid.n >= 2 /\ in.sample_rate # <<>>
SnapOKx(in, out) ==
    \A f \in AllFields : \/ FieldOK(fam, fb, f, in[f], out[f])
                         \/ (f = "bpm" /\ BpmDerived(in, out) /\ Kf("v1-bpm-from-grid"))
Faulted(r) == Has(r, "fault") /\ r.fault.fired

\* ---- the calls ----
Create(r) ==
    \/ /\ r.out = "throw" /\ r.std /\ Unchanged(r)                           \* rejected: no effect
       /\ ts' = ts /\ dead' = dead /\ pinfo' = pinfo
    \/ /\ r.out = "ok" /\ ~MustReject(fam, r.in, r.pathinfo.has_ext)
       /\ r.new \notin DOMAIN ts
       /\ LET S == Snaps(r) IN
          /\ DOMAIN S = DOMAIN ts \cup {r.new}
          /\ \A u \in DOMAIN ts : S[u] = ts[u]                               \* other tracks untouched
          /\ SnapOKx(r.in, S[r.new]) = TRUE                                 \* C01 (`= TRUE`: evaluated as a value - TLC would
                                                                            \* otherwise branch on every disjunction inside)
          /\ ts' = S
       /\ dead' = dead \ {r.new}
       /\ pinfo' = (r.new :> r.pathinfo) @@ pinfo

Update(r) ==
    \/ /\ r.out = "throw" /\ r.std /\ Unchanged(r)
       /\ ts' = ts /\ dead' = dead /\ pinfo' = pinfo
    \/ /\ r.out = "ok" /\ r.t \in DOMAIN ts /\ ~MustReject(fam, r.in, r.pathinfo.has_ext)
       /\ LET S == Snaps(r) IN
          /\ DOMAIN S = DOMAIN ts
          /\ \A u \in DOMAIN ts \ {r.t} : S[u] = ts[u]
          /\ SnapOKx(r.in, S[r.t]) = TRUE
          /\ ts' = S
       /\ dead' = dead
       /\ pinfo' = [pinfo EXCEPT ![r.t] = r.pathinfo]

\* which snapshot field a setter addresses, and what the field must read back as
SetField(f) == IF f = "hot_cue_at" THEN "hot_cues" ELSE IF f = "loop_at" THEN "loops" ELSE f
SlotSet(old, i, v) == [k \in 1 .. Len(old) |-> IF k = i + 1 THEN v ELSE old[k]]
SetOK(r, old, new) ==
    CASE r.f = "hot_cue_at" -> r.in.i \in 0 .. Len(old) - 1 /\ new \in {SlotSet(old, r.in.i, SlotNorm(r.in.v, "off")), SlotSet(old, r.in.i, r.in.v)}
      [] r.f = "loop_at" -> r.in.i \in 0 .. Len(old) - 1 /\ new \in {SlotSet(old, r.in.i, SlotNorm(r.in.v, "start")), SlotSet(old, r.in.i, r.in.v)}
      [] OTHER -> FieldOK(fam, fb, r.f, r.in, new)

Set(r) ==
    \/ /\ r.out = "throw" /\ r.std /\ Unchanged(r)
       /\ ts' = ts /\ dead' = dead /\ pinfo' = pinfo
    \/ /\ r.out = "ok" /\ r.t \in DOMAIN ts
       /\ LET S == Snaps(r)
              g == SetField(r.f) IN
          /\ DOMAIN S = DOMAIN ts
          /\ \A u \in DOMAIN ts \ {r.t} : S[u] = ts[u]                       \* no other track changes
          /\ \A h \in AllFields \ {g} : S[r.t][h] = ts[r.t][h]               \* no other field changes (C06 frame)
          /\ SetOK(r, ts[r.t][g], S[r.t][g]) = TRUE                          \* the field reads back as set
          /\ ts' = S
       /\ dead' = dead
       /\ pinfo' = IF r.f = "relative_path" THEN [pinfo EXCEPT ![r.t] = r.pathinfo] ELSE pinfo

Remove(r) ==
    /\ r.out = "ok" /\ r.t \in DOMAIN ts
    /\ LET S == Snaps(r) IN
       /\ DOMAIN S = DOMAIN ts \ {r.t}
       /\ \A u \in DOMAIN S : S[u] = ts[u]
       /\ ts' = S
    /\ dead' = dead \cup {r.t}
    /\ pinfo' = pinfo

\* C01: the read-back snapshot is a fixed point of update
\* C01 promises the fixed point for snapshots read back after create_track / update.  A state reached through field
\* setters may be one no snapshot write produces (2.x: a path without extension, a waveform without sample rate): there
\* the step is judged like an update with the read-back snapshot as its input (it may also be refused).
FixpointAfterSetters(r) ==
    /\ r.t \in DOMAIN ts /\ r.t \in vs
    /\ \/ r.out = "throw" /\ r.std /\ Unchanged(r) /\ ts' = ts
       \/ /\ r.out = "ok" /\ r.s1 = ts[r.t] /\ SnapOKx(r.s1, r.s2) = TRUE
          /\ Snaps(r) = [ts EXCEPT ![r.t] = r.s2] /\ ts' = Snaps(r)
    /\ dead' = dead /\ pinfo' = pinfo

Fixpoint(r) ==
    /\ r.out = "ok" /\ r.t \in DOMAIN ts /\ r.t \notin vs
    /\ r.s1 = ts[r.t]
    /\ \/ r.s2 = r.s1 /\ Unchanged(r) /\ ts' = ts
       \* (known finding v1-bpm-from-grid: a snapshot without BPM is not a fixed point when a beat grid is present)
       \/ /\ BpmDerived(r.s1, r.s2) /\ \A f \in AllFields \ {"bpm"} : r.s2[f] = r.s1[f]
          /\ Snaps(r) = [ts EXCEPT ![r.t] = r.s2] /\ ts' = Snaps(r)
          /\ Kf("v1-bpm-from-grid")
    /\ dead' = dead /\ pinfo' = pinfo

\* C15: an unmodelled call (on a handle to a removed track, or with arguments outside the nominal
\* ranges): it must complete or throw a std::exception, and so must every observer afterwards.
TProbe ==
    /\ l <= Len(Log)
    /\ LET r == Log[l] IN
       /\ r.e = "call" /\ Has(r, "probe")
       /\ r.out \in {"ok", "throw"} /\ (r.out = "throw" => r.std)
       /\ (Has(r, "obs_throw") => r.obs_throw.std)
       /\ (Has(r, "obs") => \A x \in ToSet(r.obs.tk) \cup ToSet(r.obs.stale) :
                                /\ (Has(x, "snap") /\ IsThrow(x.snap) => x.snap.std)
                                /\ (Has(x, "get") => \A f \in DOMAIN x.get : (IsThrow(x.get[f]) => x.get[f].std)))
       \* C11 quantifies over all sequences of public calls: whatever the probe was, the stored database stays well-formed
       /\ (Has(r, "obs") /\ Has(r.obs, "rawt") => RawSane(r.obs.rawt))
    /\ probing' = TRUE
    /\ l' = l + 1 /\ UNCHANGED <<fam, fb, ts, dead, pinfo, vs>>

TCall ==
    /\ l <= Len(Log)
    /\ ~probing
    /\ LET r == Log[l] IN
       /\ r.e = "call" /\ ~Has(r, "probe")
       /\ SnapsThere(r)
       /\ (Has(r, "ac") => r.ac)            \* the call returned with no transaction left open on its connection (C14)
       /\ IF Faulted(r)
          THEN \/ /\ r.out = "throw" /\ r.std /\ r.dsame /\ Unchanged(r)        \* C14
                  /\ ts' = ts /\ dead' = dead /\ pinfo' = pinfo
               \* Known finding v2-setter-not-atomic: four 2.x setters issue two UPDATE statements outside a
               \* transaction; a failure of the second leaves the first (only the addressed field may differ).
               \/ /\ fam = "v2" /\ r.op = "set" /\ r.f \in V2TwoStatementSetters /\ r.fault.k = r.ns
                  /\ r.out = "throw" /\ r.std /\ ~r.dsame
                  /\ LET S == Snaps(r) IN
                     /\ DOMAIN S = DOMAIN ts /\ \A u \in DOMAIN ts \ {r.t} : S[u] = ts[u]
                     /\ \A h \in AllFields \ {SetField(r.f)} : S[r.t][h] = ts[r.t][h]
                     /\ ts' = S
                  /\ dead' = dead /\ pinfo' = pinfo /\ Kf("v2-setter-not-atomic")
          ELSE CASE r.op = "create" -> Create(r)
                 [] r.op = "update" -> Update(r)
                 [] r.op = "set" -> Set(r)
                 [] r.op = "remove" -> Remove(r)
                 [] r.op = "fixpoint" -> Fixpoint(r) \/ FixpointAfterSetters(r)
                 [] OTHER -> FALSE
       /\ ObsOK(r, ts', dead', fam, pinfo') = TRUE
       /\ vs' = IF Faulted(r) \/ r.out # "ok" THEN vs
                ELSE CASE r.op = "set" -> vs \cup {r.t}
                       [] r.op \in {"update", "remove", "fixpoint"} -> vs \ {r.t}
                       [] r.op = "create" -> vs \ {r.new}
                       [] OTHER -> vs
    /\ l' = l + 1 /\ UNCHANGED <<fam, fb, probing>>

TReopen ==
    /\ l <= Len(Log)
    /\ LET r == Log[l] IN
       /\ r.e = "reopen" /\ r.out = "ok" /\ r.loaded = r.want /\ SnapsThere(r)
       /\ (Has(r, "csame") => r.csame)                                        \* C16: close + load changed no stored row
       /\ Unchanged(r)                                                       \* C10
       /\ ObsOK(r, ts, {}, fam, pinfo) = TRUE
    /\ ~probing
    /\ l' = l + 1 /\ UNCHANGED <<fam, fb, ts, dead, pinfo, probing, vs>>

TReset ==
    /\ l <= Len(Log)
    /\ LET r == Log[l] IN
       /\ r.e = "reset" /\ r.out = "ok"
       /\ fam' = r.family /\ fb' = (r.schema \in FbSchemas)
       /\ ts' = <<>> /\ dead' = {} /\ pinfo' = <<>> /\ vs' = {}
       /\ ObsOK(r, <<>>, {}, r.family, <<>>) = TRUE
    /\ probing' = FALSE
    /\ l' = l + 1

\* the driver could not attempt a scripted call (its subject was never created): nothing happened
TSkip ==
    /\ l <= Len(Log) /\ Log[l].e = "skip"
    /\ l' = l + 1 /\ UNCHANGED <<fam, fb, ts, dead, pinfo, probing, vs>>

TInit == l = 1 /\ fam = "v2" /\ fb = TRUE /\ ts = <<>> /\ dead = {} /\ pinfo = <<>> /\ probing = FALSE /\ vs = {}
TNext == TCall \/ TProbe \/ TReopen \/ TReset \/ TSkip
TSpec == TInit /\ [][TNext]_tvars
Accepted == TLCGet("stats").diameter - 1 = Len(Log)
=============================================================================
