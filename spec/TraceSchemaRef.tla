--------------------------- MODULE TraceSchemaRef ---------------------------
(***************************************************************************)
(* Validation of the schema creators against the reference libraries (C12). *)
(* One record per (reference library, form): the inventory and version rows  *)
(* of the reference (hydrated from its dump), and of a library freshly        *)
(* created at the version the reference loads as - on disk or temporary -,    *)
(* both read through the plain SQLite C API, plus the verdicts of verify(),   *)
(* version_name() and, on disk, of loading the created library again.        *)
(*                                                                         *)
(* State: per version the inventory created first, so that the two forms and  *)
(* repeated creations of one version are also required to agree with each     *)
(* other.                                                                   *)
(***************************************************************************)
EXTENDS SchemaRef, Json, IOUtils

VARIABLES l, made
Log == ndJsonDeserialize(IOEnv.TRACE)
Has(r, f) == f \in DOMAIN r

Supported == {"1.6.0", "1.7.1", "1.9.1", "1.11.1", "1.13.0", "1.13.1", "1.13.2", "1.15.0", "1.17.0", "1.18.0d", "1.18.0o",
              "2.18.0", "2.20.1", "2.20.2", "2.20.3", "2.21.0", "2.21.1", "2.21.2"}

\* Known finding ref-1.18.0d-trigger (see known_findings.jsonl): the reference dumps of the 1.18.0 desktop schema disagree
\* among themselves - Engine Prime 1.5.1 names the PerformanceData update trigger `trigger_after_update_PerformanceDataAFTER`
\* (a BEFORE trigger: the keyword was glued to the name), 1.6.0 / 1.6.1 name it `trigger_after_update_PerformanceData` (AFTER).
\* The creator reproduces the 1.5.1 form, so it cannot equal the other two.  Exactly this difference is accepted and flagged.
KnownDesktopTrigger(r, R, C) ==
    /\ r.ver = "1.18.0d"
    /\ Missing(R, C) = {<<"perfdata", "trigger", "trigger_after_update_PerformanceData">>}
    /\ Extra(R, C) = {<<"perfdata", "trigger", "trigger_after_update_PerformanceDataAFTER">>}
    /\ Altered(R, C) = {}
    /\ PrintT(<<"KF", l, "ref-1.18.0d-trigger">>)

RecOK(r) ==
    LET R == Inventory(r.ref.objs)
        C == Inventory(r.cre.objs) IN
    /\ r.ver \in Supported
    /\ r.ref.load = "ok" /\ r.ref.loaded = r.ver              \* the reference hydrates and is recognised as this version
    /\ r.cre.load = "ok"                                        \* the version can be created in this form
    /\ WellFormed(R) /\ WellFormed(C)
    /\ (Same(R, C) \/ KnownDesktopTrigger(r, R, C))             \* same tables, columns, indices, views, triggers
    /\ Versions(r.cre.info) = Versions(r.ref.info) /\ Versions(r.cre.info) # {}     \* matching version numbers
    /\ r.ref.verify = "ok" /\ r.cre.verify = "ok"               \* both pass verify()
    /\ r.cre.version_name = r.ref.version_name
    /\ (r.form = "disk" => r.cre.reloaded = r.ver)              \* recognised on load as the version requested
    \* the two forms / repeated creations of one version agree with each other
    /\ (r.ver \in DOMAIN made => made[r.ver] = C)

TRec ==
    /\ l <= Len(Log)
    /\ LET r == Log[l] IN
       /\ RecOK(r)
       /\ made' = IF r.ver \in DOMAIN made THEN made ELSE (r.ver :> Inventory(r.cre.objs)) @@ made
    /\ l' = l + 1

TInit == l = 1 /\ made = <<>>
TSpec == TInit /\ [][TRec]_<<l, made>>
Accepted == TLCGet("stats").diameter - 1 = Len(Log)
=============================================================================
