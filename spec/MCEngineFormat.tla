--------------------------- MODULE MCEngineFormat ---------------------------
(* Bounded enumeration of blob values for the eleven codecs.  Numeric fields are drawn from            *)
(* asymmetric byte patterns (01 02 .. 08, 11 12 .. 18, ...), each field from its own pattern, so that   *)
(* any permutation of fields, change of width or of endianness in the code shows in the bytes.          *)
(* Every state is one value; TLC checks properties of the specification's own encoder (payload length,  *)
(* injectivity on the encodable domain) and emits the value together with its payload.                  *)
EXTENDS EngineFormat, Json, TLC

CONSTANTS Kinds, Counts, LabelLens, Flags, ExtraLens

VARIABLE s        \* [kind, n, lab, flag, ex, var]

B8(k) == [j \in 1 .. 8 |-> (16 * k + j) % 256]
B4(k) == [j \in 1 .. 4 |-> (16 * k + j) % 256]
\* (variant 3: the same idea with every byte >= 156, so that every integer field is NEGATIVE in either byte order and a
\*  sign extension, an unsigned comparison or a narrowing shows)
H8(k) == [j \in 1 .. 8 |-> 255 - ((16 * k + j) % 100)]
H4(k) == [j \in 1 .. 4 |-> 255 - ((16 * k + j) % 100)]
Bytes(n, base) == [j \in 1 .. n |-> (base + j) % 256]
Col(k) == [a |-> (200 + k) % 256, r |-> (10 + k) % 256, g |-> (20 + k) % 256, b |-> (30 + k) % 256]

Mk(kind, n, lab, flag, ex, var) ==
    LET q == 3 * var
        P8(k) == IF var = 3 THEN H8(k) ELSE B8(k)
        P4(k) == IF var = 3 THEN H4(k) ELSE B4(k) IN
    CASE kind = "track_data2" -> [rate |-> P8(q), samples |-> P8(q + 1), key |-> P4(q + 2), low |-> P8(q + 3), mid |-> P8(q + 4),
                                  high |-> P8(q + 5), extra |-> Bytes(ex, 90)]
      [] kind = "beat_data2" -> [rate |-> P8(q), samples |-> P8(q + 1), isset |-> flag,
                                 dflt |-> [k \in 1 .. n |-> [off |-> P8(q + k), beat |-> P8(q + k + 4), nbeats |-> P4(q + k + 8), unk |-> P4(q + k + 12)]],
                                 adj |-> [k \in 1 .. ((n + var) % 4) |-> [off |-> P8(k + 5), beat |-> P8(k + 9), nbeats |-> P4(k + 13), unk |-> P4(k + 2)]],
                                 extra |-> Bytes(ex, 90)]
      [] kind = "quick_cues2" -> [cues |-> [k \in 1 .. n |-> [label |-> Bytes(IF k = 1 THEN lab ELSE k, 64), off |-> P8(q + k)] @@ Col(k)],
                                  adj |-> P8(q + 9), isadj |-> flag, dflt |-> P8(q + 10), extra |-> Bytes(ex, 90)]
      [] kind = "loops2" -> [loops |-> [k \in 1 .. n |-> [label |-> Bytes(IF k = 1 THEN lab ELSE k, 64), start |-> P8(q + k), end |-> P8(q + k + 6),
                                                          ss |-> flag, es |-> (flag + k) % 256] @@ Col(k)],
                             extra |-> Bytes(ex, 90)]
      [] kind = "overview2" -> [pts |-> [k \in 1 .. n |-> [l |-> k, m |-> k + 50, h |-> k + 100]], spp |-> P8(q),
                                max |-> [l |-> 7, m |-> 8, h |-> 9], extra |-> Bytes(ex, 90)]
      [] kind = "track_data1" -> [rate |-> IF flag = 0 THEN <<>> ELSE <<P8(q)>>, count |-> IF flag = 1 THEN <<>> ELSE <<P8(q + 1)>>,
                                  loud |-> IF flag = 2 THEN <<>> ELSE <<P8(q + 2)>>, key |-> IF flag = 255 THEN <<>> ELSE <<1 + ((n + var) % 24)>>]
      [] kind = "beat_data1" -> [rate |-> IF flag = 0 THEN <<>> ELSE <<P8(q)>>, count |-> IF flag = 1 THEN <<>> ELSE <<P8(q + 1)>>,
                                 dflt |-> [k \in 1 .. n |-> [idx |-> 2 * k - 5, off |-> <<64, 16 * k, 0, 0, 0, 0, 0, var>>]],
                                 adj |-> [k \in 1 .. n |-> [idx |-> 3 * k - 4, off |-> <<64, 16 * k, 1, 0, 0, 0, 0, var>>]]]
      [] kind = "hires1" -> [spe |-> P8(q), pts |-> [k \in 1 .. n |-> [l |-> k, m |-> 2 * k, h |-> 3 * k, lo |-> 255 - k, mo |-> 200 + k, ho |-> 100 + k]]]
      [] kind = "overview1" -> [spe |-> P8(q), pts |-> [k \in 1 .. n |-> [l |-> k, m |-> 2 * k, h |-> 3 * k, lo |-> 255, mo |-> 255, ho |-> 255]]]
      [] kind = "loops1" -> [loops |-> [k \in 1 .. n |-> IF (k + flag) % 3 = 0 THEN <<>> ELSE
                                <<[label |-> Bytes(IF k = 1 THEN lab ELSE k, 64), start |-> P8(q + k), end |-> P8(q + k + 6)] @@ Col(k)>>]]
      [] kind = "quick_cues1" -> [cues |-> [k \in 1 .. n |-> IF (k + flag) % 3 = 0 THEN <<>> ELSE
                                <<[label |-> Bytes(IF k = 1 THEN lab ELSE k, 64), off |-> P8(q + k)] @@ Col(k)>>],
                                  adj |-> P8(q + 9), dflt |-> IF flag = 1 THEN P8(q + 9) ELSE P8(q + 10)]

Val == Mk(s.kind, s.n, s.lab, s.flag, s.ex, s.var)
Aux == [dflt_sorted |-> TRUE, adj_sorted |-> TRUE]

Init == s \in [kind : Kinds, n : Counts, lab : LabelLens, flag : Flags, ex : ExtraLens, var : 1 .. 3]
Next == UNCHANGED s
Spec == Init /\ [][Next]_s

\* the payload has the length the format prescribes
ExpectedLen(kind, v) ==
    LET L2(c) == Len(c.label)
        L1(o) == IF o = <<>> THEN 0 ELSE Len(o[1].label)
        Sum(f(_)) == IF kind \in {"quick_cues2", "quick_cues1"} THEN
                         LET S[k \in 0 .. Len(v.cues)] == IF k = 0 THEN 0 ELSE S[k - 1] + f(v.cues[k]) IN S[Len(v.cues)]
                     ELSE LET S[k \in 0 .. Len(v.loops)] == IF k = 0 THEN 0 ELSE S[k - 1] + f(v.loops[k]) IN S[Len(v.loops)] IN
    CASE kind = "track_data2" -> 44 + Len(v.extra)
      [] kind = "beat_data2" -> 33 + 24 * (Len(v.dflt) + Len(v.adj)) + Len(v.extra)
      [] kind = "quick_cues2" -> 25 + 13 * Len(v.cues) + Sum(L2) + Len(v.extra)
      [] kind = "loops2" -> 8 + 23 * Len(v.loops) + Sum(L2) + Len(v.extra)
      [] kind = "overview2" -> 27 + 3 * Len(v.pts) + Len(v.extra)
      [] kind = "track_data1" -> 28
      [] kind = "beat_data1" -> 33 + 24 * (Len(v.dflt) + Len(v.adj))
      [] kind = "hires1" -> 30 + 6 * Len(v.pts)
      [] kind = "overview1" -> 27 + 3 * Len(v.pts)
      [] kind = "loops1" -> 8 + 23 * Len(v.loops) + Sum(L1)
      [] kind = "quick_cues1" -> 25 + 13 * Len(v.cues) + Sum(L1)

LenInv == LET e == Enc(s.kind, Val) IN Len(e) = ExpectedLen(s.kind, Val) /\ \A k \in DOMAIN e : e[k] \in Byte

EmitVal == PrintT("VAL " \o ToJson([kind |-> s.kind, v |-> Val, payload |-> Enc(s.kind, Val), enc |-> Encodable(s.kind, Val, Aux)]))
=============================================================================
