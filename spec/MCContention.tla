---------------------------- MODULE MCContention ----------------------------
(***************************************************************************)
(* Model-checking instance of Contention: the programs are the statement    *)
(* programs the real library was seen to run (one JSON object per line in    *)
(* the file named by the environment variable PROGS, written by the check    *)
(* from the lock-sweep traces of harness/libdriver).                         *)
(***************************************************************************)
EXTENDS Contention, Json, IOUtils

RawProgs == ndJsonDeserialize(IOEnv.PROGS)
MCProgs == [i \in 1 .. Len(RawProgs) |-> RawProgs[i].p]
=============================================================================
