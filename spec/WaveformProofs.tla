--------------------------- MODULE WaveformProofs ---------------------------
(* TLAPS proofs of the C19 arithmetic over ALL naturals (no bound). *)
EXTENDS Waveform, TLAPS

\* Euclid's division fact, discharged by the SMT back-end and cited explicitly below.
LEMMA Euclid == \A a \in Nat, q \in Nat \ {0} : /\ a = q * (a \div q) + (a % q)
                                                 /\ 0 <= a % q /\ a % q < q
                                                 /\ a \div q \in Nat
                                                 /\ a % q \in Nat
  BY Z3

LEMMA QNNat == \A r \in Nat : QN(r) \in Nat
  BY Euclid DEF QN

\* a purely linear fact about three naturals, so that the SMT back-end never sees \div
LEMMA LinFact == \A r \in Nat, d \in Nat, m \in Nat :
                    (r = 210 * d + m /\ m < 210) => ((d * 2 = 0) <=> (r < 210))
  BY Z3

LEMMA QNZero == \A r \in Nat : (QN(r) = 0) <=> (r < 210)
  <1> SUFFICES ASSUME NEW r \in Nat PROVE (QN(r) = 0) <=> (r < 210)
    OBVIOUS
  <1>1. /\ r = 210 * (r \div 210) + (r % 210) /\ r % 210 < 210
        /\ r \div 210 \in Nat /\ r % 210 \in Nat
    BY Euclid
  <1>2. ((r \div 210) * 2 = 0) <=> (r < 210)
    BY <1>1, LinFact
  <1> QED BY <1>2 DEF QN

LEMMA MulMono == \A a \in Int, b \in Int, q \in Nat \ {0} : a >= b => a * q >= b * q
  BY Z3

\* ceiling division: the least s with s*q >= n
LEMMA CeilDiv == \A n \in Nat, q \in Nat \ {0} :
                    LET s == (n + q - 1) \div q IN
                    /\ s \in Nat /\ s * q >= n /\ (n > 0 => (s - 1) * q < n) /\ (n > 0 => s > 0)
  <1> SUFFICES ASSUME NEW n \in Nat, NEW q \in Nat \ {0}
               PROVE LET s == (n + q - 1) \div q IN
                     /\ s \in Nat /\ s * q >= n /\ (n > 0 => (s - 1) * q < n) /\ (n > 0 => s > 0)
    OBVIOUS
  <1> DEFINE a == n + q - 1
  <1> DEFINE s == a \div q
  <1>1. a \in Nat
    OBVIOUS
  <1>2. a = q * s + (a % q) /\ 0 <= a % q /\ a % q < q /\ s \in Nat
    BY <1>1, Euclid
  <1>3. s * q >= n
    BY <1>2, Z3
  <1>4. n > 0 => (s - 1) * q < n
    BY <1>2, Z3
  <1>5. n > 0 => s > 0
    BY <1>2, Z3
  <1> QED BY <1>2, <1>3, <1>4, <1>5

THEOREM CoversMinimal == \A n \in Nat, r \in Nat : Covers(n, r) /\ Minimal(n, r)
  <1> SUFFICES ASSUME NEW n \in Nat, NEW r \in Nat PROVE Covers(n, r) /\ Minimal(n, r)
    OBVIOUS
  <1>1. CASE Empty(n, r)
    BY <1>1 DEF Covers, Minimal
  <1>2. CASE ~Empty(n, r)
    <2>1. QN(r) \in Nat \ {0} /\ n > 0
      BY <1>2, QNNat DEF Empty
    <2>2. HiSize(n, r) = (n + QN(r) - 1) \div QN(r) /\ HiSpe(n, r) = QN(r)
      BY <1>2 DEF HiSize, HiSpe
    <2> QED BY <2>1, <2>2, CeilDiv DEF Covers, Minimal
  <1> QED BY <1>1, <1>2

THEOREM EmptyExactly == \A n \in Nat, r \in Nat : EmptyIff(n, r)
  <1> SUFFICES ASSUME NEW n \in Nat, NEW r \in Nat PROVE EmptyIff(n, r)
    OBVIOUS
  <1>1. Empty(n, r) <=> (n = 0 \/ r < 210)
    BY QNZero DEF Empty
  <1>2. CASE Empty(n, r)
    BY <1>1, <1>2 DEF EmptyIff, HiSize, OvSize
  <1>3. CASE ~Empty(n, r)
    <2>1. QN(r) \in Nat \ {0} /\ n > 0
      BY <1>3, QNNat DEF Empty
    <2>2. HiSize(n, r) = (n + QN(r) - 1) \div QN(r)
      BY <1>3 DEF HiSize
    <2>3. HiSize(n, r) > 0
      BY <2>1, <2>2, CeilDiv
    <2> QED BY <1>1, <1>3, <2>3 DEF EmptyIff, OvSize, OverviewSize
  <1> QED BY <1>2, <1>3

THEOREM OverviewSpan == \A n \in Nat, r \in Nat : OverviewOK(n, r)
  <1> SUFFICES ASSUME NEW n \in Nat, NEW r \in Nat PROVE OverviewOK(n, r)
    OBVIOUS
  <1>1. CASE Empty(n, r)
    BY <1>1 DEF OverviewOK
  <1>2. CASE ~Empty(n, r)
    <2>1. QN(r) \in Nat \ {0}
      BY <1>2, QNNat DEF Empty
    <2> DEFINE q == QN(r)
    <2>2. n = q * (n \div q) + (n % q) /\ 0 <= n % q /\ n % q < q /\ n \div q \in Nat
      BY <2>1, Euclid
    <2>3. OvSpan(n, r) = (n \div q) * q /\ OvSize(n, r) = 1024
      BY <1>2 DEF OvSpan, OvSize, OverviewSize
    <2> QED BY <2>1, <2>2, <2>3, Z3 DEF OverviewOK
  <1> QED BY <1>1, <1>2

THEOREM Mono == \A n \in Nat, m \in Nat, r \in Nat : Monotone(n, m, r)
  <1> SUFFICES ASSUME NEW n \in Nat, NEW m \in Nat, NEW r \in Nat, n <= m
               PROVE HiSize(n, r) <= HiSize(m, r)
    BY DEF Monotone
  <1>1. CASE QN(r) = 0
    BY <1>1 DEF HiSize, Empty
  <1>2. CASE QN(r) # 0 /\ n = 0
    <2>1. HiSize(n, r) = 0
      BY <1>2 DEF HiSize, Empty
    <2>2. HiSize(m, r) \in Nat
      <3>1. CASE m = 0
        BY <3>1 DEF HiSize, Empty
      <3>2. CASE m # 0
        BY <3>2, <1>2, QNNat, CeilDiv DEF HiSize, Empty
      <3> QED BY <3>1, <3>2
    <2> QED BY <2>1, <2>2
  <1>3. CASE QN(r) # 0 /\ n # 0
    <2> DEFINE q == QN(r)
    <2>1. q \in Nat \ {0} /\ n > 0 /\ m > 0
      BY <1>3, QNNat
    <2>2. HiSize(n, r) = (n + q - 1) \div q /\ HiSize(m, r) = (m + q - 1) \div q
      BY <1>3, <2>1 DEF HiSize, Empty
    <2>3. (HiSize(n, r) - 1) * q < n /\ HiSize(m, r) * q >= m /\ HiSize(n, r) \in Nat /\ HiSize(m, r) \in Nat
      BY <2>1, <2>2, CeilDiv
    <2>4. ASSUME HiSize(n, r) - 1 >= HiSize(m, r) PROVE FALSE
      <3>1. (HiSize(n, r) - 1) * q >= HiSize(m, r) * q
        BY <2>1, <2>3, <2>4, MulMono
      <3> QED BY <2>3, <3>1, <2>1, Z3
    <2> QED BY <2>3, <2>4, Z3
  <1> QED BY <1>1, <1>2, <1>3
=============================================================================
