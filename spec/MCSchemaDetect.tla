--------------------------- MODULE MCSchemaDetect ---------------------------
(* Every state is one directory configuration of the box around the supported versions; TLC checks *)
(* the decision table's own properties and emits every state as a test case.                       *)
EXTENDS SchemaDetect, Json, TLC

CONSTANTS Majors, Minors, Patches

VARIABLE s

\* (present-but-empty files are added to the emitted cases by the check script for a selection of versions)
Init == s \in [t : Majors \X Minors \X Patches, variant : {"os", "desktop"}, legacy : BOOLEAN, db2 : BOOLEAN, legacyE : {FALSE}, db2E : {FALSE}]
Next == UNCHANGED s
Spec == Init /\ [][Next]_s

Inv == /\ TableOK
       /\ Expected(s).kind \in {"ok", "throw", "loose"}
       /\ (Expected(s).kind = "ok" => Expected(s).schema \in AllNames)

EmitCase == PrintT("CASE " \o ToJson([maj |-> s.t[1], min |-> s.t[2], pat |-> s.t[3], variant |-> s.variant,
                                     legacy |-> s.legacy, db2 |-> s.db2]))
=============================================================================
