------------------------------ MODULE ChangeLog ------------------------------
(***************************************************************************)
(* The change log and the information row of a schema-2.x library, as the    *)
(* table API (change_log_table, information_table, track_table) maintains     *)
(* them.                                                                     *)
(*                                                                           *)
(* ChangeLog is an append-only table (id INTEGER PRIMARY KEY AUTOINCREMENT,   *)
(* trackId).  Rows are appended by change_log_table::add and - behind the     *)
(* API - by the schema's triggers:                                            *)
(*   trigger_after_update_Track            every UPDATE of a Track row logs   *)
(*                                         the row's id;                      *)
(*   trigger_after_{insert,update}_Track_fix_origin                           *)
(*                                         a row written without origin id /  *)
(*                                         uuid is UPDATEd once more (which   *)
(*                                         logs it once more).                *)
(* track_table::remove emulates the inert ON DELETE SET NULL: the entries of   *)
(* the removed track stay, their trackId becomes NULL (read back as 0).        *)
(* From 2.20.3 the table is gone and change_log() refuses (HasLog = FALSE).   *)
(*                                                                           *)
(* The information row is written once at creation; the API can change the     *)
(* current-played indicator and nothing else.                                 *)
(*                                                                           *)
(* One operator (Apply) gives outcome and successor store of every operation; *)
(* the MC instance enumerates all short operation sequences and prints them;   *)
(* TraceChangeLog validates executions of the real table API against Apply.   *)
(***************************************************************************)
EXTENDS Naturals, Integers, Sequences, FiniteSets, SequencesExt, Json, TLC

CONSTANTS HasLog,      \* the schema has a ChangeLog table (before 2.20.3); kept in the store as `has`
          MaxT,        \* at most this many tracks are ever added
          MaxOps,      \* length of the generated operation sequences
          Values       \* played-indicator values to write

VARIABLES st, hist

Entry(id, tid) == [id |-> id, tid |-> tid]
EmptyOf(has) == [has |-> has, T |-> {}, D |-> {}, ts |-> 0, L |-> <<>>, cs |-> 0, cpi |-> "0", mods |-> <<>>]
EmptyLog == EmptyOf(HasLog)

\* the harness's row generator leaves the origin columns empty for variants divisible by 3
Missing(v) == v % 3 = 0
OriginCols == {"origin_track_id", "origin_database_uuid"}

Ids(L) == [k \in 1 .. Len(L) |-> L[k].id]
Count(L, t) == Cardinality({k \in 1 .. Len(L) : L[k].tid = t})
Bump(m, t, n) == IF t \in DOMAIN m THEN [m EXCEPT ![t] = @ + n] ELSE (t :> n) @@ m

\* n entries for track t appended by the triggers
Logged(S, t, n) ==
    IF S.has THEN [S EXCEPT !.L = @ \o [k \in 1 .. n |-> Entry(S.cs + k, t)], !.cs = @ + n, !.mods = Bump(@, t, n)]
    ELSE S

Res(ok, new, s) == [ok |-> ok, new |-> new, s |-> s]

Apply(o, S) ==
    CASE o.op = "t_add" ->
            LET id == S.ts + 1 IN
            Res(TRUE, id, Logged([S EXCEPT !.T = @ \cup {id}, !.ts = id], id, IF Missing(o.variant) THEN 1 ELSE 0))
      [] o.op = "t_update" ->           \* UPDATE ... WHERE id = ? : a row that does not exist is silently not updated
            IF o.id \in S.T THEN Res(TRUE, 0, Logged(S, o.id, IF Missing(o.variant) THEN 2 ELSE 1))
            ELSE Res(TRUE, 0, S)
      [] o.op = "t_set" ->              \* per-column setters check the row count
            IF o.id \in S.T THEN Res(TRUE, 0, Logged(S, o.id, IF o.col \in OriginCols /\ Missing(o.variant) THEN 2 ELSE 1))
            ELSE Res(FALSE, 0, S)
      [] o.op = "t_remove" ->
            IF o.id \in S.T
            THEN Res(TRUE, 0, [S EXCEPT !.T = @ \ {o.id}, !.D = @ \cup {o.id},
                                        !.L = [k \in 1 .. Len(@) |-> IF @[k].tid = o.id THEN Entry(@[k].id, 0) ELSE @[k]],
                                        !.mods = [t \in DOMAIN @ \ {o.id} |-> @[t]]])
            ELSE Res(FALSE, 0, S)
      [] o.op = "cl_add" ->
            IF S.has THEN Res(TRUE, S.cs + 1, [S EXCEPT !.L = Append(@, Entry(S.cs + 1, o.t)), !.cs = @ + 1,
                                                          !.mods = IF o.t \in S.T THEN Bump(@, o.t, 1) ELSE @])
            ELSE Res(FALSE, 0, S)
      [] o.op = "info_set" -> Res(TRUE, 0, [S EXCEPT !.cpi = ToString(o.v)])      \* (kept as decimal text: 64-bit column)
      [] OTHER -> Res(FALSE, 0, S)

\* what the read functions return
AllOf(S) == S.L
AfterOf(S, k) == SelectSeq(S.L, LAMBDA e : e.id > k)
LastOf(S) == IF S.L = <<>> THEN <<>> ELSE <<S.L[Len(S.L)]>>

\* ---- bounded instance: all operation sequences ----
Op(op, id, col, variant, t, v) == [op |-> op, id |-> id, col |-> col, variant |-> variant, mask |-> 0, t |-> t, v |-> v]
Known(S) == 1 .. (S.ts + 1)               \* live, removed and never handed-out ids
LegalOps(S) ==
    {Op("t_add", 0, "", v, 0, 0) : v \in {x \in {1, 3} : S.ts < MaxT}}
    \cup {Op("t_update", id, "", v, 0, 0) : id \in Known(S), v \in {2, 3}}
    \cup {Op("t_set", id, c, v, 0, 0) : id \in Known(S), c \in {"title", "origin_track_id", "origin_database_uuid"}, v \in {2, 3}}
    \cup {Op("t_remove", id, "", 0, 0, 0) : id \in Known(S)}
    \cup {Op("cl_add", 0, "", 0, t, 0) : t \in Known(S)}
    \cup {Op("info_set", 0, "", 0, 0, v) : v \in Values}

MCInit == st = EmptyLog /\ hist = <<>>
MCNext ==
    /\ Len(hist) < MaxOps
    /\ \E o \in LegalOps(st) :
          LET res == Apply(o, st) IN
          /\ st' = res.s
          /\ hist' = Append(hist, o @@ [out |-> IF res.ok THEN "ok" ELSE "throw"])
MCSpec == MCInit /\ [][MCNext]_<<st, hist>>
MCView == st
Emit == PrintT("SCRIPT " \o ToJson([h |-> hist', loop |-> (st' = st)]))

\* ---- properties of the model ----
LogInv ==
    /\ \A i, j \in 1 .. Len(st.L) : i < j => st.L[i].id < st.L[j].id          \* ids strictly increase in log order
    /\ (st.L # <<>> => st.L[Len(st.L)].id = st.cs)                             \* the newest entry carries the counter
    /\ \A k \in 1 .. Len(st.L) : st.L[k].id \in 1 .. st.cs
    /\ (~st.has => st.L = <<>> /\ st.cs = 0)
    /\ st.T \cap st.D = {} /\ st.T \cup st.D = 1 .. st.ts                       \* track ids are never handed out twice
\* every successful modification of a live track is in the log (that is what the table is for)
\* (an entry may also have been added through the API before the id was handed out, hence >=)
Complete == st.has => \A t \in DOMAIN st.mods : t \in st.T /\ Count(st.L, t) >= st.mods[t]
\* reads are consistent with each other
ReadsInv ==
    /\ \A k \in 0 .. st.cs + 1 : SelectSeq(st.L, LAMBDA e : e.id <= k) \o AfterOf(st, k) = st.L
    /\ AfterOf(st, 0) = AllOf(st) /\ AfterOf(st, st.cs) = <<>>
    /\ (LastOf(st) # <<>> => AfterOf(st, LastOf(st)[1].id - 1) = LastOf(st))
\* action properties: the log only grows, entries keep their id and place, a track id is only ever replaced by NULL,
\* a removed track leaves no entry naming it, the counter never goes back
AppendOnly ==
    [][/\ IsPrefix(Ids(st.L), Ids(st'.L))
       /\ \A k \in 1 .. Len(st.L) : st'.L[k].tid \in {st.L[k].tid, 0}
       /\ st'.cs >= st.cs /\ st'.ts >= st.ts
       /\ \A t \in st'.D \ st.D : Count(st'.L, t) = 0]_st
=============================================================================
