SPECIFICATION MCSpec
CONSTANTS
  Family = "v2"
  ValidNames = {"a", "b"}
  InvalidNames = {"", "x;y"}
  DupPolicy = "reject"
  PosPolicy = "tail"
  MaxCrates = 4
  MaxTracks = 0
  MaxOps = 5
  WithTracks = FALSE
VIEW MCView
INVARIANTS TypeOK ForestInv QueriesAgree MemInv
PROPERTIES NoResurrection TracksNoResurrection RejectNoEffect OrderStable MemFrame
ACTION_CONSTRAINT Emit
CHECK_DEADLOCK FALSE
