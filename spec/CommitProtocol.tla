--------------------------- MODULE CommitProtocol ---------------------------
(***************************************************************************)
(* What a COMMIT of the library's connection does to the database FILES,    *)
(* step by step, and what a process that dies between two steps leaves       *)
(* behind once the library is loaded again: SQLite's rollback-journal commit *)
(* for a transaction that changed several attached database files.           *)
(*                                                                         *)
(* The library opens ":memory:" as the main database and ATTACHes m.db       *)
(* ("music") and, in the 1.x family, p.db ("perfdata").  With an in-memory    *)
(* main database SQLite writes NO master journal, so a transaction that       *)
(* changed both files is committed file by file (UseMaster = FALSE): each      *)
(* file is atomic by itself, the files commit in attach order, and a process   *)
(* that dies in between leaves a PREFIX of them committed.  With a master      *)
(* journal (UseMaster = TRUE, what a file-backed main database would give)     *)
(* the deletion of the master journal is the single commit point.              *)
(*                                                                         *)
(* Outcomes(useMaster, files) is the set of possible results (which files      *)
(* hold the new content after recovery); TLC checks that the protocol below    *)
(* yields exactly those (OutcomeOK, AllOutcomesReachable is checked by the      *)
(* check script from the printed outcomes), and TraceCommit uses the same       *)
(* operator on the outcomes a dying process really left (harness/libdriver,     *)
(* flag syscrash: the process dies right before the n-th file-modifying system  *)
(* call of SQLite's VFS, n = 1, 2, ...).                                        *)
(***************************************************************************)
EXTENDS Integers, Sequences, FiniteSets, TLC

CONSTANTS Files,        \* sequence of the files the transaction changed, in attach order
          UseMaster

ToSet(s) == {s[i] : i \in DOMAIN s}
Prefixes(s) == {ToSet(SubSeq(s, 1, n)) : n \in 0 .. Len(s)}
\* which files may hold the new content after a crash at an arbitrary point and recovery
Outcomes(useMaster, files) == IF useMaster \/ Len(files) <= 1 THEN {{}, ToSet(files)} ELSE Prefixes(files)

VARIABLES jrnl,     \* file -> "none" | "hot"  (rollback journal holding the original pages)
          named,    \* file -> the journal names the master journal
          db,       \* file -> "old" | "mixed" | "new"
          mj,       \* master journal: "none" | "present" | "deleted"
          pc,       \* "txn" | "sync" | "write" | "point" | "clean" | "done" | "crashed" | "recovered"
          i         \* index of the file the current phase works on

vars == <<jrnl, named, db, mj, pc, i>>
F == ToSet(Files)

Init ==
    /\ jrnl = [f \in F |-> "none"] /\ named = [f \in F |-> FALSE] /\ db = [f \in F |-> "old"]
    /\ mj = "none" /\ pc = "txn" /\ i = 1

\* during the transaction: the first change of a file saves the original pages in its journal (page changes stay in the cache)
Journal == /\ pc = "txn" /\ i <= Len(Files)
           /\ jrnl' = [jrnl EXCEPT ![Files[i]] = "hot"] /\ i' = i + 1
           /\ UNCHANGED <<named, db, mj, pc>>
\* COMMIT, phase one: [master journal written], then for every file: journal finalised (naming the master), pages written, synced
StartCommit == /\ pc = "txn" /\ i > Len(Files)
               /\ mj' = IF UseMaster /\ Len(Files) > 1 THEN "present" ELSE mj
               /\ pc' = "sync" /\ i' = 1 /\ UNCHANGED <<jrnl, named, db>>
SyncJournal == /\ pc = "sync" /\ i <= Len(Files)
               /\ named' = [named EXCEPT ![Files[i]] = (mj = "present")]
               /\ pc' = "write" /\ UNCHANGED <<jrnl, db, mj, i>>
WriteDb == /\ pc = "write"
           /\ db' = [db EXCEPT ![Files[i]] = IF @ = "old" THEN "mixed" ELSE "new"]
           /\ IF db[Files[i]] = "mixed"
              THEN (IF i = Len(Files) THEN pc' = "point" /\ i' = 1 ELSE pc' = "sync" /\ i' = i + 1)
              ELSE UNCHANGED <<pc, i>>
           /\ UNCHANGED <<jrnl, named, mj>>
\* the commit point with a master journal: its deletion
DeleteMaster == /\ pc = "point"
                /\ mj' = IF mj = "present" THEN "deleted" ELSE mj
                /\ pc' = "clean" /\ UNCHANGED <<jrnl, named, db, i>>
\* phase two: the journals are deleted, one file after the other (without a master journal each deletion is that file's commit point)
DeleteJournal == /\ pc = "clean" /\ i <= Len(Files)
                 /\ jrnl' = [jrnl EXCEPT ![Files[i]] = "none"]
                 /\ i' = i + 1
                 /\ pc' = IF i = Len(Files) THEN "done" ELSE pc
                 /\ UNCHANGED <<named, db, mj>>

\* the process dies (everything it has written so far is in the files)
Crash == pc \in {"txn", "sync", "write", "point", "clean"} /\ pc' = "crashed" /\ UNCHANGED <<jrnl, named, db, mj, i>>
\* the library is loaded again: a hot journal is played back, unless it names a master journal that no longer exists
Recover ==
    /\ pc = "crashed"
    /\ db' = [f \in F |-> IF jrnl[f] = "hot" /\ ~(named[f] /\ mj = "deleted") THEN "old" ELSE db[f]]
    /\ jrnl' = [f \in F |-> "none"]
    /\ pc' = "recovered" /\ UNCHANGED <<named, mj, i>>

Next == Journal \/ StartCommit \/ SyncJournal \/ WriteDb \/ DeleteMaster \/ DeleteJournal \/ Crash \/ Recover
Spec == Init /\ [][Next]_vars

Outcome == {f \in F : db[f] = "new"}
\* no file is ever left half-written once the library has been loaded again
PerFileAtomic == pc \in {"recovered", "done"} => \A f \in F : db[f] \in {"old", "new"}
\* the files that hold the new content are one of the predicted sets
OutcomeOK == pc \in {"recovered", "done"} => Outcome \in Outcomes(UseMaster, Files)
\* with a master journal the transaction is atomic across files
AtomicAcrossFiles == pc \in {"recovered", "done"} => Outcome \in {{}, F}
\* (printed for every final state, so that the check can see that every predicted outcome is reachable)
EmitOutcome == pc' \in {"recovered", "done"} => PrintT(<<"OUTCOME", Outcome'>>)
=============================================================================
