-------------------------- MODULE TraceTrackBlobs --------------------------
(***************************************************************************)
(* C04, setter part: "reading a track, changing one field and writing it   *)
(* back never alters or drops any other byte of its performance data".     *)
(*                                                                         *)
(* The track driver stores FOREIGN blobs (payloads produced by the          *)
(* specification's own encoder EngineFormat!Enc from values the library     *)
(* never writes: other entry counts, flag bytes, unknown fields, trailing   *)
(* bytes) into the five performance-data columns of a schema-2.x track      *)
(* behind the library's back, calls single-field setters, and logs the      *)
(* un-framed payload of every blob column of every track after every call.  *)
(*                                                                         *)
(* State: bl = payloads as last observed, val = for each column the value   *)
(* it encodes where that is known (after a `foreign` step).  A setter step   *)
(* must (frame) leave every column it does not address byte-identical, on    *)
(* this and every other track, and (effect) turn an addressed column whose   *)
(* value v is known into Enc(kind, v') where v' differs from v in the        *)
(* addressed field only.                                                    *)
(***************************************************************************)
EXTENDS EngineFormat, Json, IOUtils, TLC

VARIABLES l, bl, val
tvars == <<l, bl, val>>
Log == ndJsonDeserialize(IOEnv.TRACE)

Has(r, f) == f \in DOMAIN r
ToSet(s) == {s[k] : k \in DOMAIN s}
Cols == {"trackData", "beatData", "quickCues", "loops", "overviewWaveFormData"}
KindOf(col) == CASE col = "trackData" -> "track_data2" [] col = "beatData" -> "beat_data2" [] col = "quickCues" -> "quick_cues2"
                 [] col = "loops" -> "loops2" [] OTHER -> "overview2"

\* columns a field setter may rewrite
Touched(f) ==
    CASE f \in {"hot_cues", "hot_cue_at", "main_cue"} -> {"quickCues"}
      [] f \in {"loops", "loop_at"} -> {"loops"}
      [] f = "beatgrid" -> {"beatData"}
      [] f \in {"sample_rate", "sample_count"} -> {"trackData", "beatData"}
      [] f \in {"key", "average_loudness"} -> {"trackData"}
      [] f = "waveform" -> {"overviewWaveFormData"}
      [] OTHER -> {}

Obs(r) == [id \in {x.id : x \in ToSet(r.obs.bl)} |-> (CHOOSE x \in ToSet(r.obs.bl) : x.id = id).cols]
Unknown(ids) == [id \in ids |-> [c \in Cols |-> <<>>]]

\* ---- what the addressed part of a value must become ----
EmptyCue == [label |-> <<>>, off |-> MinusOne8, a |-> 0, r |-> 0, g |-> 0, b |-> 0]
EmptyLoop == [label |-> <<>>, start |-> MinusOne8, end |-> MinusOne8, ss |-> 0, es |-> 0, a |-> 0, r |-> 0, g |-> 0, b |-> 0]
CueOf(o) == IF o = <<>> THEN EmptyCue ELSE o[1]
LoopOf(o) == IF o = <<>> THEN EmptyLoop
             ELSE [label |-> o[1].label, start |-> o[1].start, end |-> o[1].end, ss |-> 1, es |-> 1,
                   a |-> o[1].a, r |-> o[1].r, g |-> o[1].g, b |-> o[1].b]
Pad8(s, E(_), e) == [k \in 1 .. (IF Len(s) > 8 THEN Len(s) ELSE 8) |-> IF k <= Len(s) THEN E(s[k]) ELSE e]
OrZero8(o) == IF o = <<>> THEN Zero8 ELSE o[1]
Bool(x) == IF x = 0 THEN 0 ELSE 1

\* the set of values the column may hold after setter f with byte-level argument a, given its value v before;
\* {} means "no exact expectation" (then only the position rules below apply)
Expect(f, col, a, v) ==
    \* (C04: the main-cue-adjusted byte is a boolean and may be normalised from any non-zero value to 1)
    CASE f = "hot_cue_at" /\ a.i \in 0 .. Len(v.cues) - 1 -> {[v EXCEPT !.cues[a.i + 1] = CueOf(a.c), !.isadj = ia] : ia \in {v.isadj, Bool(v.isadj)}}
      [] f = "hot_cues" -> {[v EXCEPT !.cues = Pad8(a.cs, CueOf, EmptyCue), !.isadj = ia] : ia \in {v.isadj, Bool(v.isadj)}}
      [] f = "main_cue" ->            \* the main cue is three fields of the blob; cues and trailing bytes stay
            {[v EXCEPT !.adj = OrZero8(a.d), !.dflt = d, !.isadj = ia] : d \in {OrZero8(a.d), v.dflt}, ia \in {0, 1, v.isadj}}
      [] f = "loop_at" /\ a.i \in 0 .. Len(v.loops) - 1 -> {[v EXCEPT !.loops[a.i + 1] = LoopOf(a.c)]}
      [] f = "loops" -> {[v EXCEPT !.loops = Pad8(a.cs, LoopOf, EmptyLoop)]}
      [] f = "average_loudness" -> {[v EXCEPT !.low = OrZero8(a.d), !.mid = OrZero8(a.d), !.high = OrZero8(a.d)]}
      [] f = "sample_rate" -> {[v EXCEPT !.rate = OrZero8(a.d)]}
      [] OTHER -> {}

\* position rules for setters whose new field bytes are not modelled: everything outside the field stays
Suffix(p, n) == SubSeq(p, Len(p) - n + 1, Len(p))
PosOK(f, col, old, new, v) ==
    \* (track data: rate 1..8, samples 9..16, key 17..20, loudness 21..44, trailing bytes; beat data: rate 1..8, samples 9..16, ..)
    CASE f = "key" -> Len(new) = Len(old) /\ SubSeq(new, 1, 16) = SubSeq(old, 1, 16) /\ SubSeq(new, 21, Len(new)) = SubSeq(old, 21, Len(old))
      [] f = "sample_count" -> Len(new) = Len(old) /\ SubSeq(new, 1, 8) = SubSeq(old, 1, 8) /\ SubSeq(new, 17, Len(new)) = SubSeq(old, 17, Len(old))
      [] f = "beatgrid" -> Len(new) >= 33 + Len(v.extra) /\ SubSeq(new, 1, 16) = SubSeq(old, 1, 16) /\ Suffix(new, Len(v.extra)) = v.extra
      [] f = "waveform" -> Len(new) >= 27 + Len(v.extra) /\ Suffix(new, Len(v.extra)) = v.extra
      [] f \in {"hot_cue_at", "loop_at"} -> FALSE        \* an index outside the stored slots must be refused, not written somewhere
      [] OTHER -> TRUE

Set(r) ==
    \/ /\ r.out = "throw" /\ r.std /\ Obs(r) = bl /\ bl' = bl /\ val' = val
    \/ /\ r.out = "ok" /\ r.t \in DOMAIN bl
       /\ LET O == Obs(r)
              T == Touched(r.f)
              Known(c) == c \in T /\ val[r.t][c] # <<>> /\ bl[r.t][c].ok
              Exact(c) == IF Known(c) THEN Expect(r.f, c, r.inb, val[r.t][c][1]) ELSE {}
          IN
          /\ DOMAIN O = DOMAIN bl
          /\ \A id \in DOMAIN bl, c \in Cols : (id # r.t \/ c \notin T) => O[id][c] = bl[id][c]          \* frame
          /\ \A c \in T : Known(c) =>
                /\ O[r.t][c].ok
                /\ (Exact(c) # {} => \E w \in Exact(c) : O[r.t][c].p = Enc(KindOf(c), w))                 \* effect
                /\ (Exact(c) = {} => PosOK(r.f, c, bl[r.t][c].p, O[r.t][c].p, val[r.t][c][1]))
          /\ bl' = O
          /\ val' = [val EXCEPT ![r.t] = [c \in Cols |->
                        IF c \notin T THEN val[r.t][c]
                        ELSE IF Exact(c) # {} THEN <<CHOOSE w \in Exact(c) : O[r.t][c].p = Enc(KindOf(c), w)>>
                        ELSE <<>>]]

Foreign(r) ==
    /\ r.out = "ok" /\ r.t \in DOMAIN bl /\ r.col \in Cols
    /\ LET O == Obs(r) IN
       /\ DOMAIN O = DOMAIN bl
       /\ \A id \in DOMAIN bl, c \in Cols : (id # r.t \/ c # r.col) => O[id][c] = bl[id][c]
       /\ O[r.t][r.col].ok /\ O[r.t][r.col].p = r.payload
       /\ r.payload = Enc(KindOf(r.col), r.v)                  \* the script's value and payload belong together
       /\ bl' = O
    /\ val' = [val EXCEPT ![r.t][r.col] = <<r.v>>]

\* whole-snapshot writes and removals: no statement of C04; only re-synchronise (other tracks must not change)
Other(r) ==
    LET O == Obs(r)
        subj == IF r.op = "create" THEN {r.new} ELSE IF Has(r, "t") THEN {r.t} ELSE {} IN
    /\ \A id \in (DOMAIN bl \cap DOMAIN O) \ subj : O[id] = bl[id]
    /\ bl' = O
    /\ val' = [id \in DOMAIN O |-> IF id \in DOMAIN val /\ id \notin subj THEN val[id] ELSE [c \in Cols |-> <<>>]]

\* C16 on tracks holding foreign blobs: the observation phase (all getters, snapshot(), twice) issued no write statement,
\* changed no row and left the digest of all tables as it was - a getter must not "repair" or re-encode what it reads
NoWrite(r) == r.o16.w = 0 /\ r.o16.chg = 0 /\ (Has(r.o16, "same") => r.o16.same) /\ (Has(r.o16, "rep") => r.o16.rep)

TCall ==
    /\ l <= Len(Log)
    /\ LET r == Log[l] IN
       /\ r.e = "call" /\ Has(r, "obs") /\ Has(r.obs, "bl") /\ NoWrite(r)
       /\ CASE r.op = "set" -> Set(r)
            [] r.op = "foreign" -> Foreign(r)
            [] OTHER -> Other(r)
    /\ l' = l + 1

TReset ==
    /\ l <= Len(Log)
    /\ LET r == Log[l] IN r.e = "reset" /\ r.out = "ok"
    /\ bl' = <<>> /\ val' = <<>>
    /\ l' = l + 1

TSkip == l <= Len(Log) /\ Log[l].e = "skip" /\ l' = l + 1 /\ UNCHANGED <<bl, val>>

TInit == l = 1 /\ bl = <<>> /\ val = <<>>
TNext == TCall \/ TReset \/ TSkip
TSpec == TInit /\ [][TNext]_tvars
Accepted == TLCGet("stats").diameter - 1 = Len(Log)
=============================================================================
