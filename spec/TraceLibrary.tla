---------------------------- MODULE TraceLibrary ----------------------------
(***************************************************************************)
(* Trace validation of the real library against Library.tla.               *)
(*                                                                         *)
(* The log is the ndjson file written by harness/libdriver: one record per *)
(* public call, taken at the call's return, holding the call, its          *)
(* arguments (real ids), its outcome and the complete observation made     *)
(* through the public queries afterwards.  Each record must be explained   *)
(* by the Library action of the same name; whatever the log does not say   *)
(* (insert position, duplicate-name policy) is chosen by TLC and pinned by *)
(* the observation.  Executions are concatenated; a "reset" record starts  *)
(* a fresh library.  All invariants of Library are evaluated in every      *)
(* trace state.                                                            *)
(***************************************************************************)
EXTENDS RawStore, Json, IOUtils, TLCExt

VARIABLES ident,     \* uuid() / version_name() of the library as first observed: constant for the life of the library (C10)
          probing,   \* the execution has left the modelled domain (C15 probes): only safety is judged
          l,         \* index of the next log record
          tinfo      \* track id -> [path, base, ext] as given to create_track (inputs, for C11)

Log == ndJsonDeserialize(IOEnv.TRACE)

tvars == <<vars, l, tinfo, probing, ident>>

Opt(x) == IF x = Root THEN <<>> ELSE <<x>>          \* options are logged as arrays of length <= 1
SetOpt(S) == IF S = {} THEN {<<>>} ELSE {<<x>> : x \in S}

-----------------------------------------------------------------------------
(* The observation recorded after a call must be exactly what the queries  *)
(* return in the abstract state (passed explicitly so that it can be the    *)
(* primed state).                                                          *)
ObsOK(o, F, L, D, P, N, K, TL, TD, M) ==
    LET crs == ToSet(o.cr) IN
    \* crates(): every live crate exactly once
    /\ ToSet(o.all) = L /\ Len(o.all) = Cardinality(L)
    \* root_crates(): exactly the parentless crates; in 2.x in sibling order
    /\ IF F = "v2" THEN o.roots = K[Root]
       ELSE ToSet(o.roots) = ChildrenIn(L, P, Root) /\ NoDup(o.roots)
    \* one record per live crate
    /\ {r.id : r \in crs} = L /\ Len(o.cr) = Cardinality(L)
    /\ \A r \in crs :
         /\ r.v = TRUE
         /\ r.nm = N[r.id]
         /\ r.par = Opt(P[r.id])
         /\ IF F = "v2" THEN r.ch = K[r.id]
            ELSE ToSet(r.ch) = ChildrenIn(L, P, r.id) /\ NoDup(r.ch)
         /\ ToSet(r.de) = DescIn(L, P, r.id) /\ NoDup(r.de)
         /\ IF F = "v2" THEN r.tr = M[r.id]
            ELSE ToSet(r.tr) = ToSet(M[r.id]) /\ NoDup(r.tr)
         /\ \A s \in ToSet(r.sub) :
              s.r \in SetOpt({d \in L : P[d] = r.id /\ N[d] = s.n})
    \* handles to removed crates: is_valid() = false, id() unchanged
    /\ \A s \in ToSet(o.stale) : s.id \in D /\ s.v = FALSE
    \* lookups
    /\ \A b \in ToSet(o.byid) : b.r = (b.id \in L) /\ (b.r => b.rid = b.id)
    /\ \A b \in ToSet(o.byname) : ToSet(b.r) = {c \in L : N[c] = b.n} /\ NoDup(b.r)
    /\ \A b \in ToSet(o.rootby) : b.r \in SetOpt({c \in L : P[c] = Root /\ N[c] = b.n})
    \* tracks
    /\ ToSet(o.tracks) = TL /\ Len(o.tracks) = Cardinality(TL)
    /\ {r.id : r \in ToSet(o.tk)} = TL
    /\ \A r \in ToSet(o.tk) :
         /\ r.v = TRUE
         /\ r.bypath = <<r.id>>
         /\ IF F = "v2" THEN r.in = "unsupported"
            ELSE ToSet(r.in) = {c \in L : r.id \in ToSet(M[c])} /\ NoDup(r.in)
    /\ \A s \in ToSet(o.tstale) : s.id \in TD /\ s.v = FALSE
    \* track_by_id: a live track is found, a removed one is not.  (Ids that were never handed out are
    \* left open: from 1.17.0 the schema keeps a NULL placeholder row above the highest id, which
    \* track_by_id() reports although tracks() skips it - no listed property speaks about that.)
    /\ \A b \in ToSet(o.tbyid) : (b.id \in TL => b.r) /\ (b.id \in TD => ~b.r)

\* The same state as a SECOND connection to the same directory sees it (driver flag conn2: a database object loaded while
\* the first stays open; some calls go through it).  MultiConn.tla: every connection's view is the shared state at every
\* call boundary - nothing observable is cached per connection.
Obs2OK(o, F, L, D, P, N, K, TL, M) ==
    /\ ToSet(o.all) = L /\ Len(o.all) = Cardinality(L)
    /\ IF F = "v2" THEN o.roots = K[Root] ELSE ToSet(o.roots) = ChildrenIn(L, P, Root) /\ NoDup(o.roots)
    /\ {r.id : r \in ToSet(o.cr)} = L /\ Len(o.cr) = Cardinality(L)
    /\ \A r \in ToSet(o.cr) :
         /\ r.v = TRUE
         /\ r.nm = N[r.id]
         /\ r.par = Opt(P[r.id])
         /\ IF F = "v2" THEN r.ch = K[r.id] ELSE ToSet(r.ch) = ChildrenIn(L, P, r.id) /\ NoDup(r.ch)
         /\ ToSet(r.de) = DescIn(L, P, r.id) /\ NoDup(r.de)
         /\ IF F = "v2" THEN r.tr = M[r.id] ELSE ToSet(r.tr) = ToSet(M[r.id]) /\ NoDup(r.tr)
    /\ ToSet(o.tracks) = TL /\ Len(o.tracks) = Cardinality(TL)
    /\ {r.id : r \in ToSet(o.tk)} = TL
    /\ \A r \in ToSet(o.tk) :
         /\ r.v = TRUE
         /\ IF F = "v2" THEN r.in = "unsupported" ELSE ToSet(r.in) = {c \in L : r.id \in ToSet(M[c])} /\ NoDup(r.in)
    \* a handle of the first connection whose crate the second connection no longer finds is invalid, whoever removed it
    /\ \A x \in ToSet(o.stale) : x.id \in D /\ x.v = FALSE
\* Observation bookkeeping (C16): the observation phase issued no write statement, changed no
\* row, left the raw digest (and the files) as they were, and a repeated observation agreed.
NoWrite(r) ==
    /\ r.o16.w = 0 /\ r.o16.chg = 0
    /\ ("same" \in DOMAIN r.o16 => r.o16.same)
    /\ ("rep" \in DOMAIN r.o16 => r.o16.rep)
    /\ ("files" \in DOMAIN r.o16 => r.o16.files)

ObsNow(r) == ObsOK(r.obs, fam', live', dead', par', nm', kids', tlive', tdead', mem')

\* C11: when the record carries the raw projection, it must store exactly the abstract state.
RawNow(r, TI) ==
    "raw" \in DOMAIN r =>
        IF fam' = "v2" THEN RawV2OK(r.raw, live', par', nm', kids', tlive', mem', TI)
        ELSE RawV1OK(r.raw, live', par', nm', tlive', mem', TI)

-----------------------------------------------------------------------------
Has(r, f) == f \in DOMAIN r
Obs2Now(r) == Has(r, "obs2") => Obs2OK(r.obs2, fam', live', dead', par', nm', kids', tlive', mem')
\* uuid(), version_name() and directory() answer as they did when the library was created - through every connection
IdentOK(r, id) == /\ (Has(r.obs, "ident") => r.obs.ident = id)
                  /\ (Has(r, "obs2") /\ Has(r.obs2, "ident") => r.obs2.ident = id)
Faulted(r) == Has(r, "fault") /\ r.fault.fired

Step(r) ==
    CASE r.op = "create_root" -> CreateRoot(r.n, r.new)
      [] r.op = "create_root_after" -> CreateRootAfter(r.n, r.after, r.new)
      [] r.op = "create_sub" -> CreateSub(r.c, r.n, r.new)
      [] r.op = "create_sub_after" -> CreateSubAfter(r.c, r.n, r.after, r.new)
      [] r.op = "set_name" -> SetName(r.c, r.n)
      [] r.op = "set_parent" -> SetParent(r.c, r.p)
      [] r.op = "remove_crate" -> RemoveCrate(r.c)
      [] r.op = "create_track" -> CreateTrack(r.new)
      [] r.op = "remove_track" -> RemoveTrack(r.t)
      [] r.op = "add_track" -> AddTrack(r.c, r.t)
      [] r.op = "add_tracks" -> AddTracks(r.c, r.ts)
      [] r.op = "remove_track_from" -> RemoveTrackFrom(r.c, r.t)
      [] r.op = "clear_tracks" -> ClearTracks(r.c)
      [] OTHER -> FALSE

\* C15: an unmodelled call - on a handle to a removed crate or track, with an id of a nonexistent
\* entity, a crate from elsewhere in the tree or an extreme argument.  Whatever it does to the
\* library, it must complete or throw an exception derived from std::exception, and so must every
\* observer applied afterwards (a crash, hang or sanitizer report ends the trace before this record).
\* C07 on the observation alone.  After an unmodelled call the abstract state is unknown, but whatever was done - also through
\* handles to removed crates, with crates of another library object or with ids of nothing as arguments - the structural queries
\* still have to describe ONE well-formed forest: every crate listed once, parent() absent or a listed crate, children(c) exactly
\* the crates whose parent is c, root_crates() exactly the parentless ones, no crate among its own ancestors, descendants = the
\* transitive closure of children.
SelfForestOK(o) ==
    LET L == ToSet(o.all)
        crs == ToSet(o.cr)
        P == [c \in L |-> LET x == CHOOSE y \in crs : y.id = c IN IF x.par = <<>> THEN Root ELSE x.par[1]] IN
    /\ Len(o.all) = Cardinality(L)
    /\ {x.id : x \in crs} = L /\ Len(o.cr) = Cardinality(L)
    /\ \A x \in crs : x.v = TRUE /\ (x.par # <<>> => x.par[1] \in L)
    /\ \A x \in crs : ToSet(x.ch) = {d \in L : P[d] = x.id} /\ NoDup(x.ch)
    /\ ToSet(o.roots) = {c \in L : P[c] = Root} /\ NoDup(o.roots)
    /\ \A x \in crs : x.id \notin AncestorsIn(L, P, x.id) /\ ToSet(x.de) = DescIn(L, P, x.id) /\ NoDup(x.de)

TProbe ==
    /\ l <= Len(Log)
    /\ LET r == Log[l] IN
       /\ r.e = "call" /\ Has(r, "probe")
       /\ (Has(r, "obs") => SelfForestOK(r.obs))
       \* C11 on the stored rows alone: whatever was called with whatever arguments, SQLite's integrity and foreign-key checks stay
       \* clean and verify() passes (a membership row naming a crate or a track that does not exist is a foreign-key violation)
       /\ (Has(r, "raw") => Sane(r.raw))
       /\ r.out \in {"ok", "throw"} /\ (r.out = "throw" => r.std)
       /\ (Has(r, "obs_throw") => r.obs_throw.std)
       /\ (Has(r, "probes") => \A k \in DOMAIN r.probes : r.probes[k].std)
       \* handles to removed crates stay safe to copy, assign and ask for their id
       /\ (Has(r, "probes") => r.probes.id.ok /\ r.probes.copy.ok /\ r.probes.is_valid.ok)
    /\ probing' = TRUE
    /\ l' = l + 1 /\ UNCHANGED <<vars, tinfo, ident>>

TCall ==
    /\ l <= Len(Log)
    /\ ~probing
    /\ LET r == Log[l] IN
       /\ r.e = "call" /\ ~Has(r, "probe")
       /\ Has(r, "obs")                       \* the observation itself completed
       /\ (Has(r, "ac") => r.ac)            \* the call returned with no transaction left open on its connection (C14)
       /\ IF Faulted(r)
          THEN Failed(Call(r.op, 0, 0, "", 0, 0))     \* C14: a failed statement => throw, no effect
          ELSE Step(r)
       /\ last'.out = r.out
       /\ (r.out = "throw" => r.std)          \* only exceptions derived from std::exception
       /\ (Faulted(r) => r.dsame)            \* ... and the stored tables are byte-identical
       /\ ObsNow(r) /\ Obs2Now(r)
       /\ NoWrite(r)
       /\ tinfo' = IF r.op = "create_track" /\ r.out = "ok"
                   THEN (r.new :> [path |-> r.path, base |-> r.base, ext |-> r.ext]) @@ tinfo
                   ELSE tinfo
       /\ RawNow(r, tinfo')
       /\ IdentOK(r, ident)
    /\ l' = l + 1 /\ UNCHANGED <<probing, ident>>

\* Closing every handle and loading the library again: nothing observable changes, the loader
\* reports the schema the library was created with (C10).
\* A "crash" record (library on disk): the call of this record was attempted in another process, which died right
\* before stepping its k-th statement (no destructor, no ROLLBACK); the library was then loaded again.  While the
\* stored tables are unchanged (dsame) nothing observable may have changed either - same rule as a reopen.  (Once the
\* tables differ the dead process had committed: the driver logs that attempt as the call itself, and TCall demands
\* the complete effect of the call - a partial update after a crash is a trace no action explains.)
TReopen ==
    /\ l <= Len(Log)
    /\ LET r == Log[l] IN
       /\ r.e \in {"reopen", "crash"}
       /\ (r.e = "crash" => r.dsame /\ ~Has(r, "childdied"))
       /\ r.out = "ok" /\ Has(r, "obs")
       /\ Reopen
       /\ r.exists = TRUE
       /\ r.loaded = r.want
       \* closing the last handle and loading again left every table of every attached database, and the files, as they were
       /\ (Has(r, "csame") => r.csame) /\ (Has(r, "cfiles") => r.cfiles)
       /\ ObsOK(r.obs, fam', live', {}, par', nm', kids', tlive', {}, mem')   \* no handle survives
       /\ Obs2Now(r)
       /\ NoWrite(r)
       /\ RawNow(r, tinfo)
       /\ IdentOK(r, ident)
    /\ ~probing
    /\ l' = l + 1 /\ UNCHANGED <<tinfo, probing, ident>>

TReset ==
    /\ l <= Len(Log)
    /\ LET r == Log[l] IN
       /\ r.e = "reset" /\ r.out = "ok" /\ Has(r, "obs")
       \* (library files converted to WAL journal mode by another client: the first load + close left them byte-identical, C16)
       /\ (Has(r, "walsame") => r.walsame)
       /\ fam' = r.family
       /\ live' = {} /\ dead' = {} /\ par' = <<>> /\ nm' = <<>>
       /\ kids' = [x \in {Root} |-> <<>>]
       /\ tlive' = {} /\ tdead' = {} /\ mem' = <<>>
       /\ last' = [op |-> "reset", c |-> 0, p |-> 0, n |-> "", t |-> 0, a |-> 0, out |-> "ok", new |-> 0]
       /\ kf' = ""
       /\ ObsNow(r) /\ Obs2Now(r)
       /\ NoWrite(r)
       /\ tinfo' = <<>>
       /\ RawNow(r, <<>>)
       /\ ident' = (IF Has(r.obs, "ident") THEN r.obs.ident ELSE <<>>)
       /\ IdentOK(r, ident')
    /\ probing' = FALSE
    /\ l' = l + 1

TInit == InitWith("v2") /\ l = 1 /\ tinfo = <<>> /\ probing = FALSE /\ ident = <<>>
TNext == TCall \/ TProbe \/ TReopen \/ TReset
TSpec == TInit /\ [][TNext]_tvars

\* Known findings matched by the trace are reported on the way (the validator collects them).
KfNote == kf' = "" \/ PrintT(<<"KF", l, kf'>>)

\* Acceptance: every record was consumed.
Accepted == TLCGet("stats").diameter - 1 = Len(Log)
=============================================================================
