------------------------------- MODULE BlobWF -------------------------------
(***************************************************************************)
(* C11, "every stored performance blob decodes", judged by an independent  *)
(* reader: the structural grammar of the eleven payload layouts of         *)
(* EngineFormat.tla, as a predicate on bytes.  WF(kind, n, s, c2) says     *)
(* that a payload of n bytes whose leading bytes are s is a well-formed    *)
(* blob of that kind: every embedded count is non-negative, the entries it *)
(* announces are there, variable-length labels stay inside the payload,    *)
(* the fixed tail follows, and (1.x, which has no trailing data) nothing   *)
(* is left over.  It is the inverse reading of Enc: for every value v,     *)
(* WF(kind, Len(Enc(kind, v)), Enc(kind, v), ..) holds (checked by TLC on  *)
(* the samples of DecoderInputs.tla, MCBlobWF), and no proper prefix of a  *)
(* 1.x payload is well-formed.                                             *)
(*                                                                         *)
(* Large payloads (waveforms, long grids) are not logged in full: s is     *)
(* then the first bytes only, n the true length and c2 the eight bytes of  *)
(* the second grid count of a beat-data payload (their position depends on *)
(* the first count); every formula below reads s only at positions the     *)
(* harness always logs (1 .. 32) unless n itself is small.                 *)
(***************************************************************************)
EXTENDS Integers, Sequences

\* unsigned 64-bit big-endian at s[i .. i+7], -1 when it does not fit 31 bits
U64(s, i) == IF s[i] # 0 \/ s[i + 1] # 0 \/ s[i + 2] # 0 \/ s[i + 3] # 0 \/ s[i + 4] >= 128 THEN -1
             ELSE ((s[i + 4] * 256 + s[i + 5]) * 256 + s[i + 6]) * 256 + s[i + 7]
U64LE(s, i) == IF s[i + 7] # 0 \/ s[i + 6] # 0 \/ s[i + 5] # 0 \/ s[i + 4] # 0 \/ s[i + 3] >= 128 THEN -1
               ELSE ((s[i + 3] * 256 + s[i + 2]) * 256 + s[i + 1]) * 256 + s[i]

\* k entries of (1 length byte, label, fx fixed bytes) starting at pos: the position after them, or -1
RECURSIVE Entries(_, _, _, _, _)
Entries(s, n, pos, k, fx) ==
    IF k = 0 THEN pos
    ELSE IF pos > n THEN -1
    ELSE LET L == s[pos] IN
         IF pos + L + fx > n THEN -1 ELSE Entries(s, n, pos + 1 + L + fx, k - 1, fx)

Counted(s, n, c, fx, tail, exact) ==
    /\ c >= 0 /\ c <= n
    /\ LET e == Entries(s, n, 9, c, fx) IN
       /\ e # -1
       /\ IF exact THEN e + tail = n + 1 ELSE e + tail <= n + 1

TwoGrids(s, n, c2, exact) ==
    /\ n >= 33
    /\ LET n1 == U64(s, 18)
           n2 == U64(c2, 1) IN
       /\ n1 >= 0 /\ n2 >= 0
       /\ 33 + 24 * (n1 + n2) <= n                \* (1.x: the decoder accepts trailing zero bytes, so no equality here)

SameCounts(s, n, per, fixed, exact) ==
    /\ n >= fixed
    /\ LET c == U64(s, 1) IN
       /\ c >= 0 /\ c = U64(s, 9)
       /\ IF exact THEN fixed + per * c = n ELSE fixed + per * c <= n

WF(kind, n, s, c2) ==
    CASE kind = "track_data2" -> n >= 44
      [] kind = "track_data1" -> n = 28
      [] kind = "beat_data2" -> TwoGrids(s, n, c2, FALSE)
      [] kind = "beat_data1" -> TwoGrids(s, n, c2, FALSE)
      [] kind = "overview2" -> SameCounts(s, n, 3, 27, FALSE)
      [] kind = "overview1" -> SameCounts(s, n, 3, 27, TRUE)
      [] kind = "hires1" -> SameCounts(s, n, 6, 30, TRUE)
      [] kind = "quick_cues2" -> n >= 25 /\ Counted(s, n, U64(s, 1), 12, 17, FALSE)
      [] kind = "quick_cues1" -> n >= 25 /\ Counted(s, n, U64(s, 1), 12, 17, TRUE)
      [] kind = "loops2" -> n >= 8 /\ Counted(s, n, U64LE(s, 1), 22, 0, FALSE)
      [] kind = "loops1" -> n >= 8 /\ Counted(s, n, U64LE(s, 1), 22, 0, TRUE)
      [] OTHER -> FALSE
=============================================================================
