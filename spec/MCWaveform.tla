----------------------------- MODULE MCWaveform -----------------------------
(* Bounded evaluation of the C19 properties and generation of the test points that are replayed *)
(* through the compiled functions: every state of this model is one (sample count, rate) point.  *)
EXTENDS Waveform, Sequences, Json, TLC

CONSTANTS NMax,     \* dense range of sample counts 0..NMax
          Rates,    \* integer sample rates (floor of the double passed to the library)
          Mults     \* multiples k: sample counts around k * QN(r) are added for every rate

VARIABLE pt

Around(r) == IF QN(r) = 0 THEN {} ELSE
             {k * QN(r) + d : k \in {m \in Mults : m <= 1000000000 \div QN(r)}, d \in -2 .. 2} \cap Nat

Init == pt \in {[n |-> n, r |-> r] : n \in (0 .. NMax), r \in Rates}
           \cup UNION {{[n |-> n, r |-> r] : n \in Around(r)} : r \in Rates}
Next == UNCHANGED pt
Spec == Init /\ [][Next]_pt

PointInv == /\ PointOK(pt.n, pt.r)
            /\ Monotone(pt.n, pt.n + 1, pt.r)

EmitPt == PrintT("PT " \o ToJson(pt))
=============================================================================
