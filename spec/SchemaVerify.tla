---------------------------- MODULE SchemaVerify ----------------------------
(***************************************************************************)
(* C17: verify() reports every single structural deviation.                *)
(*                                                                         *)
(* A schema is the inventory an independent reader extracts from a library *)
(* the code has just created (sqlite_master, PRAGMA table_info /           *)
(* index_list / index_info):                                               *)
(*   tables  : set of [db, name, cols]  cols = sequence of                 *)
(*             [name, type, notnull, dflt, pk]                             *)
(*   indices : set of [db, name, table, unique, origin, cols]              *)
(*   views   : set of [db, name]                                           *)
(* A mutation changes exactly one element; Apply gives the mutated         *)
(* inventory.  verify() must accept the unmutated library and report       *)
(* database_inconsistency for every mutation that is a deviation.          *)
(***************************************************************************)
EXTENDS Integers, Sequences, FiniteSets

\* Names that occur nowhere in any schema.  verify() walks sorted listings of names, so WHERE a new name sorts matters:
\* one that sorts before every name of the schemas, one in the middle, one after all of them (and after "sqlite_...").
FreshNames == {"AA_verif_new", "Mm_verif_new", "zz_verif_new"}
Fresh == "zz_verif_new"
NoDflt == "<NULL>"

ColNames(t) == {t.cols[k].name : k \in DOMAIN t.cols}
OtherType(ty) == IF ty = "TEXT" THEN "INTEGER" ELSE "TEXT"
Created(inv) == {i \in inv.indices : i.origin = "c"}      \* indices made by CREATE INDEX (not by constraints)

\* All single-element mutations of an inventory
Mutations(inv) ==
       {[k |-> "drop_table", db |-> t.db, t |-> t.name, c |-> "", i |-> "", n |-> Fresh] : t \in inv.tables}
  \cup {[k |-> "rename_table", db |-> t.db, t |-> t.name, c |-> "", i |-> "", n |-> f] : t \in inv.tables, f \in FreshNames}
  \cup {[k |-> "add_table", db |-> d, t |-> f, c |-> "", i |-> "", n |-> f] : d \in {t.db : t \in inv.tables}, f \in FreshNames}
  \cup {[k |-> "drop_view", db |-> v.db, t |-> v.name, c |-> "", i |-> "", n |-> Fresh] : v \in inv.views}
  \cup {[k |-> "rename_view", db |-> v.db, t |-> v.name, c |-> "", i |-> "", n |-> f] : v \in inv.views, f \in FreshNames}
  \cup {[k |-> "add_view", db |-> d, t |-> f, c |-> "", i |-> "", n |-> f] : d \in {t.db : t \in inv.tables}, f \in FreshNames}
  \cup UNION {{[k |-> kind, db |-> t.db, t |-> t.name, c |-> cn, i |-> "", n |-> Fresh] :
                  kind \in {"drop_column", "change_type", "change_notnull", "change_default", "change_pk"},
                  cn \in ColNames(t)} : t \in inv.tables}
  \cup UNION {{[k |-> "rename_column", db |-> t.db, t |-> t.name, c |-> cn, i |-> "", n |-> f] : cn \in ColNames(t), f \in {"AA_verif_new", "zz_verif_new"}} : t \in inv.tables}
  \cup {[k |-> "add_column", db |-> t.db, t |-> t.name, c |-> Fresh, i |-> "", n |-> Fresh] : t \in inv.tables}
  \cup UNION {{[k |-> kind, db |-> x.db, t |-> x.table, c |-> "", i |-> x.name, n |-> Fresh] :
                  kind \in {"drop_index", "change_index_unique", "change_index_columns", "change_index_expr_tail", "change_index_expr_head"}} : x \in Created(inv)}
  \cup {[k |-> "rename_index", db |-> x.db, t |-> x.table, c |-> "", i |-> x.name, n |-> f] : x \in Created(inv), f \in FreshNames}
  \cup {[k |-> "add_index", db |-> t.db, t |-> t.name, c |-> "", i |-> f, n |-> f] : t \in inv.tables, f \in {"AA_verif_new", "zz_verif_new"}}

MapCols(t, F(_)) == [t EXCEPT !.cols = [k \in DOMAIN t.cols |-> F(t.cols[k])]]
Filter(s, P(_)) == SelectSeq(s, P)

Apply(m, inv) ==
    LET T(P(_), F(_)) == {IF P(t) THEN F(t) ELSE t : t \in inv.tables}
        Is(t) == t.db = m.db /\ t.name = m.t
        OnCol(F(_)) == [inv EXCEPT !.tables = T(Is, LAMBDA t : MapCols(t, LAMBDA c : IF c.name = m.c THEN F(c) ELSE c))]
        IsIx(x) == x.db = m.db /\ x.name = m.i
    IN
    CASE m.k = "drop_table" -> [inv EXCEPT !.tables = {t \in inv.tables : ~Is(t)},
                                           !.indices = {x \in inv.indices : ~(x.db = m.db /\ x.table = m.t)}]
      [] m.k = "rename_table" -> [inv EXCEPT !.tables = T(Is, LAMBDA t : [t EXCEPT !.name = m.n])]
      [] m.k = "add_table" -> [inv EXCEPT !.tables = @ \cup {[db |-> m.db, name |-> m.n,
                                   cols |-> <<[name |-> "x", type |-> "INTEGER", notnull |-> 0, dflt |-> NoDflt, pk |-> 0]>>]}]
      [] m.k = "drop_view" -> [inv EXCEPT !.views = {v \in inv.views : ~(v.db = m.db /\ v.name = m.t)}]
      [] m.k = "rename_view" -> [inv EXCEPT !.views = {IF v.db = m.db /\ v.name = m.t THEN [v EXCEPT !.name = m.n] ELSE v : v \in inv.views}]
      [] m.k = "add_view" -> [inv EXCEPT !.views = @ \cup {[db |-> m.db, name |-> m.n]}]
      [] m.k = "drop_column" -> [inv EXCEPT !.tables = T(Is, LAMBDA t : [t EXCEPT !.cols = Filter(t.cols, LAMBDA c : c.name # m.c)])]
      [] m.k = "rename_column" -> OnCol(LAMBDA c : [c EXCEPT !.name = m.n])
      [] m.k = "change_type" -> OnCol(LAMBDA c : [c EXCEPT !.type = OtherType(c.type)])
      [] m.k = "change_notnull" -> OnCol(LAMBDA c : [c EXCEPT !.notnull = 1 - c.notnull])
      [] m.k = "change_default" -> OnCol(LAMBDA c : [c EXCEPT !.dflt = IF c.dflt = "7" THEN "8" ELSE "7"])
      [] m.k = "change_pk" -> OnCol(LAMBDA c : [c EXCEPT !.pk = IF c.pk = 0 THEN 1 ELSE 0])
      [] m.k = "add_column" -> [inv EXCEPT !.tables = T(Is, LAMBDA t : [t EXCEPT !.cols = Append(t.cols,
                                   [name |-> Fresh, type |-> "INTEGER", notnull |-> 0, dflt |-> NoDflt, pk |-> 0])])]
      [] m.k = "drop_index" -> [inv EXCEPT !.indices = {x \in inv.indices : ~IsIx(x)}]
      [] m.k = "rename_index" -> [inv EXCEPT !.indices = {IF IsIx(x) THEN [x EXCEPT !.name = m.n] ELSE x : x \in inv.indices}]
      [] m.k = "change_index_unique" -> [inv EXCEPT !.indices = {IF IsIx(x) THEN [x EXCEPT !.unique = 1 - x.unique] ELSE x : x \in inv.indices}]
      [] m.k = "change_index_columns" -> [inv EXCEPT !.indices = {IF IsIx(x) THEN [x EXCEPT !.cols = Append(x.cols, Fresh)] ELSE x : x \in inv.indices}]
      \* an index term that is an expression, not a column (index_info reports it with a NULL name), after / before the declared columns
      [] m.k = "change_index_expr_tail" -> [inv EXCEPT !.indices = {IF IsIx(x) THEN [x EXCEPT !.cols = Append(x.cols, "<expr>")] ELSE x : x \in inv.indices}]
      [] m.k = "change_index_expr_head" -> [inv EXCEPT !.indices = {IF IsIx(x) THEN [x EXCEPT !.cols = <<"<expr>">> \o x.cols] ELSE x : x \in inv.indices}]
      [] m.k = "add_index" -> [inv EXCEPT !.indices = @ \cup {[db |-> m.db, name |-> m.n, table |-> m.t, unique |-> 0, origin |-> "c", cols |-> <<"x">>]}]
      [] OTHER -> inv

\* every mutation is a structural deviation from the declared schema
Deviates(m, inv) == Apply(m, inv) # inv

\* what verify() must do
Verdict(m, inv) == IF m.k = "none" THEN "accept" ELSE IF Deviates(m, inv) THEN "reject" ELSE "accept"
=============================================================================
