---------------------------- MODULE EngineFormat ----------------------------
(***************************************************************************)
(* The Engine performance-data blob layouts, as an independent             *)
(* implementation of the encoder (C02, C03, C04, and the blob part of      *)
(* C11).  Everything is bytes: a value is a record whose numeric fields    *)
(* are byte tuples in canonical big-endian order (doubles and 64-bit       *)
(* integers 8 bytes, 32-bit integers 4 bytes), flags and colour channels   *)
(* are single bytes 0..255, labels and trailing "extra" data are byte      *)
(* sequences, lists are sequences.  TLA+ never does floating point; it     *)
(* only moves bytes.                                                       *)
(*                                                                         *)
(* A blob is  BE32(length of payload) \o deflate(payload)  except loops,   *)
(* which are stored as the bare payload.  Enc(kind, v) is the payload.     *)
(***************************************************************************)
EXTENDS Integers, Sequences, FiniteSets

Byte == 0 .. 255
Rev(s) == [k \in 1 .. Len(s) |-> s[Len(s) + 1 - k]]
BE(t) == t                      \* stored as written
LE(t) == Rev(t)                 \* stored least significant byte first

\* n < 2^31 as an unsigned big-endian integer of w bytes
BEn(n, w) == [k \in 1 .. w |-> IF w - k >= 4 THEN 0
                               ELSE CASE w - k = 3 -> (n \div 16777216) % 256
                                      [] w - k = 2 -> (n \div 65536) % 256
                                      [] w - k = 1 -> (n \div 256) % 256
                                      [] OTHER -> n % 256]
Cnt8BE(n) == BEn(n, 8)
Cnt8LE(n) == Rev(BEn(n, 8))

Zero8 == <<0, 0, 0, 0, 0, 0, 0, 0>>
NegZero8 == <<128, 0, 0, 0, 0, 0, 0, 0>>
MinusOne8 == <<191, 240, 0, 0, 0, 0, 0, 0>>          \* the double -1.0
IsZeroF(d) == d \in {Zero8, NegZero8}
IsNaN(d) == /\ d[1] % 128 = 127 /\ d[2] >= 240
            /\ (d[2] > 240 \/ \E k \in 3 .. 8 : d[k] # 0)

\* concatenation of a sequence of byte sequences (short lists only: recursion depth = Len)
RECURSIVE Cat(_)
Cat(ss) == IF ss = <<>> THEN <<>> ELSE Head(ss) \o Cat(Tail(ss))

\* fixed-width items: no recursion, so that grids and waveforms of thousands of entries are fine
FlatFixed(items, w, E(_)) ==
    [k \in 1 .. Len(items) * w |-> LET e == E(items[(k - 1) \div w + 1]) IN e[((k - 1) % w) + 1]]

-----------------------------------------------------------------------------
(* ---- schema 2.x blobs (raw structs, every field kept verbatim) ---- *)
Marker2(m) == LE(m.off) \o LE(m.beat) \o LE(m.nbeats) \o LE(m.unk)                          \* 24 bytes
Grid2(g) == Cnt8BE(Len(g)) \o FlatFixed(g, 24, Marker2)

EncTrackData2(v) == BE(v.rate) \o BE(v.samples) \o BE(v.key) \o BE(v.low) \o BE(v.mid) \o BE(v.high) \o v.extra
EncBeatData2(v) == BE(v.rate) \o BE(v.samples) \o <<v.isset>> \o Grid2(v.dflt) \o Grid2(v.adj) \o v.extra
Cue2(c) == <<Len(c.label) % 256>> \o c.label \o BE(c.off) \o <<c.a, c.r, c.g, c.b>>
EncQuickCues2(v) == Cnt8BE(Len(v.cues)) \o Cat([k \in 1 .. Len(v.cues) |-> Cue2(v.cues[k])])
                    \o BE(v.adj) \o <<v.isadj>> \o BE(v.dflt) \o v.extra
Loop2(c) == <<Len(c.label) % 256>> \o c.label \o LE(c.start) \o LE(c.end) \o <<c.ss, c.es, c.a, c.r, c.g, c.b>>
EncLoops2(v) == Cnt8LE(Len(v.loops)) \o Cat([k \in 1 .. Len(v.loops) |-> Loop2(v.loops[k])]) \o v.extra
Pt3(p) == <<p.l, p.m, p.h>>
EncOverview2(v) == Cnt8BE(Len(v.pts)) \o Cnt8BE(Len(v.pts)) \o BE(v.spp) \o FlatFixed(v.pts, 3, Pt3) \o Pt3(v.max) \o v.extra

(* ---- schema 1.x blobs (logical structs: optionals as sequences of length <= 1) ---- *)
OrZero(o, z) == IF o = <<>> THEN z ELSE o[1]
Zero4 == <<0, 0, 0, 0>>
\* 32-bit two's complement of an integer in -2^31 .. 2^31-1, big-endian
I32(n) == LET u == IF n >= 0 THEN n ELSE n + 2147483647 + 1 IN
          IF n >= 0 THEN BEn(u, 4) ELSE <<128 + ((u \div 16777216) % 128), (u \div 65536) % 256, (u \div 256) % 256, u % 256>>
I64of32(n) == (IF n >= 0 THEN <<0, 0, 0, 0>> ELSE <<255, 255, 255, 255>>) \o I32(n)

Marker1(g, k) == LE(g[k].off) \o LE(I64of32(g[k].idx))
                 \o LE(I32(IF k < Len(g) THEN g[k + 1].idx - g[k].idx ELSE 0)) \o Zero4
Grid1(g) == Cnt8BE(Len(g)) \o [j \in 1 .. Len(g) * 24 |-> LET e == Marker1(g, (j - 1) \div 24 + 1) IN e[((j - 1) % 24) + 1]]

EncTrackData1(v) == BE(OrZero(v.rate, Zero8)) \o BE(OrZero(v.count, Zero8)) \o BE(OrZero(v.loud, Zero8)) \o BE(I32(OrZero(v.key, 0)))
EncBeatData1(v) == BE(OrZero(v.rate, Zero8)) \o BE(OrZero(v.count, Zero8)) \o <<1>> \o Grid1(v.dflt) \o Grid1(v.adj)
Pt6(p) == <<p.l, p.m, p.h, p.lo, p.mo, p.ho>>
MaxOf(s, f(_)) == IF s = <<>> THEN 0 ELSE CHOOSE x \in {f(s[k]) : k \in DOMAIN s} : \A y \in {f(s[k]) : k \in DOMAIN s} : y <= x
EncHiRes1(v) == Cnt8BE(Len(v.pts)) \o Cnt8BE(Len(v.pts)) \o BE(v.spe) \o FlatFixed(v.pts, 6, Pt6)
                \o <<MaxOf(v.pts, LAMBDA p : p.l), MaxOf(v.pts, LAMBDA p : p.m), MaxOf(v.pts, LAMBDA p : p.h),
                     MaxOf(v.pts, LAMBDA p : p.lo), MaxOf(v.pts, LAMBDA p : p.mo), MaxOf(v.pts, LAMBDA p : p.ho)>>
EncOverview1(v) == Cnt8BE(Len(v.pts)) \o Cnt8BE(Len(v.pts)) \o BE(v.spe) \o FlatFixed(v.pts, 3, Pt3)
                   \o <<MaxOf(v.pts, LAMBDA p : p.l), MaxOf(v.pts, LAMBDA p : p.m), MaxOf(v.pts, LAMBDA p : p.h)>>
Loop1(o) == IF o = <<>> THEN <<0>> \o LE(MinusOne8) \o LE(MinusOne8) \o <<0, 0, 0, 0, 0, 0>>
            ELSE LET c == o[1] IN <<Len(c.label) % 256>> \o c.label \o LE(c.start) \o LE(c.end) \o <<1, 1, c.a, c.r, c.g, c.b>>
EncLoops1(v) == Cnt8LE(Len(v.loops)) \o Cat([k \in 1 .. Len(v.loops) |-> Loop1(v.loops[k])])
Cue1(o) == IF o = <<>> THEN <<0>> \o BE(MinusOne8) \o <<0, 0, 0, 0>>
           ELSE LET c == o[1] IN <<Len(c.label) % 256>> \o c.label \o BE(c.off) \o <<c.a, c.r, c.g, c.b>>
\* (numeric equality of the two main cues: bitwise equal and not NaN, or both zeros)
SameF(x, y) == (x = y /\ ~IsNaN(x)) \/ (IsZeroF(x) /\ IsZeroF(y))
EncQuickCues1(v) == Cnt8BE(Len(v.cues)) \o Cat([k \in 1 .. Len(v.cues) |-> Cue1(v.cues[k])])
                    \o BE(v.adj) \o <<IF SameF(v.adj, v.dflt) THEN 0 ELSE 1>> \o BE(v.dflt)

Enc(kind, v) ==
    CASE kind = "track_data2" -> EncTrackData2(v)
      [] kind = "beat_data2" -> EncBeatData2(v)
      [] kind = "quick_cues2" -> EncQuickCues2(v)
      [] kind = "loops2" -> EncLoops2(v)
      [] kind = "overview2" -> EncOverview2(v)
      [] kind = "track_data1" -> EncTrackData1(v)
      [] kind = "beat_data1" -> EncBeatData1(v)
      [] kind = "hires1" -> EncHiRes1(v)
      [] kind = "overview1" -> EncOverview1(v)
      [] kind = "loops1" -> EncLoops1(v)
      [] kind = "quick_cues1" -> EncQuickCues1(v)

Compressed(kind) == kind \notin {"loops1", "loops2"}
Prefix(payload) == BEn(Len(payload), 4)

-----------------------------------------------------------------------------
(* The encodable domain (C03): values the format can hold, i.e. for which decoding the encoding    *)
(* gives the value back.  Everything else must be rejected with an exception.                      *)
LabelsOK(s, lo) == \A k \in DOMAIN s : Len(s[k].label) >= lo /\ Len(s[k].label) <= 255
OptLabelsOK(s, lo) == \A k \in DOMAIN s : s[k] = <<>> \/ (Len(s[k][1].label) >= lo /\ Len(s[k][1].label) <= 255)
\* numeric order of two doubles given as bytes is not needed: the harness logs `sorted` for 1.x grids
\* the distance to the next marker is stored in a signed 32-bit field: neighbours more than 2^31 - 1 beats apart cannot be held
\* (written without subtracting across the sign change: TLC's integers are 32-bit too)
FitsGap(a, b) == IF a < 0 /\ b >= 0 THEN b <= 2147483647 + a ELSE TRUE
Grid1OK(g, sorted) == Len(g) = 0 \/ (Len(g) >= 2 /\ Len(g) <= 32768 /\ sorted /\ \A k \in 1 .. Len(g) - 1 : FitsGap(g[k].idx, g[k + 1].idx))

Encodable(kind, v, aux) ==
    CASE kind = "track_data2" -> TRUE
      [] kind = "beat_data2" -> TRUE
      [] kind = "quick_cues2" -> LabelsOK(v.cues, 0)
      [] kind = "loops2" -> LabelsOK(v.loops, 0)
      [] kind = "overview2" -> TRUE
      [] kind = "track_data1" -> TRUE
      [] kind = "beat_data1" -> Grid1OK(v.dflt, aux.dflt_sorted) /\ Grid1OK(v.adj, aux.adj_sorted)
      [] kind = "hires1" -> TRUE
      [] kind = "overview1" -> \A k \in DOMAIN v.pts : v.pts[k].lo = 255 /\ v.pts[k].mo = 255 /\ v.pts[k].ho = 255
      [] kind = "loops1" -> OptLabelsOK(v.loops, 1)
      [] kind = "quick_cues1" -> OptLabelsOK(v.cues, 1)

(* What decoding the encoding must give back: the value itself, except for the reserved encodings  *)
(* of schema 1.x (an offset of -1 reads back as an empty slot; the zero sentinels of the optional   *)
(* scalars are listed as a known finding, see KnownFindings in DESIGN.md).                          *)
NormOpt(o) == IF o # <<>> /\ IsZeroF(o[1]) THEN <<>> ELSE o
Norm(kind, v) ==
    CASE kind = "loops1" -> [v EXCEPT !.loops = [k \in DOMAIN v.loops |->
                                IF v.loops[k] # <<>> /\ v.loops[k][1].start = MinusOne8 THEN <<>> ELSE v.loops[k]]]
      [] kind = "quick_cues1" -> [v EXCEPT !.cues = [k \in DOMAIN v.cues |->
                                IF v.cues[k] # <<>> /\ v.cues[k][1].off = MinusOne8 THEN <<>> ELSE v.cues[k]]]
      [] OTHER -> v

\* 1.x optional scalars written as 0 when absent: a present zero reads back absent (known finding class)
ZeroSentinel(kind, v) ==
    CASE kind = "track_data1" -> \/ (v.rate # <<>> /\ IsZeroF(v.rate[1])) \/ (v.count # <<>> /\ v.count[1] = Zero8)
                                  \/ (v.loud # <<>> /\ IsZeroF(v.loud[1])) \/ (v.key # <<>> /\ v.key[1] = 0)
      [] kind = "beat_data1" -> (v.rate # <<>> /\ IsZeroF(v.rate[1])) \/ (v.count # <<>> /\ IsZeroF(v.count[1]))
      [] OTHER -> FALSE
=============================================================================
