---------------------------- MODULE TraceDetect ----------------------------
(* Trace validation of load_database / database_exists / create_or_load_database on directories      *)
(* arranged by harness/detectdriver: one record per directory configuration with the outcome of each *)
(* call.  `loaded` is what the out-parameter held afterwards; the driver pre-sets it to a sentinel    *)
(* schema different from every expected one and repeats the call with a second sentinel (`loaded2`),  *)
(* so an out-parameter the callee forgets to assign cannot look like a result.                        *)
EXTENDS SchemaDetect, Json, IOUtils, TLC

VARIABLE l
Log == ndJsonDeserialize(IOEnv.TRACE)

St(r) == [t |-> <<r.maj, r.min, r.pat>>, variant |-> r.variant, legacy |-> r.legacy, db2 |-> r.db2,
          legacyE |-> ("legacy_empty" \in DOMAIN r /\ r.legacy_empty), db2E |-> ("db2_empty" \in DOMAIN r /\ r.db2_empty)]

\* Known finding: a 3.0.0 library is accepted although 3.0.0 is not among the supported versions
\* (detect_schema maps it, the rejection in load_database is commented out, and the pinned test suite
\* loads the 4.1.0 reference dump - so it cannot be repaired without breaking the suite).
Accepts300(r) == /\ r.maj = 3 /\ r.min = 0 /\ r.pat = 0 /\ (r.legacy # r.db2)
                 /\ r.load.out = "ok" /\ r.load.loaded = "3.0.0" /\ r.load.loaded2 = "3.0.0"

RecOK(r) ==
    LET s == St(r)
        e == Expected(s) IN
    \/ /\ ResultOK(s, r.load.out, r.load.ex, r.load.loaded)
       /\ (r.load.out = "ok" => r.load.loaded2 = r.load.loaded)       \* same answer with another sentinel
       /\ (r.load.out = "ok" => r.load.ver = r.load.loaded)           \* version_name() agrees with the reported schema
       \* database_exists(): false exactly when there is no library (or both layouts); true when it loads
       /\ (e.ex = "database_not_found" => r.exists.out = "ok" /\ r.exists.val = FALSE)
       /\ (r.load.out = "ok" => r.exists.out = "ok" /\ r.exists.val = TRUE)
       \* create_or_load_database(): creates exactly when none exists; loads what is there otherwise
       /\ (~s.legacy /\ ~s.db2 => r.col.out = "ok" /\ r.col.created = TRUE /\ r.col.loaded = r.col.want)
       /\ (r.load.out = "ok" => r.col.out = "ok" /\ r.col.created = FALSE /\ r.col.loaded = r.load.loaded)
       \* ... whatever schema the caller asks for (the request only matters when nothing exists yet)
       /\ (r.load.out = "ok" /\ "col1" \in DOMAIN r => r.col1.out = "ok" /\ r.col1.created = FALSE /\ r.col1.loaded = r.load.loaded)
    \/ /\ Accepts300(r)
       /\ PrintT(<<"KF", l, "accepts-3.0.0">>)

TInit == l = 1
TNext == l <= Len(Log) /\ RecOK(Log[l]) /\ l' = l + 1
TSpec == TInit /\ [][TNext]_l
Accepted == TLCGet("stats").diameter - 1 = Len(Log)
=============================================================================
