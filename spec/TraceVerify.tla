---------------------------- MODULE TraceVerify ----------------------------
(* Trace validation of verify(): one record per library handed to load_database + verify().        *)
(*   kind = "control"   an unmutated library (created by this version, or rebuilt / copied as the    *)
(*                      mutants are, or hydrated from a reference dump): must load and be accepted   *)
(*   kind = "mutant"    one single-element mutation m of the inventory (IOEnv.INVENTORY): whenever   *)
(*                      it is a deviation (SchemaVerify!Deviates) verify() must report               *)
(*                      database_inconsistency                                                      *)
(* `changed` is the materialiser's own observation that the rebuilt library's inventory differs      *)
(* from the original one (a mutation SQLite silently ignored is not a test).                         *)
EXTENDS SchemaVerify, Json, IOUtils, TLC

VARIABLE l
Log == ndJsonDeserialize(IOEnv.TRACE)

ToSet(s) == {s[k] : k \in DOMAIN s}
Raw == JsonDeserialize(IOEnv.INVENTORY)
Inv0 == [tables |-> ToSet(Raw.tables), indices |-> ToSet(Raw.indices), views |-> ToSet(Raw.views)]

RecOK(r) ==
    IF r.kind = "control" THEN
        r.load = "ok" /\ r.out = "ok"
    ELSE
        /\ r.changed
        /\ Verdict(r.m, Inv0) = "reject"
        /\ \/ r.load = "ok" /\ r.out = "throw" /\ r.ex \in {"database_inconsistency", "crate_database_inconsistency", "track_database_inconsistency"}
           \/ r.load = "throw"      \* the deviation already prevents loading (verify() cannot be reached)

TInit == l = 1
TNext == l <= Len(Log) /\ RecOK(Log[l]) /\ l' = l + 1
TSpec == TInit /\ [][TNext]_l
Accepted == TLCGet("stats").diameter - 1 = Len(Log)
=============================================================================
