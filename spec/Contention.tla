----------------------------- MODULE Contention -----------------------------
(***************************************************************************)
(* A public call of the library as a program of SQL statements, executed   *)
(* on ONE connection while ANOTHER connection takes and releases locks on   *)
(* the same database files: SQLite's locking protocol in rollback-journal   *)
(* mode (UNLOCKED / SHARED / RESERVED / PENDING / EXCLUSIVE, no busy         *)
(* handler), the library's transaction scope (BEGIN .. COMMIT, ROLLBACK      *)
(* when the scope is left by an exception) and what C14 asks of it:          *)
(*                                                                         *)
(*   whatever the other connection does and whenever it does it, a call     *)
(*   either makes ALL of its row changes durable and returns, or throws     *)
(*   and leaves NONE of them; afterwards the connection holds no lock and   *)
(*   has no transaction open, and the same call succeeds once the other     *)
(*   connection has gone away.                                              *)
(*                                                                         *)
(* The statement semantics is a constant-level operator (Exec) so that the  *)
(* trace specification (TraceContention) can predict the result of every     *)
(* statement of a recorded execution.  The programs explored by TLC are the  *)
(* statement programs the real library was seen to run (harness/libdriver,   *)
(* lock sweep), read from a file.                                            *)
(***************************************************************************)
EXTENDS Integers, Sequences, FiniteSets, TLC

None == 0
Shared == 1
Reserved == 2
Pending == 3
Exclusive == 4

Max(a, b) == IF a >= b THEN a ELSE b

\* connection state of the library: lock held on the database files, explicit transaction open, uncommitted row changes
Idle == [ll |-> None, txn |-> FALSE, dirty |-> FALSE]
R(rc, cs, unit) == [rc |-> rc, cs |-> cs, unit |-> unit]

\* One statement.  cls \in {"begin", "commit", "rollback", "read", "write", "free"} ("free": touches no database
\* file - temporary or in-memory schema objects only); eff: the write changes at least one row (a write that changes
\* nothing dirties no page and needs no EXCLUSIVE lock to commit); cs: connection state; fl: lock held by the other
\* connection.  Result: "ok" | "busy" | "err", the successor state, and whether one atomic unit of row changes became
\* durable.
Exec(cls, eff, cs, fl) ==
    CASE cls = "begin" -> IF cs.txn THEN R("err", cs, 0) ELSE R("ok", [cs EXCEPT !.txn = TRUE], 0)
      [] cls = "rollback" -> IF cs.txn THEN R("ok", Idle, 0) ELSE R("err", cs, 0)
      [] cls = "commit" ->
            IF ~cs.txn THEN R("err", cs, 0)
            ELSE IF cs.dirty /\ fl # None THEN R("busy", [cs EXCEPT !.ll = Pending], 0)   \* EXCLUSIVE refused: readers remain
            ELSE R("ok", Idle, IF cs.dirty THEN 1 ELSE 0)
      [] cls = "free" -> R("ok", cs, 0)
      [] cls = "read" ->
            IF cs.ll = None /\ fl >= Pending THEN R("busy", cs, 0)                         \* SHARED refused
            ELSE R("ok", IF cs.txn THEN [cs EXCEPT !.ll = Max(cs.ll, Shared)] ELSE cs, 0)
      [] cls = "write" ->
            IF cs.ll < Reserved /\ fl >= Reserved                                         \* RESERVED refused
            THEN R("busy", IF cs.txn /\ fl < Pending THEN [cs EXCEPT !.ll = Max(cs.ll, Shared)] ELSE cs, 0)
            ELSE IF cs.txn THEN R("ok", [cs EXCEPT !.ll = Max(cs.ll, Reserved), !.dirty = cs.dirty \/ eff], 0)
            ELSE IF eff /\ fl # None THEN R("busy", cs, 0)      \* autocommit: EXCLUSIVE refused, the statement is undone
            ELSE R("ok", cs, IF eff THEN 1 ELSE 0)
      [] OTHER -> R("err", cs, 0)

\* what the other connection may take, given what the library's connection holds
MayAcquire(lvl, ll) ==
    CASE lvl = Shared -> ll < Pending
      [] lvl = Reserved -> ll < Reserved
      [] lvl = Exclusive -> ll = None
      [] OTHER -> FALSE

-----------------------------------------------------------------------------
(* The state machine explored by TLC *)
CONSTANTS Progs,      \* sequence of programs; a program is a sequence of [c |-> class, e |-> changes rows]
          Guard       \* "rollback" (the library's transaction scope) | "leak" (a scope that forgets to roll back)

VARIABLES pi,         \* which program
          pc,         \* next statement
          cs,         \* connection state of the library
          fl,         \* lock of the other connection
          units,      \* atomic units of row changes made durable by this call
          failed,     \* a statement was refused: the call throws
          phase,      \* "run" | "done" | "retry" | "redone"
          lastrc

vars == <<pi, pc, cs, fl, units, failed, phase, lastrc>>
Prog == Progs[pi]

\* the number of units a complete execution of the program commits (transaction brackets count once)
RECURSIVE UnitsOf(_, _, _, _)
UnitsOf(p, i, intxn, dirty) ==
    IF i > Len(p) THEN 0
    ELSE LET s == p[i] IN
         CASE s.c = "begin" -> UnitsOf(p, i + 1, TRUE, FALSE)
           [] s.c = "commit" -> (IF dirty THEN 1 ELSE 0) + UnitsOf(p, i + 1, FALSE, FALSE)
           [] s.c = "write" /\ s.e -> IF intxn THEN UnitsOf(p, i + 1, TRUE, TRUE) ELSE 1 + UnitsOf(p, i + 1, FALSE, FALSE)
           [] OTHER -> UnitsOf(p, i + 1, intxn, dirty)

Init ==
    /\ pi \in 1 .. Len(Progs)
    /\ pc = 1 /\ cs = Idle /\ fl = None /\ units = 0 /\ failed = FALSE /\ phase = "run" /\ lastrc = "ok"

\* the library steps its next statement; a refused statement ends the call: the exception leaves the transaction
\* scope, whose destructor rolls back
LibStep ==
    /\ phase \in {"run", "retry"} /\ pc <= Len(Prog)
    /\ LET s == Prog[pc]
           ex == Exec(s.c, s.e, cs, fl) IN
       /\ lastrc' = ex.rc
       /\ units' = units + ex.unit
       /\ IF ex.rc = "ok"
          THEN /\ cs' = ex.cs /\ pc' = pc + 1 /\ UNCHANGED failed
               /\ phase' = IF pc = Len(Prog) THEN (IF phase = "run" THEN "done" ELSE "redone") ELSE phase
          ELSE /\ failed' = TRUE
               /\ cs' = IF ex.cs.txn /\ Guard = "rollback" THEN Idle ELSE ex.cs
               /\ pc' = pc
               /\ phase' = IF phase = "run" THEN "done" ELSE "redone"
    /\ UNCHANGED <<pi, fl>>

EmptyCall == phase = "run" /\ Len(Prog) = 0 /\ phase' = "done" /\ UNCHANGED <<pi, pc, cs, fl, units, failed, lastrc>>

\* the other connection, at any statement boundary
FAcquire(lvl) ==
    /\ phase = "run" /\ fl < lvl /\ MayAcquire(lvl, cs.ll)
    /\ fl' = lvl /\ UNCHANGED <<pi, pc, cs, units, failed, phase, lastrc>>
FRelease ==
    /\ phase = "run" /\ fl # None
    /\ fl' = None /\ UNCHANGED <<pi, pc, cs, units, failed, phase, lastrc>>

\* after a failed call: the other connection goes away and the same call is made again ("the library stays usable")
Retry ==
    /\ phase = "done" /\ failed
    /\ phase' = "retry" /\ fl' = None /\ pc' = 1 /\ failed' = FALSE /\ units' = 0
    /\ UNCHANGED <<pi, cs, lastrc>>

Next == LibStep \/ EmptyCall \/ (\E lvl \in {Shared, Reserved, Exclusive} : FAcquire(lvl)) \/ FRelease \/ Retry
Spec == Init /\ [][Next]_vars /\ WF_vars(LibStep) /\ WF_vars(EmptyCall) /\ WF_vars(Retry)

-----------------------------------------------------------------------------
(* Properties *)
\* SQLite's own guarantee (sanity of the environment model): incompatible locks are never held together
LockCompat ==
    /\ ~(cs.ll >= Reserved /\ fl >= Reserved)
    /\ ~(cs.ll = Exclusive /\ fl # None) /\ ~(fl = Exclusive /\ cs.ll # None)

\* a call that throws leaves none of its row changes, a call that returns has made all of them
AllOrNothing ==
    phase \in {"done", "redone"} =>
        IF failed THEN units = 0 ELSE units = UnitsOf(Prog, 1, FALSE, FALSE)

\* at rest the connection holds nothing
AtRest == phase \in {"done", "redone"} => cs = Idle

\* the call made again without contention succeeds
Usable == phase = "redone" => ~failed

\* every call ends (no schedule of the other connection blocks it: there is no busy handler)
Ends == <>(phase \in {"done", "redone"})
=============================================================================
