--------------------------- MODULE TraceBeatgrid ---------------------------
(* Trace validation of normalize_beatgrid: every record holds the input grid `g`, the sample      *)
(* count `sc`, the outcome (`ok` with the returned grid `r`, or `throw` with the exception class)  *)
(* and the result `r2` of normalising the result again.  Offsets are logged as integers together   *)
(* with `exact` (every offset the function returned was integer-valued).                           *)
(* The verdict is the C20 property on what the code returned: grids that can be normalised must    *)
(* satisfy PostOK and be a fixed point, grids that cannot must be rejected with invalid_argument.  *)
EXTENDS Beatgrid, Json, IOUtils, TLC

VARIABLE l
Log == ndJsonDeserialize(IOEnv.TRACE)

Has(r, f) == f \in DOMAIN r
\* Extreme inputs (beat indices at the edges of the 32-bit range, sample counts up to 2^63 - 1; numbers as strings): whatever
\* cannot be normalised - here also: because a beat index of the result would not fit - is rejected with invalid_argument;
\* what is returned is a strictly increasing finite grid from beat -4 to the end.  (No undefined behaviour on the way is
\* observed by the sanitizer build these records come from.)
ExtremeOK(r) ==
    \/ r.out = "throw" /\ r.ex = "invalid_argument"
    \/ r.out = "ok" /\ r.n >= 2 /\ r.first = -4 /\ r.inc /\ r.finite /\ r.last_ge_end

RecOK(r) ==
    IF Has(r, "x") THEN ExtremeOK(r)
    ELSE IF MustReject(r.g, r.sc) THEN
        r.out = "throw" /\ r.ex = "invalid_argument"
    ELSE IF InDomain(r.g, r.sc) THEN
        /\ r.out = "ok" /\ r.exact
        /\ PostOK(r.g, r.sc, r.r)
        /\ r.out2 = "ok" /\ r.r2 = r.r                           \* idempotent
    ELSE                                                         \* the property is silent
        /\ r.out \in {"ok", "throw"}
        /\ (r.out = "throw" => r.std)

TInit == l = 1
TNext == l <= Len(Log) /\ RecOK(Log[l]) /\ l' = l + 1
TSpec == TInit /\ [][TNext]_l
Accepted == TLCGet("stats").diameter - 1 = Len(Log)
=============================================================================
