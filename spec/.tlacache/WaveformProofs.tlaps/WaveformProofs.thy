(* automatically generated -- do not edit manually *)
theory WaveformProofs imports Constant Zenon begin
ML_command \<open> writeln ("*** TLAPS PARSED\n"); \<close>
consts
  "isReal" :: c
  "isa_slas_a" :: "[c,c] => c"
  "isa_bksl_diva" :: "[c,c] => c"
  "isa_perc_a" :: "[c,c] => c"
  "isa_peri_peri_a" :: "[c,c] => c"
  "isInfinity" :: c
  "isa_lbrk_rbrk_a" :: "[c] => c"
  "isa_less_more_a" :: "[c] => c"

end
