------------------------------ MODULE Waveform ------------------------------
(***************************************************************************)
(* C19: recommended waveform extents.                                      *)
(*                                                                         *)
(* n = number of samples of the track, r = floor(sample rate) (naturals).  *)
(* The quantisation number is twice the integer part of r / 210.  The      *)
(* high-resolution waveform has one entry per QN(r) samples; the overview  *)
(* waveform has 1024 entries spanning n rounded down to a multiple of      *)
(* QN(r).  No floating point here: samples-per-entry of the overview is    *)
(* represented by the integer it is multiplied out from (span = 1024*spe). *)
(***************************************************************************)
EXTENDS Integers

OverviewSize == 1024

QN(r) == (r \div 210) * 2

Empty(n, r) == n = 0 \/ QN(r) = 0

HiSize(n, r) == IF Empty(n, r) THEN 0 ELSE (n + QN(r) - 1) \div QN(r)
HiSpe(n, r) == IF Empty(n, r) THEN 0 ELSE QN(r)

OvSize(n, r) == IF Empty(n, r) THEN 0 ELSE OverviewSize
OvSpan(n, r) == IF Empty(n, r) THEN 0 ELSE (n \div QN(r)) * QN(r)     \* = 1024 * samples-per-entry

-----------------------------------------------------------------------------
(* The property, for one point *)
Covers(n, r) == HiSize(n, r) * HiSpe(n, r) >= n \/ Empty(n, r)
Minimal(n, r) == Empty(n, r) \/ (HiSize(n, r) - 1) * HiSpe(n, r) < n
EmptyIff(n, r) == /\ (HiSize(n, r) = 0) <=> Empty(n, r)
                  /\ (OvSize(n, r) = 0) <=> Empty(n, r)
                  /\ Empty(n, r) <=> (n = 0 \/ r < 210)
OverviewOK(n, r) == Empty(n, r) \/ /\ OvSize(n, r) = 1024
                                   /\ OvSpan(n, r) <= n /\ n < OvSpan(n, r) + QN(r)
                                   /\ OvSpan(n, r) % QN(r) = 0
Monotone(n, m, r) == n <= m => HiSize(n, r) <= HiSize(m, r)

PointOK(n, r) == Covers(n, r) /\ Minimal(n, r) /\ EmptyIff(n, r) /\ OverviewOK(n, r)
=============================================================================
