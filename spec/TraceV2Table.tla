--------------------------- MODULE TraceV2Table ---------------------------
(***************************************************************************)
(* Trace validation of the 2.x playlist / playlist-entity TABLE API          *)
(* (harness/pltabledriver) against the storage-layer model: the operation's  *)
(* outcome, the rows found by the independent reader, and what the table      *)
(* API's own read functions return (root_ids, child_ids, descendant_ids,      *)
(* all_ids, get, find_id, track_ids / get_for_list) must be what V2Rows       *)
(* predicts - the ordered listings as SEQUENCES (C09, C18 at table level).    *)
(***************************************************************************)
EXTENDS MCV2Table, IOUtils

VARIABLES l, xp, lt      \* xp / lt: playlist id -> the exported flag / the last-edit time last written for it (columns the storage
                        \* model does not carry; the time is logged as a decimal string of whole seconds since the epoch)
Log == ndJsonDeserialize(IOEnv.TRACE)
Has(r, f) == f \in DOMAIN r
ToSet(s) == {s[k] : k \in DOMAIN s}

Row(rows, id) == CHOOSE x \in ToSet(rows) : x[1] = id
Ids(rows) == {x[1] : x \in ToSet(rows)}
SeqOf(raw, name) == IF \E x \in ToSet(raw.seq) : x[1] = name THEN (CHOOSE x \in ToSet(raw.seq) : x[1] = name)[2] ELSE 0
RawStore(raw) ==
    [P |-> [id \in Ids(raw.pl) |-> PRow(Row(raw.pl, id)[2], Row(raw.pl, id)[3], Row(raw.pl, id)[4])],
     E |-> [id \in Ids(raw.pe) |-> ERow(Row(raw.pe, id)[2], Row(raw.pe, id)[3], Row(raw.pe, id)[4])],
     T |-> {}, sp |-> SeqOf(raw, "Playlist"), se |-> SeqOf(raw, "PlaylistEntity"), stt |-> 0]

\* what the table API's read functions must return on store S
ReadsOK(r, S, XP, LT) ==
    LET L == DOMAIN S.P
        o == r.obs IN
    \* the two boolean columns, stored and read back: persisted as written (TRUE throughout), exported as last written
    /\ \A x \in ToSet(r.raw.plx) : x[1] \in L /\ x[2] = 1 /\ x[3] = (IF XP[x[1]] THEN 1 ELSE 0)
    /\ \A x \in ToSet(o.lists) : x.id \in L => x.row.persisted = TRUE /\ x.row.exported = XP[x.id]
    \* the last-edit time of a playlist row is not maintained by the database: it reads back as last written (C18), whatever
    \* side of the epoch it lies on
    /\ \A x \in ToSet(o.lists) : x.id \in L => x.row.let = LT[x.id]
    /\ ToSet(o.all_ids) = L /\ Len(o.all_ids) = Cardinality(L)
    /\ o.root_ids = KidsOf(S, 0)
    /\ \A x \in ToSet(o.lists) :
          /\ x.id \in L
          /\ [f \in {"id", "title", "parent", "next"} |-> x.row[f]] = [id |-> x.id, title |-> S.P[x.id].t, parent |-> S.P[x.id].p, next |-> S.P[x.id].n]
          /\ x.exists = TRUE
          /\ x.child_ids = KidsOf(S, x.id)
          /\ ToSet(x.descendant_ids) = DescOf(S.P, x.id) /\ Len(x.descendant_ids) = Cardinality(DescOf(S.P, x.id))
          /\ x.track_ids = [k \in DOMAIN MemOf(S, x.id) |-> MemOf(S, x.id)[k] % 100]   \* (track ids >= 100: the same id in another database)
          /\ x.ents = MemOf(S, x.id)                                                  \* get_for_list: track id and database of every entity
          /\ x.entity_ids = EntsOf(S, x.id)
          /\ x.found = x.id                                   \* find_id(parent, title) finds the row (names are unique per parent)
    /\ {x.id : x \in ToSet(o.lists)} = L
    /\ \A id \in ToSet(o.gone) : id \notin L                 \* ids handed out before and removed: exists() = false, get() empty
    \* the high-level API is a view of the same rows: crates(), root_crates() and every structural query of every crate
    \* handle, on stores only the table API can build (entities naming tracks that have no row)
    /\ ToSet(o.hl.crates) = L /\ Len(o.hl.crates) = Cardinality(L)
    /\ o.hl.roots = KidsOf(S, 0)
    /\ {x.id : x \in ToSet(o.hl.cr)} = L /\ Len(o.hl.cr) = Cardinality(L)
    /\ \A x \in ToSet(o.hl.cr) :
          /\ x.v = TRUE /\ x.byid = x.id
          /\ x.nm = S.P[x.id].t
          /\ x.par = S.P[x.id].p
          /\ x.ch = KidsOf(S, x.id)
          /\ ToSet(x.de) = DescOf(S.P, x.id) /\ Len(x.de) = Cardinality(DescOf(S.P, x.id))
          /\ x.tr = [k \in DOMAIN MemOf(S, x.id) |-> MemOf(S, x.id)[k] % 100]
    /\ o.hl.tracks = <<>>                                     \* (this driver creates no Track row)

\* C16 at table level: the read functions issued no write statement, changed no row, left the digest of all tables
\* as it was, and a repeated observation agreed
NoWrite(r) == r.o16.w = 0 /\ r.o16.chg = 0 /\ r.o16.rep /\ r.o16.same

TCall ==
    /\ l <= Len(Log)
    /\ LET r == Log[l] IN
       /\ r.e = "call"
       /\ Has(r, "obs")                           \* the read functions themselves completed (a stored row they cannot read back is a rejection)
       /\ LET res == RunAll(TableProg(r, st), st, <<>>) IN
          /\ (r.out = "ok") <=> res.ok
          /\ (r.out = "throw" => r.std)
          /\ RawStore(r.raw) = res.s
          /\ (r.op = "pl_add" /\ res.ok => r.new = res.s.sp)
          /\ (r.op = "pe_add" /\ res.ok => r.new \in DOMAIN res.s.E /\ res.s.E[r.new].l = r.list /\ res.s.E[r.new].tr = r.track)
          /\ LET XP == [id \in DOMAIN res.s.P |->
                            IF res.ok /\ r.op = "pl_add" /\ id = r.new THEN r.exported
                            ELSE IF res.ok /\ r.op = "pl_update" /\ id = r.id THEN r.exported
                            ELSE xp[id]]
                 LT == [id \in DOMAIN res.s.P |->
                            IF res.ok /\ r.op = "pl_add" /\ id = r.new THEN r.let
                            ELSE IF res.ok /\ r.op = "pl_update" /\ id = r.id THEN r.let
                            ELSE lt[id]] IN
             /\ ReadsOK(r, res.s, XP, LT) /\ NoWrite(r)
             /\ xp' = XP /\ lt' = LT
          /\ st' = res.s
    /\ l' = l + 1 /\ hist' = hist

TReset ==
    /\ l <= Len(Log)
    /\ LET r == Log[l] IN r.e = "reset" /\ r.out = "ok" /\ Has(r, "obs") /\ RawStore(r.raw) = EmptyStore /\ ReadsOK(r, EmptyStore, <<>>, <<>>) /\ NoWrite(r)
    /\ st' = EmptyStore /\ xp' = <<>> /\ lt' = <<>> /\ l' = l + 1 /\ hist' = hist

TInit == l = 1 /\ st = EmptyStore /\ hist = <<>> /\ xp = <<>> /\ lt = <<>>
TNext == TCall \/ TReset
TSpec == TInit /\ [][TNext]_<<l, st, hist, xp, lt>>
Accepted == TLCGet("stats").diameter - 1 = Len(Log)
=============================================================================
