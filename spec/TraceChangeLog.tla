--------------------------- MODULE TraceChangeLog ---------------------------
(***************************************************************************)
(* Trace validation of change_log_table, information_table and the           *)
(* track_table writes that feed the change log (harness/auxdriver) against   *)
(* ChangeLog!Apply: outcome, returned id, the ChangeLog / Information /       *)
(* Track rows an independent reader finds, everything the read functions      *)
(* return (all, after(k) for every k around the stored ids, last, get,        *)
(* all_ids, exists), and the C16 bookkeeping of the observation phase (no     *)
(* write statement, no row changed, digest unchanged, repeated observation    *)
(* identical) - the table API's observers never modify the library.          *)
(***************************************************************************)
EXTENDS ChangeLog, IOUtils

VARIABLES l, info
Log == ndJsonDeserialize(IOEnv.TRACE)
Has(r, f) == f \in DOMAIN r
Elems(s) == {s[k] : k \in DOMAIN s}
Null == -999999

VerLess(a, b) == a[1] < b[1] \/ (a[1] = b[1] /\ (a[2] < b[2] \/ (a[2] = b[2] /\ a[3] < b[3])))
RawLog(raw) == [k \in 1 .. Len(raw.cl) |-> Entry(raw.cl[k][1], IF raw.cl[k][2] = Null THEN 0 ELSE raw.cl[k][2])]
ApiLog(rows) == [k \in 1 .. Len(rows) |-> Entry(rows[k][1], rows[k][2])]
Counter(raw, name) == IF \E x \in Elems(raw.seq) : x[1] = name THEN (CHOOSE x \in Elems(raw.seq) : x[1] = name)[2] ELSE 0

\* the stored rows are the model's
RawOK(r, S) ==
    /\ r.raw.clok                                  \* (from 2.20.3 ChangeLog is an empty view: it still answers, with no rows)
    /\ RawLog(r.raw) = S.L
    /\ Counter(r.raw, "ChangeLog") = S.cs
    /\ {x[1] : x \in Elems(r.raw.tracks)} = S.T /\ Len(r.raw.tracks) = Cardinality(S.T)
    /\ Counter(r.raw, "Track") = S.ts
    \* origin fix-up: no stored track is left without origin id / uuid, and a fixed-up row names itself and this library
    /\ \A x \in Elems(r.raw.tracks) : x[2] # 0 /\ x[2] # Null /\ x[3] # "" /\ x[3] # "<NULL>"
    /\ Len(r.raw.info) = 1

\* the information row: written once; only the played indicator follows the API
InfoOK(r, S, I) ==
    LET raw == r.raw.info[1]
        o == r.obs.info IN
    /\ o.ok
    /\ <<o.v.id, o.v.uuid, o.v.maj, o.v.min, o.v.pat, o.v.cpi, o.v.lrb>> = raw       \* get() returns the stored row
    /\ <<raw[1], raw[2], raw[3], raw[4], raw[5], raw[7]>> = I                           \* ... which never changes
    /\ raw[6] = S.cpi

ReadsOK(r, S) ==
    LET o == r.obs IN
    /\ IF S.has
       THEN /\ o.cl.ok
            /\ ApiLog(o.cl.v.all) = AllOf(S)
            /\ ApiLog(o.cl.v.last) = LastOf(S)
            /\ \A a \in Elems(o.cl.v.after) : ApiLog(a.rows) = AfterOf(S, a.k)
            /\ {a.k : a \in Elems(o.cl.v.after)} = -1 .. S.cs + 1
       ELSE ~o.cl.ok /\ o.cl.std /\ o.cl.ex = "unsupported_operation"
    /\ Elems(o.all_ids) = S.T /\ Len(o.all_ids) = Cardinality(S.T)
    /\ \A x \in Elems(o.tracks) : x.exists = (x.id \in S.T) /\ x.got = (x.id \in S.T)

NoWrite(r) == r.o16.w = 0 /\ r.o16.chg = 0 /\ r.o16.same /\ r.o16.rep

TCall ==
    /\ l <= Len(Log)
    /\ LET r == Log[l] IN
       /\ r.e = "call" /\ Has(r, "obs")
       /\ LET res == Apply(r, st) IN
          /\ (r.out = "ok") <=> res.ok
          /\ (r.out = "throw" => r.std)
          /\ (res.ok /\ r.op \in {"t_add", "cl_add"} => r.new = res.new)
          /\ RawOK(r, res.s) /\ InfoOK(r, res.s, info) /\ ReadsOK(r, res.s) /\ NoWrite(r)
          /\ st' = res.s
    /\ l' = l + 1 /\ UNCHANGED <<hist, info>>

TReset ==
    /\ l <= Len(Log)
    /\ LET r == Log[l]
           raw == r.raw.info[1]
           S0 == [EmptyOf(VerLess(r.ver, <<2, 20, 3>>)) EXCEPT !.cpi = raw[6]] IN
       /\ r.e = "reset" /\ r.out = "ok" /\ Has(r, "obs")
       /\ <<raw[3], raw[4], raw[5]>> = r.ver              \* a created library records the version it was created as
       /\ info' = <<raw[1], raw[2], raw[3], raw[4], raw[5], raw[7]>>
       /\ RawOK(r, S0) /\ InfoOK(r, S0, info') /\ ReadsOK(r, S0) /\ NoWrite(r)
       /\ st' = S0
    /\ l' = l + 1 /\ hist' = hist

TSkip == l <= Len(Log) /\ Log[l].e = "skip" /\ l' = l + 1 /\ UNCHANGED <<st, hist, info>>

TInit == l = 1 /\ st = EmptyLog /\ hist = <<>> /\ info = <<>>
TNext == TCall \/ TReset \/ TSkip
TSpec == TInit /\ [][TNext]_<<l, st, hist, info>>
Accepted == TLCGet("stats").diameter - 1 = Len(Log)
=============================================================================
