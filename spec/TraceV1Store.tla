--------------------------- MODULE TraceV1Store ---------------------------
(***************************************************************************)
(* Binding of the 1.x storage-layer specification to the code: after every  *)
(* public call the driver logs the rows of Crate, CrateParentList,          *)
(* CrateHierarchy, CrateTrackList and the Track ids as read by an           *)
(* independent reader.  This trace specification runs V1Rows!Prog of the    *)
(* logged call on the modelled rows and requires the real rows to be        *)
(* EXACTLY the predicted ones (ids, titles, paths, parent rows, flattened   *)
(* hierarchy, membership rows, without duplicates) and the outcome to be    *)
(* the predicted one; an attempt in which an injected statement failure     *)
(* fired must leave exactly the rows it found.                              *)
(***************************************************************************)
EXTENDS V1Rows, Json, IOUtils

VARIABLES l, st
tvars == <<l, st>>
Log == ndJsonDeserialize(IOEnv.TRACE)

Has(r, f) == f \in DOMAIN r
ToSet(s) == {s[k] : k \in DOMAIN s}
Faulted(r) == Has(r, "fault") /\ r.fault.fired
NULLT == "<NULL>"

Row(rows, id) == CHOOSE x \in ToSet(rows) : x[1] = id
Ids(rows) == {x[1] : x \in ToSet(rows)}
\* (from 1.17.0 the delete trigger keeps an all-NULL placeholder row above the highest track id: not a track)
RawTracks(raw) == {x[1] : x \in {y \in ToSet(raw.tk) : y[2] # NULLT}}
RawStore(raw) ==
    [C |-> [id \in Ids(raw.crate) |-> CRow(Row(raw.crate, id)[2], Row(raw.crate, id)[3])],
     PL |-> ToSet(raw.cpl), H |-> ToSet(raw.ch), TL |-> ToSet(raw.ctl), T |-> RawTracks(raw)]
NoDups(raw) == /\ Len(raw.crate) = Cardinality(Ids(raw.crate)) /\ Len(raw.cpl) = Cardinality(ToSet(raw.cpl))
               /\ Len(raw.ch) = Cardinality(ToSet(raw.ch)) /\ Len(raw.ctl) = Cardinality(ToSet(raw.ctl))
RowsAre(r, S) == NoDups(r.raw) /\ RawStore(r.raw) = S

F(r, f, d) == IF Has(r, f) THEN r[f] ELSE d
CallOfRec(r) == Call(r.op, F(r, "c", 0), F(r, "p", 0), F(r, "n", ""), F(r, "t", 0), F(r, "after", 0))

TCall ==
    /\ l <= Len(Log)
    /\ LET r == Log[l] IN
       /\ r.e = "call" /\ ~Has(r, "probe") /\ Has(r, "raw")
       /\ IF Faulted(r)
          THEN /\ r.out = "throw" /\ RowsAre(r, st) /\ st' = st
          ELSE LET call == CallOfRec(r)
                   res == RunAll(Prog(call, st, F(r, "new", 0)), st, <<>>)
               IN /\ (r.out = "ok") <=> res.ok
                  /\ RowsAre(r, res.s)
                  /\ (res.ok /\ NewId(call, res.s, F(r, "new", 0)) # 0 => r.new = NewId(call, res.s, F(r, "new", 0)))
                  /\ st' = res.s
    /\ l' = l + 1

TProbe ==
    /\ l <= Len(Log)
    /\ LET r == Log[l] IN
       /\ r.e = "call" /\ Has(r, "probe")
       /\ st' = IF Has(r, "raw") THEN RawStore(r.raw) ELSE st
    /\ l' = l + 1

TReopen ==
    /\ l <= Len(Log)
    /\ LET r == Log[l] IN r.e = "reopen" /\ (Has(r, "raw") => RowsAre(r, st))
    /\ l' = l + 1 /\ st' = st

TSkip == l <= Len(Log) /\ Log[l].e = "skip" /\ l' = l + 1 /\ st' = st

TReset ==
    /\ l <= Len(Log)
    /\ LET r == Log[l] IN r.e = "reset" /\ r.out = "ok" /\ (Has(r, "raw") => RowsAre(r, EmptyStore))
    /\ st' = EmptyStore
    /\ l' = l + 1

TInit == l = 1 /\ st = EmptyStore
TNext == TCall \/ TProbe \/ TReopen \/ TSkip \/ TReset
TSpec == TInit /\ [][TNext]_tvars
Accepted == TLCGet("stats").diameter - 1 = Len(Log)
=============================================================================
