---------------------------- MODULE DeflateLoop ----------------------------
(***************************************************************************)
(* The chunk loop of zlib_compress (C02 / C03: every compressed codec       *)
(* writes its payload through it), against an abstract deflate.             *)
(*                                                                         *)
(* The payload has N bytes.  The outer loop hands deflate at most Chunk     *)
(* bytes at a time and decides the flush mode: Z_FINISH with the last       *)
(* piece, Z_NO_FLUSH before; the inner loop calls deflate again while the   *)
(* output chunk was filled completely.  The abstract compressor consumes    *)
(* what it is offered (it may buffer), holds `pend` bytes of output that    *)
(* become available in chunks, and only after a call with Z_FINISH that      *)
(* saw all the input does it emit the end-of-stream trailer.                *)
(*                                                                         *)
(* Safety:  FinishSeesEverything - when the loop ends, deflate was called    *)
(*          with Z_FINISH after ALL input had been handed over, and the     *)
(*          stream was ended (trailer written) - otherwise the blob is a    *)
(*          truncated stream that the library's own decoder rejects.        *)
(*          HandoffInBuffer - the region handed over lies inside the payload.*)
(* Liveness: the loop terminates.                                           *)
(*                                                                         *)
(* Variant "finish-by-short-chunk" chooses Z_FINISH by "this chunk is       *)
(* shorter than Chunk" and ends the outer loop on "all input handed over":   *)
(* TLC reports FinishSeesEverything violated exactly for N a non-zero       *)
(* multiple of Chunk (seeded change C03a).                                   *)
(***************************************************************************)
EXTENDS Integers

CONSTANTS N, Chunk, OutMax, Variant

VARIABLES pc,        \* "outer" | "inner" | "check" | "done"
          ptr,       \* input bytes already handed over
          availIn,
          flush,     \* "NO_FLUSH" | "FINISH"
          pend,      \* output bytes the compressor holds and has not delivered yet
          ended,     \* the end-of-stream trailer has been produced (deflate returned Z_STREAM_END)
          made       \* output bytes of the last call
vars == <<pc, ptr, availIn, flush, pend, ended, made>>

Min(a, b) == IF a < b THEN a ELSE b

Init == pc = "outer" /\ ptr = 0 /\ availIn = 0 /\ flush = "NO_FLUSH" /\ pend = 0 /\ ended = FALSE /\ made = 0

Outer ==
    /\ pc = "outer"
    /\ LET take == IF Variant = "finish-by-short-chunk" THEN Min(Chunk, N - ptr)
                   ELSE IF ptr + Chunk < N THEN Chunk ELSE N - ptr
           fl == IF Variant = "finish-by-short-chunk" THEN (IF take < Chunk THEN "FINISH" ELSE "NO_FLUSH")
                 ELSE IF ptr + Chunk < N THEN "NO_FLUSH" ELSE "FINISH"
       IN availIn' = take /\ ptr' = ptr + take /\ flush' = fl
    /\ pc' = "inner"
    /\ UNCHANGED <<pend, ended, made>>

\* one deflate call with a fresh output chunk: consumes all offered input (zlib buffers it), produces some output
Deflate ==
    /\ pc = "inner"
    /\ \E gen \in 0 .. (IF availIn > 0 THEN OutMax ELSE 0) :    \* output generated from the newly consumed input
          LET have == pend + gen + (IF flush = "FINISH" /\ ~ended THEN 1 ELSE 0)      \* + trailer byte(s) on finish
              out == Min(Chunk, have)
          IN /\ (flush = "NO_FLUSH" => \E q \in 0 .. out : made' = q /\ pend' = have - q)    \* may hold output back
             /\ (flush = "FINISH" => made' = out /\ pend' = have - out)                      \* must flush everything
             /\ ended' = (ended \/ (flush = "FINISH" /\ have - out = 0))
    /\ availIn' = 0
    /\ pc' = IF made' = Chunk THEN "inner" ELSE "check"
    /\ UNCHANGED <<ptr, flush>>

Check ==
    /\ pc = "check"
    /\ pc' = IF Variant = "finish-by-short-chunk" THEN (IF ptr # N THEN "outer" ELSE "done")
             ELSE IF flush # "FINISH" THEN "outer" ELSE "done"
    /\ UNCHANGED <<ptr, availIn, flush, pend, ended, made>>

Next == Outer \/ Deflate \/ Check
Spec == Init /\ [][Next]_vars
FairSpec == Spec /\ WF_vars(Next)

HandoffInBuffer == availIn >= 0 /\ ptr <= N /\ availIn <= ptr
FinishSeesEverything == pc = "done" => (ptr = N /\ flush = "FINISH" /\ ended /\ pend = 0)
Terminates == <>(pc = "done")
=============================================================================
