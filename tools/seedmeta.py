#!/usr/bin/env python3
"""Brings seeded/<id>/meta.json up to date from the run logs seedrun.sh leaves in the directory:
which property the change breaks, what it needs to manifest (from the author), what was run against
it and which checks raised a VIOLATION."""
import glob
import json
import os
import re
import sys

VERIF = os.path.dirname(os.path.dirname(os.path.abspath(__file__)))


def main():
    rows = []
    for d in sorted(glob.glob(os.path.join(VERIF, "seeded", "*"))):
        mp = os.path.join(d, "meta.json")
        if not os.path.exists(mp):
            continue
        m = json.load(open(mp))
        det, missed, ran = [], [], []
        for lg in sorted(glob.glob(os.path.join(d, "run_*.log"))):
            cid = re.search(r"run_(C\d+)\.log", lg).group(1)
            txt = open(lg, errors="replace").read()
            n = len(re.findall(r"^VIOLATION property=", txt, re.M))
            ran.append("python3 tools/seedpar.py %s:%s   (scratch worktree of /repo's HEAD with seeded/%s/patch.diff applied; tools/check %s --tier quick with VERIF_REPO pointing there)"
                       % (os.path.basename(d), cid, os.path.basename(d), cid))
            (det if n else missed).append(cid)
        m["detected_by"] = det
        m["not_detected_by"] = missed
        m["ran"] = ran
        m.setdefault("confirmed", "tools/seedtest.sh in a scratch worktree: with the patch the build succeeds, the pinned suite passes (9/9 ctest "
                                  "executables) and the demo fails; without it the demo passes")
        json.dump(m, open(mp, "w"), indent=1)
        rows.append((os.path.basename(d), m.get("property"), det, missed))
    for r in rows:
        print("%-6s %-4s detected by %-22s missed by %s" % (r[0], r[1], ",".join(r[2]) or "-", ",".join(r[3]) or "-"))


if __name__ == "__main__":
    main()
