#!/bin/sh
# runall.sh [quick|thorough] [ID...] : runs the checks one after the other, keeps each log under build/logs/, prints one summary
# line per check (rc, VIOLATION lines, KNOWN-FINDING lines, wall time).
cd "$(dirname "$0")/.." || exit 2
tier="${1:-quick}"
[ $# -gt 0 ] && shift
ids="$*"
[ -z "$ids" ] && ids="C01 C02 C03 C04 C05 C06 C07 C08 C09 C10 C11 C12 C13 C14 C15 C16 C17 C18 C19 C20"
mkdir -p build/logs
worst=0
for id in $ids; do
  t0=$(date +%s)
  timeout 28000 tools/check "$id" --tier "$tier" > "build/logs/$id.$tier.log" 2>&1
  rc=$?
  t1=$(date +%s)
  nv=$(grep -c '^VIOLATION' "build/logs/$id.$tier.log")
  nk=$(grep -c '^KNOWN-FINDING' "build/logs/$id.$tier.log")
  echo "$id $tier rc=$rc violations=$nv known=$nk wall=$((t1 - t0))s"
  [ "$rc" -gt "$worst" ] && worst=$rc
done
exit $worst
