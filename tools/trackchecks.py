#!/usr/bin/env python3
"""Track-level checks: C01 (snapshot round trip / fixed point / rejection) and C06 (getters, setters,
frame), driven by harness/trackdriver and judged by TLC against TrackFields.tla (TraceTrackFields)."""
import json
import os
import random
import struct
import time

import libcheck
import vbuild
import vlib
from libcheck import Workload
from vlib import log

ALL_FIELDS_S = ["album", "artist", "comment", "composer", "genre", "title", "publisher"]


def run_mc_track(wd, max_setters=2):
    cfg = vlib.cfg_text("Spec", {"MaxSetters": max_setters}, invariants=["FixInv"], constraints=["EmitSeq"])
    rc, outp = vlib.run_tlc("MCTrackFields", cfg, wd, "mctrack", workers=8, timeout=900, xmx="8g")
    res = vlib.parse_tlc(outp)
    if not res["ok"]:
        raise vlib.ToolFailure("MCTrackFields failed: %s (see %s)" % (res["errors"][:2], outp))
    seqs, bases = [], None
    with open(outp, errors="replace") as fh:
        for line in fh:
            if line.startswith('"SETS '):
                seqs.append(json.loads(json.loads(line)[5:]))
            elif line.startswith('"BASES '):
                bases = json.loads(json.loads(line)[6:])
    if not bases:
        raise vlib.ToolFailure("MCTrackFields printed no base snapshots (see %s)" % outp)
    res["instance"] = "mctrack_%d" % max_setters
    return res, bases, seqs


def hexd(x):
    return struct.pack(">d", x).hex()


def random_snapshot(r, k):
    """Seed-chosen snapshot values (inputs only)."""
    def s():
        c = r.random()
        if c < 0.2:
            return []
        if c < 0.3:
            return [""]
        if c < 0.4:
            return ["@long%d" % r.choice([33, 255, 256, 1000, 5000])]
        if c < 0.5:
            return ["@utf8"]
        return ["".join(r.choice("abc XYZ0189_-.'()&") for _ in range(r.randrange(1, 30)))]

    def d():
        c = r.random()
        if c < 0.2:
            return []
        if c < 0.3:
            return [r.choice(["0000000000000000", "8000000000000000", "bff0000000000000", "7ff0000000000000", "0000000000000001"])]
        return [hexd(r.choice([r.uniform(-10, 10), r.uniform(0, 1e9), r.uniform(40, 200)]))]

    def i(lo, hi):
        return [] if r.random() < 0.2 else [r.choice([lo, hi, 0, r.randrange(lo, hi)])]

    def dd():
        x = d()
        return x[0] if x else hexd(r.uniform(0, 1e7))

    def cue():
        lab = r.choice(["", "a", "Intro", "@long255", "@utf8", "@long256" if r.random() < 0.1 else "x"])
        return [] if r.random() < 0.3 else [{"label": lab, "off": dd(),
                                            "r": r.randrange(256), "g": r.randrange(256), "b": r.randrange(256), "a": r.choice([255, 255, 0, 128])}]

    def loop():
        c = cue()
        if not c:
            return c
        x = c[0]
        return [{"label": x["label"], "start": x["off"], "end": hexd(r.uniform(0, 1e7)), "r": x["r"], "g": x["g"], "b": x["b"], "a": x["a"]}]

    snap = {"relative_path": ["music/r%d_%d.%s" % (k, r.randrange(10 ** 6), r.choice(["mp3", "flac", "wav", "M4A"]))]}
    for f in ALL_FIELDS_S:
        snap[f] = s()
    for f in ("average_loudness", "bpm", "main_cue", "sample_rate"):
        snap[f] = d()
    snap["bitrate"] = i(0, 2147483647)
    snap["track_number"] = i(-5, 999)
    snap["year"] = i(-1, 9999)
    snap["rating"] = i(-10, 200)
    snap["key"] = [] if r.random() < 0.2 else [r.randrange(0, 24)]
    snap["duration"] = [] if r.random() < 0.2 else [r.choice([0, 1, 999, 1000, 1001, r.randrange(0, 2 * 10 ** 9)])]
    snap["file_bytes"] = [] if r.random() < 0.2 else [str(r.choice([0, 1, r.randrange(0, 2 ** 40), 2 ** 63 - 1, 2 ** 63, 2 ** 64 - 1, r.randrange(2 ** 63, 2 ** 64)]))]
    snap["sample_count"] = [] if r.random() < 0.2 else [str(r.choice([0, 1, r.randrange(0, 2 ** 40)]))]
    snap["last_played_at"] = [] if r.random() < 0.2 else [{"s": str(r.choice([0, 1, 1700000000, r.randrange(0, 2 ** 32)])), "f": r.choice([0, 0, 1, 999999999, 500000000])}]
    n = r.choice([0, 0, 2, 3, 17, 1, 400 if r.random() < 0.05 else 4])
    idx, off, g = r.randrange(-8, 2), r.uniform(-1000, 1000), []
    for _ in range(n):
        g.append([idx, hexd(off)])
        idx += r.randrange(1, 9)
        off += r.uniform(100, 40000)
    snap["beatgrid"] = g
    snap["hot_cues"] = [cue() for _ in range(r.choice([0, 1, 3, 8, 8, 9 if r.random() < 0.1 else 8]))]
    snap["loops"] = [loop() for _ in range(r.choice([0, 1, 8, 8, 9 if r.random() < 0.1 else 2]))]
    if snap["sample_count"] and snap["sample_rate"]:
        snap["waveform"] = {"n": r.choice([0, 1, 100, 1024, 3000]), "seed": r.randrange(1000), "opaque": r.random() < 0.7}
    return snap


def track_history_check(prop, tier, seed, build, rule, assumptions, level=None, flags=None):
    import checks
    return checks.history_check(prop, tier, seed, build, module="TraceTrackFields", cfg=track_cfg(), rule=rule,
                                assumptions=assumptions, level=level, driver="trackdriver")


def track_cfg():
    return vlib.cfg_text("TSpec", {}, postcondition="Accepted").replace("CONSTANTS\n", "")


def mk(op, **kw):
    d = {"op": op}
    d.update(kw)
    return d


def check_C01(tier, seed):
    def build(wd, mc_stats):
        res, bases, seqs = run_mc_track(wd, 1)
        mc_stats.append({"instance": res["instance"], "states": res["states"], "transitions": res["generated"]})
        names = sorted(bases)
        scripts = []
        # every base alone, every ordered pair create(A) -> update(B), each followed by the fixed-point step
        for a in names:
            scripts.append([mk("create", snap=bases[a]), mk("fixpoint", t=1)])
            for b in names:
                scripts.append([mk("create", snap=bases[a]), mk("update", t=1, snap=bases[b]), mk("fixpoint", t=1),
                                mk("update", t=1, snap=bases[a]), mk("fixpoint", t=1)])
        # every value class of every field written through a snapshot (on top of the minimal and the full base)
        # (file_bytes has no setter, hence no setter sequence in the model's output: its value classes are added here, so that
        #  "an update that changes this field only" exists for every snapshot field)
        fb_classes = [{"f": "file_bytes", "v": v} for v in ([], ["0"], ["1"], ["7654321"], ["1099511627776"])]
        # the edges of the two unsigned 64-bit fields of a snapshot: the columns are signed 64-bit, the conversion wraps both ways
        # and is exact (seeded change C01f: a range-checked conversion helper stores NULL above 2^63 - 1)
        fb_classes += [{"f": f, "v": [v]} for f in ("file_bytes", "sample_count")
                       for v in ("9223372036854775807", "9223372036854775808", "18446744073709551615")]
        for sq in seqs + [[x] for x in fb_classes]:
            f, v = sq[0]["f"], sq[0]["v"]
            if f in ("hot_cue_at", "loop_at"):
                continue
            for a in ("min", "full"):
                snap = dict(bases[a])
                snap[f] = v
                scripts.append([mk("create", snap=snap), mk("fixpoint", t=1), mk("update", t=1, snap=bases["full"]), mk("update", t=1, snap=snap),
                                mk("fixpoint", t=1)])
        # waveforms whose stored encoding ends exactly on / next to a chunk boundary of the compression loop (1.x high-resolution
        # waveform: 30 + 6 n bytes; DeflateLoop.tla: the boundary class N = k * Chunk)
        for n in (8186, 8187, 8188, 16379):
            snap = dict(bases["full"])
            snap["waveform"] = {"n": n, "seed": 7, "opaque": True}
            scripts.append([mk("create", snap=snap), mk("fixpoint", t=1), mk("update", t=1, snap=bases["min"]), mk("update", t=1, snap=snap), mk("fixpoint", t=1)])
        # snapshots that must be rejected
        bad = [dict(bases["full"], relative_path=[]), dict(bases["full"], relative_path=["noextension"]),
               dict(bases["full"], hot_cues=[[{"label": "c", "off": "40c3880000000000"}]] * 9),
               dict(bases["full"], loops=[[{"label": "c", "start": "40c3880000000000", "end": "40d3880000000000"}]] * 9),
               dict(bases["full"], hot_cues=[[{"label": "@long256", "off": "40c3880000000000"}]]),
               dict(bases["full"], beatgrid=[[0, "40c3880000000000"]])]
        for b in bad:
            scripts.append([mk("create", snap=bases["min"]), mk("update", t=1, snap=b), mk("create", snap=b), mk("fixpoint", t=1)])
        rnd = random.Random(seed)
        nrand = 200 if tier == "quick" else 1500
        rscripts = []
        for k in range(nrand):
            a, b = random_snapshot(rnd, k), random_snapshot(rnd, k + 100000)
            rscripts.append([mk("create", snap=a), mk("fixpoint", t=1), mk("update", t=1, snap=b), mk("fixpoint", t=1), mk("create", snap=b),
                             mk("fixpoint", t=2)])
        ws = []
        schemas = vlib.REPR + checks_pick(seed, 2) if tier == "quick" else vlib.ALL
        for s in schemas:
            ws.append(Workload(s, scripts, [], origin=res["instance"], per_shard=500))
            ws.append(Workload(s, rscripts, [], tag="r", origin="seed-chosen values", per_shard=500))
        # on disk with a reopen at the end (track data part of C10)
        for s in (["1.6.0", "1.18.0o", "2.18.0", "2.21.2"] if tier == "quick" else vlib.ALL):
            ws.append(Workload(s, [x + [mk("reopen")] for x in scripts[:40] + rscripts[:40]], [], mode="disk", tag="d", origin=res["instance"], per_shard=500))
        return ws

    return track_history_check(
        "C01", tier, seed, build,
        "every base snapshot (minimal / full / sentinels / edge), every ordered pair create(A) then update(B), and every value class of "
        "every field (absent, each sentinel, ordinary and edge values; cues and loops at slots 0, 3, 7 and with 1, 8, 9 entries; labels of 0, "
        "255, 256 bytes; grids of 0..3 markers) written through create_track and update, plus seed-chosen snapshots with arbitrary doubles, long "
        "and multi-byte strings; after every call the snapshot of every track must be an acceptable read-back of what was written "
        "(TrackFields!SnapOK) or the call must have thrown leaving everything unchanged; the fixpoint step writes the read-back snapshot again "
        "and requires an identical snapshot; snapshots the schema cannot hold (no path, no extension in 2.x, 9 slots, 256-byte label, "
        "one-marker grid in 1.x) must be rejected",
        ["a rejected write is always acceptable for C01 (the property speaks about snapshots the library accepts)",
         "2.x stores only a 1024-point overview waveform: the waveform is judged by the fixed-point rule there",
         "string equality is by token (text when short and printable, else length + FNV-64)"])


def checks_pick(seed, k):
    import checks
    return checks.pick_extra([s for s in vlib.ALL if s not in vlib.REPR], seed, k)


def check_C06(tier, seed):
    def build(wd, mc_stats):
        res, bases, seqs = run_mc_track(wd, 2)
        mc_stats.append({"instance": res["instance"], "states": res["states"], "transitions": res["generated"]})
        singles = [sq for sq in seqs if len(sq) == 1]
        pairs = [sq for sq in seqs if len(sq) == 2]
        rnd = random.Random(seed)

        def script(sq, base, two_tracks):
            ops = [mk("create", snap=bases[base])]
            if two_tracks:
                ops.append(mk("create", snap=dict(bases["sentinels"], relative_path=["other/track.flac"])))
            for k, o in enumerate(sq):
                ops.append(mk("set", t=1 + (k % 2 if two_tracks else 0), f=o["f"], v=o["v"]))
            ops.append(mk("fixpoint", t=1))
            return ops

        ws = []
        schemas = vlib.REPR + checks_pick(seed, 2) if tier == "quick" else vlib.ALL
        npairs = 600 if tier == "quick" else 4000
        for s in schemas:
            r = random.Random(seed * 7 + vlib.ALL.index(s))
            sc = [script(sq, "full", False) for sq in singles] + [script(sq, "min", False) for sq in singles]
            # (on the newest schema of each family many more ordered pairs of the model are executed - all of them in the thorough tier)
            np_s = (3000 if tier == "quick" else len(pairs)) if s in ("1.18.0o", "2.21.2") else npairs
            sc += [script(sq, r.choice(["full", "full", "sentinels", "edge"]), r.random() < 0.5) for sq in r.sample(pairs, min(np_s, len(pairs)))]
            ws.append(Workload(s, sc, [], flags={"stale_get": False}, origin=res["instance"], per_shard=500))
        # (R) longer seed-chosen setter sequences over three tracks
        nr = 40 if tier == "quick" else 300
        for s in schemas:
            r = random.Random(seed * 13 + vlib.ALL.index(s))
            sc = []
            for _ in range(nr):
                ops = [mk("create", snap=bases["full"]), mk("create", snap=dict(bases["sentinels"], relative_path=["o/t2.flac"])),
                       mk("create", snap=dict(bases["min"], relative_path=["o/t3.wav"]))]
                for _ in range(40):
                    o = r.choice(singles)[0]
                    ops.append(mk("set", t=r.randrange(1, 4), f=o["f"], v=o["v"]))
                    if r.random() < 0.05:
                        ops.append(mk("fixpoint", t=r.randrange(1, 4)))
                sc.append(ops)
            ws.append(Workload(s, sc, [], tag="r", origin=res["instance"] + " (random walk)", per_shard=250))
        return ws

    return track_history_check(
        "C06", tier, seed, build,
        "after creating one or two tracks, every single setter call with every value class (25 fields incl. the per-slot cue and loop setters "
        "at indices -1, 0, 3, 7, 8) and seed-chosen ordered pairs / 40-step sequences of setters over up to three tracks are executed; after "
        "every call all 25 getters, the per-slot getters, snapshot(), filename() and file_extension() of every track are recorded; TLC "
        "requires: the addressed field reads back as set (TrackFields!FieldOK), no other field of that track and no field of any other track "
        "changes, every getter equals the snapshot field, filename / extension follow the relative path; a setter that throws must change nothing",
        ["a setter may reject a value (std::exception) if it then changes nothing", "there is no getter / setter for file_bytes"])
