#!/bin/sh
# seedtest.sh <worktree>: confirm a seeded change: (patched) builds, suite passes, demo fails; (unpatched) demo passes.
# The worktree is expected to have the patch applied and SEED/{patch.diff,demo.cpp,demo_build.sh}.
WT="$1"
cd "$WT" || exit 2
echo "== patched: build + ctest"
cmake --build _build -j8 >/dev/null 2>&1 || { echo "BUILD FAILED (patched)"; exit 1; }
ctest --test-dir _build -j8 --timeout 900 2>&1 | tail -3
echo "== patched: demo (must fail)"
sh SEED/demo_build.sh >SEED/demo_patched.log 2>&1; echo "demo rc=$?"; tail -3 SEED/demo_patched.log
echo "== unpatched: demo (must pass)"
git apply -R SEED/patch.diff || { echo "cannot reverse patch"; exit 1; }
cmake --build _build -j8 >/dev/null 2>&1 || { echo "BUILD FAILED (clean)"; }
sh SEED/demo_build.sh >SEED/demo_clean.log 2>&1; echo "demo rc=$?"; tail -3 SEED/demo_clean.log
git apply SEED/patch.diff
