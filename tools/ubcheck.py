#!/usr/bin/env python3
"""C15: no public call has undefined behaviour, whatever its arguments.  The histories of the Library
and TrackFields models are replayed in the ASan + UBSan + _GLIBCXX_ASSERTIONS build, each extended by a
battery of *probes*: calls outside the modelled domain (handles to removed crates and tracks, ids of
nonexistent entities, crates from elsewhere in the tree, out-of-range indices, over-long lists and
labels, extreme numbers, waveform without sample rate).  TLC validates outcome classes and the
stale-handle rules (actions TProbe); a crash, sanitizer report or watchdog expiry is reported directly."""
import random

import checks
import libcheck
import trackchecks
import vlib
from libcheck import Workload

BIG = "408f400000000000"      # 1000.0
HUGE = "430c6bf526340000"     # 1e15
NEG = "c30c6bf526340000"      # -1e15
TINY = "0000000000000001"     # smallest denormal


def crate_probes(nc, nt):
    """Probe battery for a library driver execution with handles 1..nc (crates) and 1..nt (tracks)."""
    ops = []
    for c in range(1, nc + 1):
        ops.append({"op": "probe_crate", "c": c, "probe": True})
    for c in range(1, nc + 1):
        o = 1 + (c % nc)
        ops += [{"op": "set_name", "c": c, "n": "q", "probe": True},
                {"op": "set_name", "c": c, "n": "@long10000", "probe": True},
                {"op": "set_name", "c": c, "n": "@nul", "probe": True},
                {"op": "set_parent", "c": c, "p": o, "probe": True},
                {"op": "set_parent", "c": o, "p": c, "probe": True},
                {"op": "create_sub", "c": c, "n": "@utf8", "probe": True},
                {"op": "create_sub_after", "c": c, "n": "p1", "after": o, "probe": True},
                {"op": "create_root_after", "n": "p2", "after": c, "probe": True},
                {"op": "add_track_id", "c": c, "id": 424242, "probe": True},
                {"op": "add_track_id", "c": c, "id": -1, "probe": True},
                {"op": "add_track_id", "c": c, "id": 0, "probe": True},
                {"op": "clear_tracks", "c": c, "probe": True}]
        for t in range(1, nt + 1):
            ops += [{"op": "add_track", "c": c, "t": t, "probe": True}, {"op": "remove_track_from", "c": c, "t": t, "probe": True}]
    for t in range(1, nt + 1):
        ops += [{"op": "remove_track", "t": t, "probe": True}, {"op": "remove_track", "t": t, "probe": True}]
    for c in range(1, nc + 1):
        ops += [{"op": "remove_crate", "c": c, "probe": True}, {"op": "remove_crate", "c": c, "probe": True},
                {"op": "probe_crate", "c": c, "probe": True}, {"op": "create_sub", "c": c, "n": "z", "probe": True}]
    # membership calls through handles to removed crates, with a live track and with ids of nothing
    ops.append({"op": "create_track", "probe": True})
    for c in range(1, nc + 1):
        ops += [{"op": "add_track", "c": c, "t": nt + 1, "probe": True}, {"op": "add_track_id", "c": c, "id": 424242, "probe": True},
                {"op": "remove_track_from", "c": c, "t": nt + 1, "probe": True}, {"op": "clear_tracks", "c": c, "probe": True}]
    ops.append({"op": "create_root", "n": "@long100000", "probe": True})
    # handles of another library object (one per schema family) as arguments
    ops.append({"op": "create_root", "n": "pfroot", "probe": True})
    ops.append({"op": "probe_foreign", "c": 1, "probe": True})        # (by now a handle to a removed crate)
    ops.append({"op": "probe_foreign", "c": nc + 1, "probe": True})   # (a live crate, if every earlier creation succeeded)
    return ops


def count_handles(script):
    nc = sum(1 for o in script if o["op"].startswith("create_") and o["op"] != "create_track" and o.get("exp", "ok") == "ok")
    nt = sum(1 for o in script if o["op"] == "create_track")
    return nc, nt


def track_probes(nt, bases):
    cue = {"label": "c", "off": BIG}
    loop = {"label": "l", "start": BIG, "end": HUGE}
    ext = dict(bases["full"])
    ext.update({"bpm": [HUGE], "average_loudness": [NEG], "main_cue": [HUGE], "sample_rate": [TINY], "duration": [2147483647],
                "sample_count": ["18446744073709551615"], "file_bytes": ["18446744073709551615"], "rating": [2147483647], "year": [-2147483647],
                "hot_cues": [[cue]] * 12, "loops": [[loop]] * 12, "relative_path": ["x/" + "@long300"]})
    nowave = dict(bases["min"], relative_path=["w/nowave.mp3"], waveform={"n": 64, "seed": 5, "opaque": True})
    ops = []
    for t in range(1, nt + 1):
        for f, v in [("bpm", [HUGE]), ("bpm", [NEG]), ("bpm", ["7ff8000000000000"]), ("sample_rate", [TINY]), ("sample_rate", []),
                     ("sample_count", ["18446744073709551615"]), ("waveform", {"n": 100, "seed": 1, "opaque": False}),
                     ("hot_cue_at", {"i": 9, "v": [cue]}), ("hot_cue_at", {"i": -1, "v": []}), ("hot_cue_at", {"i": 2147483647, "v": [cue]}),
                     ("loop_at", {"i": 9, "v": [loop]}), ("loop_at", {"i": -2147483647, "v": []}),
                     ("hot_cues", [[cue]] * 12), ("loops", [[loop]] * 12), ("hot_cues", [[{"label": "@long300", "off": BIG}]]),
                     ("loops", [[{"label": "@long300", "start": BIG, "end": HUGE}]]), ("loops", [[], [{"label": "@long256", "start": BIG, "end": HUGE}]]),
                     ("loop_at", {"i": 2, "v": [{"label": "@long300", "start": BIG, "end": HUGE}]}),
                     ("loop_at", {"i": 7, "v": [{"label": "@long256", "start": BIG, "end": HUGE}]}),
                     ("hot_cue_at", {"i": 2, "v": [{"label": "@long300", "off": BIG}]}), ("hot_cue_at", {"i": 0, "v": [{"label": "@long256", "off": BIG}]}),
                     ("beatgrid", [[0, BIG]]), ("beatgrid", [[5, BIG], [1, "4000000000000000"]]), ("duration", [-1]), ("duration", [2147483647]),
                     ("rating", [-2147483647]), ("key", [99]), ("relative_path", [""]), ("relative_path", ["@long5000"]),
                     ("last_played_at", [{"s": "-1", "f": 0}]), ("last_played_at", [{"s": "9223372035", "f": 0}]), ("title", ["@long100000"]),
                     # the most negative 64-bit count with a rate of -1 (INT64_MIN / -1), in both orders of arrival
                     ("sample_rate", ["bff0000000000000"]), ("sample_count", ["9223372036854775808"]), ("sample_rate", ["40e5888000000000"]),
                     ("sample_rate", ["bff0000000000000"]), ("sample_count", ["18446744073709551615"]), ("sample_rate", ["bff8000000000000"]),
                     # rates no 64-bit integer can hold (1e300, -1e300, 2^63), with a count present
                     ("sample_rate", ["7e37e43c8800759c"]), ("sample_rate", ["fe37e43c8800759c"]), ("sample_rate", ["43e0000000000000"])]:
            ops.append({"op": "set", "t": t, "f": f, "v": v, "probe": True})
        ops.append({"op": "update", "t": t, "snap": ext, "probe": True})
        ops.append({"op": "update", "t": t, "snap": nowave, "probe": True})
    negrate = dict(bases["full"], relative_path=["w/negrate.mp3"], sample_rate=["bff0000000000000"], sample_count=["9223372036854775808"])
    negrate.pop("waveform", None)
    ops += [{"op": "create", "snap": negrate, "probe": True}]
    ops += [{"op": "create", "snap": ext, "probe": True}, {"op": "create", "snap": nowave, "probe": True},
            {"op": "create", "snap": {}, "probe": True}]
    for t in range(1, nt + 1):
        ops += [{"op": "remove", "t": t, "probe": True}, {"op": "remove", "t": t, "probe": True},
                {"op": "set", "t": t, "f": "title", "v": ["x"], "probe": True}, {"op": "set", "t": t, "f": "hot_cue_at", "v": {"i": 0, "v": [cue]}, "probe": True},
                {"op": "update", "t": t, "snap": bases["full"], "probe": True}, {"op": "fixpoint", "t": t, "probe": True}]
    return ops


def check_C15(tier, seed):
    def build_lib(wd, mc_stats):
        ws = []
        cache = {}
        schemas = vlib.quick_schemas(seed) if tier == "quick" else vlib.ALL
        n1 = 20 if tier == "quick" else 300
        for s in schemas:
            st, sc, st2, sc2 = checks._std_graphs(wd, mc_stats, vlib.family(s), cache)
            r = random.Random(seed * 271 + vlib.ALL.index(s))
            picked = []
            for x in r.sample(sc, min(n1, len(sc))) + r.sample(sc2, min(n1, len(sc2))):
                nc, nt = count_handles(x)
                picked.append(list(x) + crate_probes(max(nc, 1), nt))
            ws.append(Workload(s, picked, libcheck.NAMES4 + ["d"], flags={"raw": True}, origin=st["instance"] + " + probes"))
            # two database objects on one directory, handles of both mixed as arguments (MultiConn), in the sanitizer build
            if s in ("1.6.0", "1.18.0o", "2.18.0", "2.21.2") or tier != "quick":
                n2 = 6 if tier == "quick" else 40
                ws.append(Workload(s, libcheck.with_via([x for x in picked[:n2]], r), libcheck.NAMES4 + ["d"], mode="disk", tag="m",
                                   flags={"conn2": True}, origin=st["instance"] + " + probes, two connections"))
        # re-parenting with "crates from elsewhere in the tree" as arguments: every transition of the Library graph over 4 crates
        # built by create_root / create_sub and moved by set_parent (6 calls), in the sanitizer build - a structure damaged by one
        # move is the input of the next (seeded change C15f: a hierarchy row missing after the first move lets the second one
        # build a cycle, and the path rewrite recurses until the stack is gone)
        mcache = {}
        for s in schemas:
            fam = vlib.family(s)
            if fam not in mcache:
                mcache[fam] = vlib.mc_forest(wd, fam, 4, 6, crate_ops="move", opnames=("a",) if fam == "v1" else ("a", "b", "c", "d"), timeout=1500)
                mc_stats.append(mcache[fam][0])
            st, sc = mcache[fam]
            r = random.Random(seed * 283 + vlib.ALL.index(s))
            nm = (450 if fam == "v1" else 250) if tier == "quick" else 6000
            ws.append(Workload(s, sc if len(sc) <= nm else r.sample(sc, nm), libcheck.NAMES4 + ["d"], tag="mv", origin=st["instance"]))
        return ws

    def build_track(wd, mc_stats):
        res, bases, seqs = trackchecks.run_mc_track(wd, 1)
        mc_stats.append({"instance": res["instance"], "states": res["states"], "transitions": res["generated"]})
        singles = [sq for sq in seqs if len(sq) == 1]
        ws = []
        schemas = vlib.quick_schemas(seed) if tier == "quick" else vlib.ALL
        for s in schemas:
            r = random.Random(seed * 277 + vlib.ALL.index(s))
            sc = []
            # every value class of every setter in the sanitizer build, then the probe battery
            chunk = 25
            for i in range(0, len(singles), chunk):
                ops = [trackchecks.mk("create", snap=bases["full"]), trackchecks.mk("create", snap=dict(bases["sentinels"], relative_path=["o/t2.flac"]))]
                for sq in singles[i:i + chunk]:
                    ops.append(trackchecks.mk("set", t=1 + (len(ops) % 2), f=sq[0]["f"], v=sq[0]["v"]))
                sc.append(ops + track_probes(2, bases))
            for b in ("min", "edge"):
                sc.append([trackchecks.mk("create", snap=bases[b])] + track_probes(1, bases))
            ws.append(Workload(s, sc, [], flags={"stale_get": True, "raw": True}, origin=res["instance"] + " + probes"))
        return ws

    return checks.history_check(
        "C15", tier, seed, build_lib, flavour="san", watchdog=20, level="exploration",
        also=[{"driver": "trackdriver", "module": "TraceTrackFields", "cfg": trackchecks.track_cfg(), "build": build_track}],
        rule="sanitizer build (ASan + UBSan + _GLIBCXX_ASSERTIONS, g++): (a) histories of the Library graphs, each followed by the crate probe "
             "battery - every observer, copy / assign / id() on every handle incl. handles to removed crates, set_name with 10000-byte / "
             "NUL / UTF-8 names, set_parent in both directions, create_sub_crate_after / create_root_crate_after with a crate from elsewhere, "
             "add_track with ids of nonexistent tracks (424242, -1, 0), every crate x track pair, double remove_track / remove_crate, "
             "operations on the removed handles; (b) every setter value class of MCTrackFields followed by the track probe battery - bpm "
             "+-1e15 / NaN, denormal sample rate, sample rate absent with waveform present, 2^64-1 counts, cue / loop indices 9, -1, +-2^31-1, "
             "12-slot lists, 300-byte labels, invalid grids, duration / rating / year at int limits, key 99, empty and 5000-byte paths, "
             "timestamps -1 and 2^33, 100000-byte title, update / create with extreme snapshots, double remove, setters / update / snapshot on "
             "removed handles; TLC (TProbe) requires every call and every observer to complete or throw a std::exception and stale handles to "
             "stay copyable with is_valid() = false and id() intact; a death, sanitizer report or watchdog expiry of the traced process is reported",
        assumptions=["undefined behaviour that neither crashes nor trips a sanitizer is invisible to this (and any dynamic) method",
                     "memory safety is observed by instrumentation, not decided by TLA+; TLC decides the call domain, outcomes and handle validity"])
