#!/usr/bin/env python3
"""Checks of the pure functions (C19 waveform extents, C20 beat-grid normalisation): TLC explores the
bounded specification and emits every state as a test input, the compiled functions are run on them
(plus seed-chosen larger inputs), and TLC validates every recorded result against the specification."""
import json
import os
import random
import re
import subprocess
import time
from concurrent.futures import ThreadPoolExecutor

import vbuild
import vlib
from vlib import log


def validate_records(module, cfg, path, wd, tag, max_rejections=5, timeout=900, env=None):
    """Independent records, one per line: TLC consumes them in order; a record it cannot explain is
    reported, cut out, and validation continues behind it."""
    with open(path, errors="replace") as fh:
        lines = [x for x in fh if x.strip()]
    # marker records written by the driver's signal handler are not observations: the death itself is
    # reported by the caller (driver exit status); TLC only sees complete records
    markers = [x for x in lines if x.startswith('{"e":"died"') or x.startswith('{"e":"hang"')]
    if markers:
        lines = [x for x in lines if x not in markers]
        path = path + ".clean"
        with open(path, "w") as fh:
            fh.writelines(lines)
    res = {"records": len(lines), "accepted": 0, "rejected": [], "kf": [], "tlc_states": 0, "incomplete": False,
           "death_markers": len(markers)}
    pos = 0
    rnd = 0
    while pos < len(lines):
        rnd += 1
        tp = path if pos == 0 else os.path.join(wd, "%s.r%d.ndjson" % (tag, rnd))
        if pos:
            with open(tp, "w") as fh:
                fh.writelines(lines[pos:])
        e = {"TRACE": tp}
        if env:
            e.update(env)
        rc, outp = vlib.run_tlc(module, cfg, wd, "%s.v%d" % (tag, rnd), workers=1, timeout=timeout, env=e)
        r = vlib.parse_tlc(outp)
        if r["fatal"] or r["depth"] is None:
            raise vlib.ToolFailure("TLC failed validating %s: rc=%s %s %s (see %s)" % (path, rc, r["fatal"], r["errors"][:1], outp))
        res["tlc_states"] += r["states"] or 0
        for (l, name) in r["kf"]:
            res["kf"].append({"record": pos + l - 1, "kf": name})
        n = len(lines) - pos
        if r["ok"] or (r["depth"] is not None and r["depth"] - 1 >= n):
            res["accepted"] += n
            break
        k = r["depth"]  # records 1..k-1 consumed, record k not explained
        res["accepted"] += k - 1
        gi = pos + k - 1
        try:
            rec = json.loads(lines[gi])
        except Exception:
            rec = {"garbled": lines[gi][:200]}
        res["rejected"].append({"record_index": gi, "record": rec, "tlc_out": outp,
                                "reason": "no disjunct of the trace specification explains this record"})
        pos = gi + 1
        if len(res["rejected"]) >= max_rejections:
            res["incomplete"] = pos < len(lines)
            break
    return res


def shard_lines(lines, wd, base, n):
    n = max(1, min(n, len(lines)))
    files = []
    for i in range(n):
        p = os.path.join(wd, "%s_%d.in.ndjson" % (base, i))
        with open(p, "w") as fh:
            fh.writelines(lines[i::n])
        files.append(p)
    return files


def run_pure(binary, mode, inputs, wd, base, jobs=vlib.NCPU, timeout=600):
    """Runs puredriver on every input shard in parallel; returns list of (in, out, events)."""
    def go(p):
        """Runs the driver over one input shard; when it dies on an input, that input is recorded as an
        event and the driver is restarted behind it, so the rest of the shard is still executed."""
        out = p.replace(".in.ndjson", ".out.ndjson")
        env = dict(os.environ)
        env.setdefault("ASAN_OPTIONS", "detect_leaks=0:exitcode=99:allocator_may_return_null=1")
        env.setdefault("UBSAN_OPTIONS", "print_stacktrace=1:halt_on_error=1:exitcode=99")
        with open(p) as fh:
            todo = fh.readlines()
        events = []
        open(out, "w").close()
        part = 0
        while todo:
            part += 1
            pin, pout = "%s.p%d" % (p, part), "%s.p%d" % (out, part)
            with open(pin, "w") as fh:
                fh.writelines(todo)
            try:
                r = subprocess.run([binary, mode, pin, pout], stdout=subprocess.PIPE, stderr=subprocess.PIPE, timeout=timeout, env=env)
                rc, err = r.returncode, r.stderr.decode(errors="replace")[-3000:]
            except subprocess.TimeoutExpired:
                rc, err = 124, "timeout"
            done = []
            if os.path.exists(pout):
                with open(pout, errors="replace") as fh:
                    done = [x for x in fh if x.strip() and not x.startswith('{"e":"died"') and not x.startswith('{"e":"hang"')]
            with open(out, "a") as fh:
                fh.writelines(done)
            if rc == 0:
                break
            culprit = todo[len(done)] if len(done) < len(todo) else None
            events.append({"rc": rc, "stderr": err, "input": culprit and culprit[:2000]})
            todo = todo[len(done) + 1:]
            if len(events) >= 25 or rc == 124:
                break
        ev = None
        if events:
            ev = dict(events[0])
            ev["deaths"] = len(events)
            ev["all"] = events[:10]
        return (p, out, ev)

    with ThreadPoolExecutor(jobs) as ex:
        return list(ex.map(go, inputs))


def pure_cfg(spec="TSpec"):
    return vlib.cfg_text(spec, {}, postcondition="Accepted").replace("CONSTANTS\n", "")


def finish(prop, tier, seed, level, cov, t0, violations, known_names, kf_seen, assumptions):
    allk = [k for k in vlib.load_known_findings() if "kf" in k]
    known = {k["kf"]: k for k in allk if k["property"] == prop}
    elsewhere = {k["kf"]: k["property"] for k in allk if k["property"] != prop}
    for name in sorted(kf_seen):
        if name in known:
            print("KNOWN-FINDING: property=%s %s: %s" % (prop, name, known[name]["what"]))
        elif name in elsewhere:
            # a listed finding that another property judges (this property says nothing about the behaviour): noted only
            cov.setdefault("findings_judged_elsewhere", []).append({"kf": name, "property": elsewhere[name]})
        else:
            violations.append({"reason": "finding class '%s' is not a listed known finding of %s" % (name, prop),
                               "record": kf_seen[name]})
    cov["known_findings_seen"] = sorted(kf_seen)
    vlib.write_evidence(prop, tier, seed, level, cov, time.time() - t0, len(violations), assumptions=assumptions)
    for i, p in enumerate(violations[:5]):
        path = vlib.replay_file(prop, i + 1, p)
        log("violation: %s | %s" % (p.get("reason"), json.dumps(p.get("record"))[:300]))
        print("VIOLATION property=%s replay=%s" % (prop, path))
    if len(violations) > 5:
        log("%d further violations not listed" % (len(violations) - 5))
    return 1 if violations else 0


# --------------------------------------------------------------------------------------------- C19
RATES = [0, 1, 209, 210, 211, 419, 420, 421, 630, 8000, 11025, 22050, 44100, 48000, 88200, 96000, 192000, 2147483647]


def run_tlapm(wd):
    """Checks WaveformProofs.tla with the TLA+ proof system; returns (obligations, proved)."""
    out = os.path.join(wd, "tlapm.out")
    cache = os.path.join(wd, "tlapm_cache")
    with open(out, "w") as fh:
        try:
            subprocess.run(["tlapm", "--cleanfp", "--cache-dir", cache, "WaveformProofs.tla"], cwd=vlib.SPEC, stdout=fh,
                           stderr=subprocess.STDOUT, timeout=600)
        except subprocess.TimeoutExpired:
            raise vlib.ToolFailure("tlapm timed out")
    txt = open(out, errors="replace").read()
    m = re.search(r"All (\d+) obligations? proved", txt)
    if m:
        return int(m.group(1)), int(m.group(1))
    m = re.search(r"(\d+)/(\d+) obligations failed", txt)
    if m:
        return int(m.group(2)), int(m.group(2)) - int(m.group(1))
    raise vlib.ToolFailure("cannot parse tlapm output (see %s)" % out)


WIDE_TEMPLATE = """---- MODULE WaveWide ----
EXTENDS Waveform, Sequences
VARIABLE
  \\* @type: Int;
  x
P(k) == CASE k = 53 -> 9007199254740992 [] k = 54 -> 18014398509481984 [] k = 55 -> 36028797018963968
          [] k = 56 -> 72057594037927936 [] k = 57 -> 144115188075855872 [] k = 58 -> 288230376151711744
          [] k = 59 -> 576460752303423488 [] k = 60 -> 1152921504606846976 [] k = 61 -> 2305843009213693952
          [] k = 62 -> 4611686018427387904 [] OTHER -> 9223372036854775808
QQ(k) == CASE k = 1 -> 2 [] k = 2 -> 4 [] k = 3 -> 8 [] k = 4 -> 16 [] k = 5 -> 32 [] k = 6 -> 64 [] k = 7 -> 128
          [] k = 8 -> 256 [] k = 9 -> 512 [] OTHER -> 1024
Abs(a) == IF a < 0 THEN -a ELSE a
\\* the overview samples-per-entry is a double: 1024 * spe must be the span rounded to 53 significant bits
Rounded(s, d) == IF s < P(53) THEN d = s
                 ELSE \\E k \\in 1 .. 10 : /\\ P(52 + k) <= s /\\ s < P(53 + k)
                                          /\\ 2 * Abs(d - s) <= QQ(k) /\\ d % QQ(k) = 0
RecOK(n, rf, hs, hq, os, ospan) ==
    /\\ hs = HiSize(n, rf) /\\ hq = HiSpe(n, rf) /\\ os = OvSize(n, rf)
    /\\ Rounded(OvSpan(n, rf), ospan)
    /\\ (hs # 0 => hs * hq >= n /\\ (hs - 1) * hq < n)
Init == x = 0
Next == x' = x
Inv ==
@RECS@
====
"""


def check_wide_with_apalache(recs, wd):
    """Points beyond TLC's 32-bit integers are judged by Apalache (unbounded integers, --length=0)."""
    if not recs:
        return 0
    lines = []
    for r in recs:
        lines.append("  /\\ RecOK(%s, %s, %s, %s, %s, %s)" % (r["n"], r["rf"], r["hs"], r["hq"], r["os"], r["ospan"]))
    d = os.path.join(wd, "wide")
    os.makedirs(d, exist_ok=True)
    txt = WIDE_TEMPLATE.replace("@RECS@", "\n".join(lines))
    open(os.path.join(d, "WaveWide.tla"), "w").write(txt)
    for f in ("Waveform.tla",):
        open(os.path.join(d, f), "w").write(open(os.path.join(vlib.SPEC, f)).read())
    out = os.path.join(d, "apalache.out")
    with open(out, "w") as fh:
        try:
            r = subprocess.run(["apalache-mc", "check", "--length=0", "--inv=Inv", "--out-dir=" + os.path.join(d, "_apalache"),
                                "WaveWide.tla"], cwd=d, stdout=fh, stderr=subprocess.STDOUT, timeout=600)
            rc = r.returncode
        except subprocess.TimeoutExpired:
            rc = 124
    txt = open(out, errors="replace").read()
    if "The outcome is: NoError" in txt:
        return 0
    if "The outcome is: Error" in txt or "violat" in txt.lower():
        return 1
    raise vlib.ToolFailure("apalache-mc gave no verdict (rc=%s, see %s)" % (rc, out))


def check_C19(tier, seed):
    t0 = time.time()
    wd = vlib.workdir("C19_" + tier)
    binary = vbuild.build_bin("puredriver", "plain", extra_src=["shim.cpp"])
    obligations, proved = run_tlapm(wd)
    if proved != obligations:
        raise vlib.ToolFailure("WaveformProofs.tla: %d of %d obligations proved" % (proved, obligations))
    nmax = 3000 if tier == "quick" else 20000
    consts = {"NMax": nmax, "Rates": set(RATES), "Mults": {1, 2, 3, 7, 1000, 4000}}
    cfg = vlib.cfg_text("Spec", consts, invariants=["PointInv"], constraints=["EmitPt"])
    rc, outp = vlib.run_tlc("MCWaveform", cfg, wd, "mcwaveform", workers=8, timeout=900)
    res = vlib.parse_tlc(outp)
    if not res["ok"]:
        raise vlib.ToolFailure("MCWaveform: the specification fails its own properties or TLC failed: %s (see %s)" % (res["errors"][:2], outp))
    pts = []
    with open(outp, errors="replace") as fh:
        for line in fh:
            if line.startswith('"PT '):
                p = json.loads(json.loads(line)[3:])
                pts.append((p["n"], str(p["r"])))
    # seed-chosen inputs (values only): fractional rates, larger counts, and points beyond 31 bits
    rnd = random.Random(seed)
    for _ in range(4000 if tier == "quick" else 40000):
        r = rnd.choice([rnd.uniform(0, 500), rnd.uniform(200, 200000), rnd.choice(RATES[:-1]) + rnd.random()])
        pts.append((rnd.randrange(0, 1 << rnd.randrange(1, 30)), repr(r)))
    # rates just below, on and just above multiples of the quantisation step 210 (where floor, round and ceil of the rate differ)
    for m in (1, 2, 3, 10, 209, 210, 211, 228, 229, 457, 458, 914, rnd.randrange(4, 1000), rnd.randrange(4, 1000)):
        for d in (-1.0, -0.75, -0.5, -0.25, -1e-6, 0.0, 1e-6, 0.25, 0.5, 0.75):
            for n in (1, 209, 210 * m, 1024 * 210 * m + 1, rnd.randrange(1, 1 << 28)):
                pts.append((n, repr(210.0 * m + d)))
    wide = []
    for _ in range(60 if tier == "quick" else 300):
        n = rnd.randrange(1 << 30, 1 << 62) if rnd.random() < 0.8 else (1 << rnd.randrange(31, 63)) + rnd.randrange(-2, 3)
        r = rnd.choice([44100.0, 48000.0, 96000.0, 210.0, 2147483647.0, rnd.uniform(210, 2 ** 31)])
        wide.append((n, repr(r)))
    lines = [json.dumps({"n": str(n), "rate": r}) + "\n" for (n, r) in pts + wide]
    ins = shard_lines(lines, wd, "wf", vlib.NCPU)
    runs = run_pure(binary, "waveform", ins, wd, "wf")
    violations = []
    narrow_files = []
    wide_recs = []
    nrec = 0
    for (p, out, ev) in runs:
        if ev:
            violations.append({"reason": "driver died (rc=%s)" % ev["rc"], "record": ev})
            continue
        nf = out.replace(".out.", ".narrow.")
        with open(out) as fh, open(nf, "w") as nfh:
            for line in fh:
                r = json.loads(line)
                nrec += 1
                if r["wide"]:
                    wide_recs.append(r)
                else:
                    nfh.write(line)
        narrow_files.append(nf)
    cfgt = pure_cfg()

    def val(f):
        return validate_records("TraceWaveform", cfgt, f, wd, os.path.basename(f).replace(".ndjson", ""))

    with ThreadPoolExecutor(vlib.NCPU) as ex:
        vals = list(ex.map(val, narrow_files))
    for v in vals:
        for rej in v["rejected"]:
            violations.append({"reason": rej["reason"], "record": rej["record"]})
    wide_bad = check_wide_with_apalache([r for r in wide_recs if r["exact"] or True], wd)
    if wide_bad:
        violations.append({"reason": "a point beyond 31 bits disagrees with Waveform.tla (Apalache, see build/run/C19_%s/wide)" % tier,
                           "record": wide_recs[:3]})
    cov = {"obligations": obligations, "discharged": proved,
           "checker_cmd": "tlapm WaveformProofs.tla; tlc MCWaveform.tla; tlc TraceWaveform.tla (POSTCONDITION Accepted); apalache-mc check --length=0 --inv=Inv WaveWide.tla",
           "trusted_base": ["tlapm 1.6.0-pre with Z3 / Zenon / Isabelle back-ends", "TLC 1.8.0", "Apalache 0.58.0 (points beyond 31 bits)",
                            "harness rendering of doubles as integers (floor of the rate; integer-valued samples-per-entry)"],
           "states": res["states"], "transitions": res["generated"],
           "traces_validated_against_impl": sum(v["accepted"] for v in vals) + (0 if wide_bad else len(wide_recs)),
           "evaluations": nrec, "distinct_nontrivial": len(set(pts + wide)),
           "rule": "theorems CoversMinimal, EmptyExactly, OverviewSpan, Mono of WaveformProofs.tla proved over all naturals; TLC evaluates "
                   "the same properties on every state of MCWaveform (sample counts 0..%d and around multiples of the quantisation "
                   "number, %d integer rates incl. the 209/210/419/420 thresholds); every state, plus seed-chosen fractional rates and "
                   "counts up to 2^30, is run through the compiled functions and TLC validates each record against Waveform.tla; "
                   "points up to 2^62 / 2^31 are judged by Apalache (unbounded integers)" % (nmax, len(RATES)),
           "samples": [{"n": pts[5][0], "rate": pts[5][1]}, {"n": str(wide[0][0]), "rate": wide[0][1]}],
           "wide_points": len(wide_recs), "exhaustive": False}
    return finish("C19", tier, seed, "proof", cov, t0, violations, None, {},
                  ["floor(rate) is computed by the harness and trusted", "above 2^53 the overview samples-per-entry is accepted when it is "
                   "a 53-bit value nearest to the exact span (tie direction not checked)"])


# --------------------------------------------------------------------------------------------- C20
def random_grids(rnd, count):
    """Larger grids (2..64 markers) whose first and last segments have an integer tempo (inputs only)."""
    out = []
    for _ in range(count):
        n = rnd.randrange(2, 65)
        idx = rnd.randrange(-8, 4)
        off = rnd.randrange(-4000, 2000)
        g = [{"i": idx, "o": off}]
        for k in range(1, n):
            di = rnd.randrange(1, 5)
            spb = rnd.randrange(1, 600)
            do = di * spb              # integer tempo on every segment (any of them can become the
                                       # first or last one after trimming), so double arithmetic is exact
            idx += di
            off += do
            g.append({"i": idx, "o": off})
        span = g[-1]["o"]
        sc = rnd.choice([0, 1, max(1, span // 2), max(1, span), max(1, span + rnd.randrange(0, 5000)), g[0]["o"], g[1]["o"], g[-2]["o"]])
        out.append({"g": g, "sc": int(sc), "v": "random"})
    return out


def check_C20(tier, seed):
    t0 = time.time()
    wd = vlib.workdir("C20_" + tier)
    binary = vbuild.build_bin("puredriver", "plain", extra_src=["shim.cpp"])
    if tier == "quick":
        consts = {"OffLoNeg": 2, "OffHi": 8, "IdxLoNeg": 6, "IdxHi": 1, "MaxMarkers": 3, "Counts": {0, 1, 4, 6, 9}}
    else:
        consts = {"OffLoNeg": 3, "OffHi": 9, "IdxLoNeg": 6, "IdxHi": 2, "MaxMarkers": 4, "Counts": {0, 1, 3, 4, 6, 9, 10}}
    cfg = vlib.cfg_text("Spec", consts, invariants=["ModelInv"], constraints=["EmitGrid"])
    rc, outp = vlib.run_tlc("MCBeatgrid", cfg, wd, "mcbeatgrid", workers=8, timeout=1500, xmx="8g")
    res = vlib.parse_tlc(outp)
    if not res["ok"]:
        raise vlib.ToolFailure("MCBeatgrid: the model fails outside the listed finding classes, or TLC failed: %s (see %s)" % (res["errors"][:2], outp))
    inputs = []
    verdicts = {}
    with open(outp, errors="replace") as fh:
        for line in fh:
            if line.startswith('"GRID '):
                p = json.loads(json.loads(line)[5:])
                inputs.append(p)
                verdicts[p["v"]] = verdicts.get(p["v"], 0) + 1
    rnd = random.Random(seed)
    inputs += random_grids(rnd, 3000 if tier == "quick" else 30000)
    # degenerate inputs the quantifier names: empty and single-marker grids
    for sc in (0, 1, 5):
        inputs.append({"g": [], "sc": sc, "v": "empty"})
        inputs.append({"g": [{"i": 0, "o": 2}], "sc": sc, "v": "single"})
    lines = [json.dumps(p) + "\n" for p in inputs]
    ins = shard_lines(lines, wd, "bg", vlib.NCPU)
    runs = run_pure(binary, "beatgrid", ins, wd, "bg")
    violations = []
    outs = []
    for (p, out, ev) in runs:
        if ev:
            violations.append({"reason": "driver died (rc=%s) inside normalize_beatgrid" % ev["rc"], "record": ev})
        outs.append(out)
    # extreme inputs (the quantifier says "any starting index ... all sample counts"): beat indices at the edges of int32, sample
    # counts up to 2^63 - 1, in the sanitizer flavour - the arithmetic on the way to the result must not overflow
    imin, imax = -2 ** 31, 2 ** 31 - 1
    idx = [imin, imin + 1, -2 ** 30, -5, -4, -3, 0, 7, 2 ** 30, imax - 4, imax - 3, imax - 1, imax]
    xin = []
    for a in range(len(idx)):
        for b in range(a + 1, len(idx)):
            for (o1, o2) in ((0, 10), (-10, 5), (0, 1000000), (-3, 1e15)):
                for sc in (1, 1000, 2 ** 31, 2 ** 53 + 1, 2 ** 62, 2 ** 63 - 1):
                    xin.append({"g": [{"i": idx[a], "o": repr(float(o1))}, {"i": idx[b], "o": repr(float(o2))}], "sc": str(sc)})
                    if b + 1 < len(idx) and sc in (1000, 2 ** 62):
                        xin.append({"g": [{"i": idx[a], "o": repr(float(o1))}, {"i": idx[b], "o": repr(float(o2))},
                                          {"i": idx[b + 1], "o": repr(float(o2) * 2 + 1)}], "sc": str(sc)})
    sanbin = vbuild.build_bin("puredriver", "san", extra_src=["shim.cpp"])
    xins = shard_lines([json.dumps(p) + "\n" for p in xin], wd, "bgx", vlib.NCPU)
    for (p, out, ev) in run_pure(sanbin, "beatgridx", xins, wd, "bgx"):
        if ev:
            violations.append({"reason": "undefined behaviour / crash inside normalize_beatgrid on an extreme input (sanitizer build, rc=%s)" % ev["rc"], "record": ev})
        outs.append(out)
    inputs += xin
    cfgt = pure_cfg()

    def val(f):
        return validate_records("TraceBeatgrid", cfgt, f, wd, os.path.basename(f).replace(".ndjson", ""))

    with ThreadPoolExecutor(vlib.NCPU) as ex:
        vals = list(ex.map(val, outs))
    kf_seen = {}
    for f, v in zip(outs, vals):
        for rej in v["rejected"]:
            violations.append({"reason": rej["reason"], "record": rej["record"]})
        for k in v["kf"]:
            kf_seen.setdefault(k["kf"], {"file": f, "record_index": k["record"]})
    cov = {"states": res["states"], "transitions": res["generated"],
           "traces_validated_against_impl": sum(v["accepted"] for v in vals),
           "evaluations": len(inputs), "distinct_nontrivial": len({json.dumps(p, sort_keys=True) for p in inputs}),
           "model_verdicts": verdicts,
           "rule": "TLC builds every strictly increasing grid of <= %d markers (offsets %d..%d, indices %d..%d) and evaluates the C20 "
                   "post-conditions and idempotence on the algorithm model for each sample count in %s; every (grid, count) with an "
                   "integer tempo on the first and last segment is passed to normalize_beatgrid, the result is normalised again, and TLC "
                   "validates the record: in-domain grids must satisfy PostOK and be idempotent, grids that cannot overlap the track must "
                   "be rejected with invalid_argument; seed-chosen grids of up to 64 markers are validated the same way" % (
                       consts["MaxMarkers"], -consts["OffLoNeg"], consts["OffHi"], -consts["IdxLoNeg"], consts["IdxHi"], sorted(consts["Counts"])),
           "samples": inputs[100:102] + inputs[-8:-7],
           "checker_cmd": "tlc MCBeatgrid.tla; tlc TraceBeatgrid.tla (POSTCONDITION Accepted)", "exhaustive": False}
    return finish("C20", tier, seed, "model_checking", cov, t0, violations, None, kf_seen,
                  ["only grids whose first and last segment tempo is integer-valued are compared (exact double arithmetic); "
                   "floating-point rounding for other tempi is outside TLA+",
                   "an empty grid may be returned unchanged or rejected (the property names neither)"])


# --------------------------------------------------------------------------------------------- C13
def check_C13(tier, seed):
    t0 = time.time()
    wd = vlib.workdir("C13_" + tier)
    binary = vbuild.build_bin("detectdriver", "plain", extra_src=["shim.cpp"])
    minors = {0, 5, 6, 7, 8, 9, 10, 11, 12, 13, 14, 15, 16, 17, 18, 19, 20, 21, 22}
    consts = {"Majors": {0, 1, 2, 3, 4}, "Minors": minors, "Patches": {0, 1, 2, 3, 4}}
    cfg = vlib.cfg_text("Spec", consts, invariants=["Inv"], constraints=["EmitCase"])
    rc, outp = vlib.run_tlc("MCSchemaDetect", cfg, wd, "mcdetect", workers=8, timeout=600)
    res = vlib.parse_tlc(outp)
    if not res["ok"]:
        raise vlib.ToolFailure("MCSchemaDetect failed: %s (see %s)" % (res["errors"][:2], outp))
    cases = []
    with open(outp, errors="replace") as fh:
        for line in fh:
            if line.startswith('"CASE '):
                cases.append(json.loads(json.loads(line)[5:]))
    # seed-chosen triples further away from the supported ones (values only)
    rnd = random.Random(seed)
    for _ in range(200 if tier == "quick" else 2000):
        cases.append({"maj": rnd.choice([0, 1, 2, 3, 5, 7, 100]), "min": rnd.randrange(0, 40), "pat": rnd.randrange(0, 12),
                      "variant": rnd.choice(["os", "desktop"]), "legacy": rnd.random() < 0.5, "db2": rnd.random() < 0.5})
    # database files that are present but empty (what SQLite leaves behind when a file was opened and never written): the layout
    # counts as present - with the other layout populated the directory holds both; alone it is not a library of any version
    for (maj, mn, pat) in [(1, 6, 0), (1, 18, 0), (2, 18, 0), (2, 20, 3), (2, 21, 2), (1, 13, 1), (3, 0, 0), (2, 19, 0)]:
        for variant in ("os", "desktop"):
            for (lg, le, d2, de) in [(True, False, True, True), (True, True, True, False), (True, True, False, False), (False, False, True, True),
                                     (True, True, True, True)]:
                cases.append({"maj": maj, "min": mn, "pat": pat, "variant": variant, "legacy": lg, "db2": d2, "legacy_empty": le, "db2_empty": de})
    # the legacy layout without its companion file p.db: layout and version are told by m.db alone (Expected does not mention
    # p.db), so every supported 1.x triple still loads as its schema and every other triple is still refused as unsupported
    for (maj, mn, pat) in [(1, 6, 0), (1, 7, 1), (1, 9, 1), (1, 11, 1), (1, 13, 0), (1, 13, 1), (1, 13, 2), (1, 15, 0), (1, 17, 0), (1, 18, 0),
                           (1, 18, 1), (1, 6, 1), (1, 8, 0), (0, 0, 0), (2, 18, 0), (3, 0, 0)]:
        for variant in ("os", "desktop"):
            cases.append({"maj": maj, "min": mn, "pat": pat, "variant": variant, "legacy": True, "db2": False, "nop": True})
            cases.append({"maj": maj, "min": mn, "pat": pat, "variant": variant, "legacy": True, "db2": True, "nop": True})
    lines = [json.dumps(c) + "\n" for c in cases]
    ins = shard_lines(lines, wd, "det", vlib.NCPU)

    def go(p):
        out = p.replace(".in.ndjson", ".out.ndjson")
        try:
            r = subprocess.run([binary, p, out], stdout=subprocess.PIPE, stderr=subprocess.PIPE, timeout=900)
            ev = None if r.returncode == 0 else {"rc": r.returncode, "stderr": r.stderr.decode(errors="replace")[-2000:]}
        except subprocess.TimeoutExpired:
            ev = {"rc": 124, "stderr": "timeout"}
        return (p, out, ev)

    with ThreadPoolExecutor(vlib.NCPU) as ex:
        runs = list(ex.map(go, ins))
    violations = []
    for (p, out, ev) in runs:
        if ev:
            violations.append({"reason": "driver died (rc=%s)" % ev["rc"], "record": ev})
    cfgt = pure_cfg()

    def val(f):
        return validate_records("TraceDetect", cfgt, f, wd, os.path.basename(f).replace(".ndjson", ""))

    with ThreadPoolExecutor(vlib.NCPU) as ex:
        vals = list(ex.map(val, [o for (_, o, _) in runs]))
    kf_seen = {}
    for (p, out, ev), v in zip(runs, vals):
        for rej in v["rejected"]:
            violations.append({"reason": rej["reason"], "record": rej["record"]})
        for k in v["kf"]:
            kf_seen.setdefault(k["kf"], {"file": out, "record_index": k["record"]})
    cov = {"states": res["states"], "transitions": res["generated"],
           "traces_validated_against_impl": sum(v["accepted"] for v in vals),
           "evaluations": len(cases), "distinct_nontrivial": len({json.dumps(c, sort_keys=True) for c in cases}),
           "rule": "every state of MCSchemaDetect (major 0..4 x 19 minors covering and surrounding every supported value x patch 0..4 x "
                   "both 1.18.0 variant markers x the four presence combinations of m.db and Database2/m.db) is materialised as a "
                   "directory (library created by the library itself, version numbers rewritten through an independent connection) and "
                   "load_database (twice, with two different sentinel values of the out-parameter), database_exists and "
                   "create_or_load_database are called; TLC validates each record against the decision table of SchemaDetect.tla",
           "samples": cases[1000:1002], "checker_cmd": "tlc MCSchemaDetect.tla; tlc TraceDetect.tla (POSTCONDITION Accepted)",
           "exhaustive": True}
    return finish("C13", tier, seed, "model_checking", cov, t0, violations, None, kf_seen,
                  ["cross-layout cases (a supported 2.x triple in a legacy directory or vice versa) may be rejected in any way or "
                   "accepted with exactly the triple's schema", "template libraries are created by the library itself"])
