#!/usr/bin/env python3
"""Build the library under test from /repo's *current working tree* plus the harness programs.

Nothing is taken from /repo/_build.  Objects are cached under /verif/build/<flavour>/obj keyed
by (source text, hash of every header, flags), so an edited source file is always recompiled and
an untouched tree costs nothing.  Flavours:

  plain : g++ -O1 -DNDEBUG            (asserts compiled out, as in the release build)
  san   : g++ -O1 -DNDEBUG -fsanitize=address,undefined -D_GLIBCXX_ASSERTIONS

The library objects are linked statically into each harness program together with
harness/shim.cpp, with -Wl,--wrap on the sqlite3/zlib entry points (the library reaches SQLite
only through the header-only sqlite_modern_cpp, so every call goes through the shims).
"""
import fcntl
import hashlib
import os
import subprocess
import sys
from concurrent.futures import ThreadPoolExecutor

REPO = os.environ.get("VERIF_REPO", "/repo")
VERIF = os.path.dirname(os.path.dirname(os.path.abspath(__file__)))
BUILD = os.path.join(os.environ.get("VERIF_OUT", VERIF), "build")
GUARD = "XSCO_LIBDJINTEROP_VERIF"
CXX = "g++"

WRAPS = ["sqlite3_prepare_v2", "sqlite3_step", "sqlite3_open_v2", "inflate", "deflate"]

FLAGS = {
    "plain": ["-O1", "-g0", "-DNDEBUG"],
    "san": ["-O1", "-g", "-DNDEBUG", "-fsanitize=address,undefined", "-fno-omit-frame-pointer",
            "-D_GLIBCXX_ASSERTIONS", "-fno-sanitize-recover=undefined"],
}
COMMON = ["-std=gnu++17", "-D" + GUARD, "-DDJINTEROP_SOURCE", "-DDJINTEROP_STATIC", "-w"]


def sh(cmd, **kw):
    return subprocess.run(cmd, check=True, **kw)


def _files(root, exts):
    out = []
    for d, _, fs in os.walk(root):
        for f in fs:
            if f.endswith(exts):
                out.append(os.path.join(d, f))
    return sorted(out)


def _hash_files(paths):
    h = hashlib.sha256()
    for p in paths:
        h.update(p.encode())
        with open(p, "rb") as fh:
            h.update(fh.read())
    return h.hexdigest()


def includes(flavour):
    gen = os.path.join(BUILD, flavour, "gen")
    return ["-I" + gen, "-I" + REPO + "/include", "-I" + REPO + "/ext/sqlite_modern_cpp",
            "-I" + REPO + "/ext/date", "-I" + REPO + "/src"]


def gen_config(flavour):
    gen = os.path.join(BUILD, flavour, "gen", "djinterop")
    os.makedirs(gen, exist_ok=True)
    src = open(REPO + "/include/djinterop/config.hpp.in").read()
    src = src.replace("#cmakedefine DJINTEROP_STATIC", "#define DJINTEROP_STATIC")
    dst = os.path.join(gen, "config.hpp")
    if not os.path.exists(dst) or open(dst).read() != src:
        open(dst, "w").write(src)


def build_lib(flavour="plain", quiet=True):
    """Compile every /repo/src/**/*.cpp; returns the list of object files."""
    os.makedirs(os.path.join(BUILD, flavour, "obj"), exist_ok=True)
    lock = open(os.path.join(BUILD, flavour, ".lock"), "w")
    fcntl.flock(lock, fcntl.LOCK_EX)
    try:
        gen_config(flavour)
        headers = _files(REPO + "/include", (".hpp", ".h", ".in")) + _files(REPO + "/src", (".hpp", ".h")) \
            + _files(REPO + "/ext/sqlite_modern_cpp", (".h", ".hpp")) + [REPO + "/ext/date/date.h"]
        hh = _hash_files(headers)
        flags = COMMON + FLAGS[flavour]
        srcs = _files(REPO + "/src", (".cpp",))
        jobs = []
        objs = []
        for s in srcs:
            key = hashlib.sha256((hh + _hash_files([s]) + " ".join(flags)).encode()).hexdigest()[:24]
            o = os.path.join(BUILD, flavour, "obj", os.path.basename(s)[:-4] + "." + key + ".o")
            objs.append(o)
            if not os.path.exists(o):
                jobs.append((s, o))

        def cc(job):
            s, o = job
            r = subprocess.run([CXX] + flags + includes(flavour) + ["-c", s, "-o", o + ".tmp"],
                               capture_output=True, text=True)
            if r.returncode != 0:
                return (s, r.stderr)
            os.rename(o + ".tmp", o)
            return None

        if jobs:
            if not quiet:
                print("[build] compiling %d library sources (%s)" % (len(jobs), flavour), file=sys.stderr)
            with ThreadPoolExecutor(16) as ex:
                errs = [e for e in ex.map(cc, jobs) if e]
            if errs:
                for s, e in errs:
                    sys.stderr.write("BUILD-ERROR %s\n%s\n" % (s, e[-3000:]))
                raise SystemExit(2)
        # garbage-collect stale objects (keep the cache small)
        keep = set(objs)
        objdir = os.path.join(BUILD, flavour, "obj")
        stale = [f for f in os.listdir(objdir) if f.endswith(".o") and os.path.join(objdir, f) not in keep]
        if len(stale) > 200:
            for f in stale:
                os.unlink(os.path.join(objdir, f))
        return objs
    finally:
        fcntl.flock(lock, fcntl.LOCK_UN)
        lock.close()


def build_bin(name, flavour="plain", extra_src=(), quiet=True, wraps=WRAPS, libs=("-lsqlite3", "-lz")):
    """Build harness/<name>.cpp (+shim) against the current library objects."""
    objs = build_lib(flavour, quiet)
    lock = open(os.path.join(BUILD, flavour, ".lock.bin." + name), "w")
    fcntl.flock(lock, fcntl.LOCK_EX)
    try:
        hsrc = [os.path.join(VERIF, "harness", name + ".cpp")] + [os.path.join(VERIF, "harness", e) for e in extra_src]
        hhdr = _files(os.path.join(VERIF, "harness"), (".hpp", ".h"))
        flags = COMMON + FLAGS[flavour]
        key = hashlib.sha256((_hash_files(hsrc + hhdr) + "".join(objs) + " ".join(flags) + " ".join(wraps)).encode()).hexdigest()[:24]
        bindir = os.path.join(BUILD, flavour, "bin")
        os.makedirs(bindir, exist_ok=True)
        out = os.path.join(bindir, name)
        stamp = out + ".key"
        if os.path.exists(out) and os.path.exists(stamp) and open(stamp).read() == key:
            return out
        hobjs = []
        for s in hsrc:
            o = os.path.join(bindir, name + "." + os.path.basename(s) + ".o")
            r = subprocess.run([CXX] + flags + includes(flavour) + ["-I" + os.path.join(VERIF, "harness"), "-c", s, "-o", o],
                               capture_output=True, text=True)
            if r.returncode != 0:
                sys.stderr.write("BUILD-ERROR %s\n%s\n" % (s, r.stderr[-6000:]))
                raise SystemExit(2)
            hobjs.append(o)
        wrapflags = ["-Wl,--wrap=" + w for w in wraps]
        r = subprocess.run([CXX] + FLAGS[flavour] + hobjs + objs + wrapflags + list(libs) + ["-lpthread", "-o", out],
                           capture_output=True, text=True)
        if r.returncode != 0:
            sys.stderr.write("LINK-ERROR %s\n%s\n" % (name, r.stderr[-6000:]))
            raise SystemExit(2)
        open(stamp, "w").write(key)
        return out
    finally:
        fcntl.flock(lock, fcntl.LOCK_UN)
        lock.close()


if __name__ == "__main__":
    import time
    t = time.time()
    what = sys.argv[1] if len(sys.argv) > 1 else "lib"
    fl = sys.argv[2] if len(sys.argv) > 2 else "plain"
    if what == "lib":
        print(len(build_lib(fl, quiet=False)), "objects")
    else:
        print(build_bin(what, fl, quiet=False))
    print("%.1fs" % (time.time() - t))
