#!/usr/bin/env python3
"""Vacuity review: reads the evidence files written by the checks and prints, per model instance, how many generated
transitions each (operation, outcome) class has.  An operation that never succeeds or never fails in the bounded model
was not exercised in that direction - listed under 'never'.

usage: vacuity.py [evidence dir]"""
import glob
import json
import os
import sys

VERIF = os.path.dirname(os.path.dirname(os.path.abspath(__file__)))


def instances(ev):
    cov = ev.get("coverage", ev)
    out = []

    def walk(x):
        if isinstance(x, dict):
            if "op_counts" in x:
                out.append(x)
            for v in x.values():
                walk(v)
        elif isinstance(x, list):
            for v in x:
                walk(v)
    walk(cov)
    return out


def main():
    d = sys.argv[1] if len(sys.argv) > 1 else os.path.join(VERIF, "evidence")
    for p in sorted(glob.glob(os.path.join(d, "C*.json"))):
        ev = json.load(open(p))
        seen = set()
        for inst in instances(ev):
            name = inst.get("instance", "?")
            if name in seen:
                continue
            seen.add(name)
            oc = inst["op_counts"]
            ops = sorted({k.split(":")[0] for k in oc})
            never = []
            for o in ops:
                for out in ("ok", "throw"):
                    if oc.get("%s:%s" % (o, out), 0) == 0:
                        never.append("%s never %s" % (o, out))
            print("%s  %s: %d transitions, %d operations; %s" % (os.path.basename(p)[:3], name, sum(oc.values()), len(ops),
                                                                 ("NEVER: " + ", ".join(never)) if never else "every operation both succeeds and fails"))


if __name__ == "__main__":
    main()
