#!/usr/bin/env python3
"""C12: a freshly created library has exactly the schema of the reference libraries of its version.

Every reference dump under testdata/ref is hydrated by the library (create_database_from_scripts); for the version it
loads as, a library is created on disk and as a temporary database.  harness/verifydriver (mode `dump`) reads the complete
sqlite_master of every database file and the version rows through the plain SQLite C API; this module maps every SQL
text to its token sequence (whitespace, comments and identifier quoting dropped - the abstraction function of
spec/SchemaRef.tla) and TLC (TraceSchemaRef) requires the two inventories to be equal, the version numbers to match,
verify() to accept both and a reload to report the version requested."""
import glob
import json
import os
import re
import shutil
import subprocess
import time

import purechecks
import vbuild
import vlib

TOKEN = re.compile(r"""
    (?P<ws>\s+)
  | (?P<lc>--[^\n]*)
  | (?P<bc>/\*.*?\*/)
  | (?P<str>'(?:[^']|'')*')
  | (?P<qid>"(?:[^"]|"")*"|`[^`]*`|\[[^\]]*\])
  | (?P<num>\d+(?:\.\d+)?)
  | (?P<id>[A-Za-z_][A-Za-z0-9_$]*)
  | (?P<op><>|<=|>=|!=|==|\|\||.)
""", re.S | re.X)


def tokens(sql):
    """SQL text -> token list: whitespace and comments dropped, quoted identifiers unquoted, everything else verbatim."""
    out = []
    for m in TOKEN.finditer(sql or ""):
        k = m.lastgroup
        if k in ("ws", "lc", "bc"):
            continue
        t = m.group(0)
        if k == "qid":
            t = t[1:-1]
        out.append(t)
    while out and out[-1] == ";":
        out.pop()
    return out


def norm_objs(objs):
    res = []
    for db, typ, name, tbl, sql in objs:
        if name.startswith("sqlite_"):
            continue          # SQLite's own bookkeeping (sqlite_sequence, automatic indices)
        res.append([db, typ, name, tbl, "\x1f".join(tokens(None if sql == "<NULL>" else sql))])
    return res


def check_C12(tier, seed):
    t0 = time.time()
    wd = vlib.workdir("C12_" + tier)
    binary = vbuild.build_bin("verifydriver", "plain", extra_src=["shim.cpp"])
    shm = "/dev/shm/verif.c12.%d" % os.getpid()
    shutil.rmtree(shm, ignore_errors=True)
    os.makedirs(shm)
    try:
        return _run(tier, seed, wd, binary, shm, t0)
    finally:
        shutil.rmtree(shm, ignore_errors=True)


def _dump(binary, items, wd, tag):
    lst = os.path.join(wd, tag + ".list.ndjson")
    out = os.path.join(wd, tag + ".dump.ndjson")
    with open(lst, "w") as fh:
        for it in items:
            fh.write(json.dumps(it) + "\n")
    r = subprocess.run([binary, "dump", lst, out], stdout=subprocess.PIPE, stderr=subprocess.PIPE, timeout=1800)
    recs = [json.loads(x) for x in open(out, errors="replace") if x.strip() and '"e":"died"' not in x[:20] and '"e":"hang"' not in x[:20]]
    return r.returncode, recs, r.stderr.decode(errors="replace")[-1500:]


def _run(tier, seed, wd, binary, shm, t0):
    refs = sorted(glob.glob(os.path.join(vbuild.REPO, "testdata", "ref", "engine", "*", "*")))
    violations = []
    rc, rrecs, err = _dump(binary, [{"kind": "ref", "scripts": d, "dir": os.path.join(shm, "ref_%d" % k), "what": os.path.basename(d)}
                                    for k, d in enumerate(refs)], wd, "refs")
    if rc != 0 or len(rrecs) != len(refs):
        violations.append({"reason": "verifydriver died while hydrating the reference libraries (rc=%s, %d of %d done)" % (rc, len(rrecs), len(refs)),
                           "record": {"stderr": err}})
    versions = sorted({r["loaded"] for r in rrecs if r.get("load") == "ok" and r["loaded"] in vlib.ALL}, key=vlib.ALL.index)
    items = []
    for v in versions:
        for form in ("disk", "mem"):
            items.append({"kind": "created", "schema": v, "form": form, "dir": os.path.join(shm, "cre_%s_%s" % (v, form))})
    rc, crecs, err = _dump(binary, items, wd, "created")
    if rc != 0 or len(crecs) != len(items):
        violations.append({"reason": "verifydriver died while creating libraries (rc=%s, %d of %d done)" % (rc, len(crecs), len(items)),
                           "record": {"stderr": err}})
    created = {(c["schema"], c["form"]): c for c in crecs}
    lines = []
    skipped = []
    for r in rrecs:
        ver = r.get("loaded") or ""
        if r.get("load") != "ok" or ver not in vlib.ALL:
            skipped.append({"what": r.get("what"), "load": r.get("load"), "loaded": ver, "ex": r.get("load_ex")})
            continue
        for form in ("disk", "mem"):
            c = created.get((ver, form))
            if c is None:
                continue
            side = lambda x: {"load": x["load"], "loaded": x.get("loaded", ""), "objs": norm_objs(x["objs"]), "info": x["info"],
                              "verify": x["verify"], "version_name": x["version_name"], "reloaded": x.get("reloaded", "")}
            lines.append(json.dumps({"what": r["what"], "ver": ver, "form": form, "ref": side(r), "cre": side(c)}) + "\n")
    trace = os.path.join(wd, "schemaref.ndjson")
    with open(trace, "w") as fh:
        fh.writelines(lines)
    v = purechecks.validate_records("TraceSchemaRef", purechecks.pure_cfg(), trace, wd, "tsr", max_rejections=8, timeout=1800)
    kf_seen = {}
    for note in v["kf"]:
        kf_seen.setdefault(note["kf"], json.loads(lines[note["record"]]).get("what"))
    for rej in v["rejected"]:
        rec = rej["record"]
        R = {(o[0], o[1], o[2]): o for o in rec["ref"]["objs"]}
        C = {(o[0], o[1], o[2]): o for o in rec["cre"]["objs"]}
        diff = {"missing_in_created": sorted(map(list, set(R) - set(C)))[:10], "not_in_reference": sorted(map(list, set(C) - set(R)))[:10],
                "defined_differently": sorted(list(k) for k in set(R) & set(C) if R[k] != C[k])[:10]}
        first = next((k for k in sorted(set(R) & set(C)) if R[k] != C[k]), None)
        if first:
            diff["first_difference"] = {"object": list(first), "reference": R[first][4].replace("\x1f", " ")[:400], "created": C[first][4].replace("\x1f", " ")[:400]}
        violations.append({"reason": "created library differs from the reference of its version: " + rej["reason"],
                           "record": {"what": rec["what"], "ver": rec["ver"], "form": rec["form"], "difference": diff,
                                      "info_ref": rec["ref"]["info"], "info_created": rec["cre"]["info"], "verify_ref": rec["ref"]["verify"],
                                      "verify_created": rec["cre"]["verify"], "reloaded": rec["cre"]["reloaded"],
                                      "version_names": [rec["ref"]["version_name"], rec["cre"]["version_name"]]}})
    nobj = sum(len(json.loads(x)["ref"]["objs"]) for x in lines)
    cov = {"states": v["tlc_states"], "transitions": v["tlc_states"], "traces_validated_against_impl": v["accepted"],
           "evaluations": len(lines), "distinct_nontrivial": len(versions) * 2,
           # translation validation: programs = (version, form) outputs of the schema creators that were validated against at least
           # one reference; disagreements_checked = comparisons in which the two inventories differed (each judged by TLC: accepted
           # only in the exact shape of a listed known finding, otherwise a violation)
           "programs": len({(json.loads(x)["ver"], json.loads(x)["form"]) for x in lines}),
           "disagreements_checked": len(v["kf"]) + len(v["rejected"]),
           "reference_libraries": len(refs), "reference_libraries_compared": len(lines) // 2, "versions_with_a_reference": versions,
           "versions_without_a_reference": [s for s in vlib.ALL if s not in versions], "objects_compared": nobj, "not_compared": skipped,
           "rule": "every reference dump is hydrated by create_database_from_scripts; for the version it loads as a library is created on disk "
                   "and as a temporary database; the complete sqlite_master of every database file (tables, indices, views, triggers with their "
                   "SQL text) and the version rows are read through the plain SQLite C API; SQL texts are compared as token sequences "
                   "(whitespace, comments and identifier quoting dropped); TLC (TraceSchemaRef) requires equal inventories, equal version "
                   "numbers, verify() = ok on both, equal version_name(), reload of the created library = the version requested, and "
                   "that all creations of one version agree with each other",
           "checker_cmd": "tlc TraceSchemaRef.tla (POSTCONDITION Accepted)", "exhaustive": True,
           "samples": [{"what": json.loads(lines[0])["what"], "ver": json.loads(lines[0])["ver"]}] if lines else []}
    return purechecks.finish("C12", tier, seed, "translation_validation", cov, t0, violations, None, kf_seen,
                             ["the reference dumps under testdata/ref are taken as the reference; a version without a dump (listed) is not judged",
                              "SQLite's own objects (sqlite_sequence, automatic indices) are not part of an inventory",
                              "3.0.0 (desktop-4.1.0) is not among the 18 supported versions and is listed under not_compared"])
