#!/usr/bin/env python3
"""Demonstrates that a trace specification is bound to what it reads: takes an accepted trace, corrupts ONE
recorded value (chosen by a small JSON-path expression) in one record and requires the validation to reject
exactly there.

usage: bindtest.py <module> <cfg> <trace.ndjson> <record index> <path> <new value (JSON)>
   path: dotted, integers index arrays, e.g.  raw.crate.0.1   or   raw.pl.2.3
"""
import json
import os
import sys

sys.path.insert(0, os.path.dirname(os.path.abspath(__file__)))
import vlib  # noqa: E402


def main():
    module, cfgp, trace, idx, path, val = sys.argv[1:7]
    idx = int(idx)
    wd = vlib.workdir("bindtest")
    with open(trace, errors="replace") as fh:
        lines = [x for x in fh if x.strip()]
    # keep the execution that contains the record (from its reset on)
    start = max(i for i in range(idx + 1) if json.loads(lines[i]).get("e") == "reset")
    end = next((i for i in range(idx + 1, len(lines)) if json.loads(lines[i]).get("e") == "reset"), len(lines))
    sub = lines[start:end]
    cfg = open(cfgp).read()

    def run(tag, ls):
        tp = os.path.join(wd, tag + ".ndjson")
        with open(tp, "w") as fh:
            fh.writelines(ls)
        rc, outp = vlib.run_tlc(module, cfg, wd, tag, workers=1, timeout=600, env={"TRACE": tp})
        r = vlib.parse_tlc(outp)
        return r["depth"], r["ok"], r["errors"][:1], r["fatal"]

    d0 = run("orig", sub)
    rec = json.loads(sub[idx - start])
    cur = rec
    keys = path.split(".")
    for k in keys[:-1]:
        cur = cur[int(k)] if isinstance(cur, list) else cur[k]
    last = int(keys[-1]) if isinstance(cur, list) else keys[-1]
    old = cur[last]
    cur[last] = json.loads(val)
    mut = list(sub)
    mut[idx - start] = json.dumps(rec) + "\n"
    d1 = run("mut", mut)
    print("original : depth %s ok=%s %s %s (records %d)" % (d0 + (len(sub),)))
    print("corrupted: %s: %s -> %s at record %d: depth %s ok=%s %s %s" % ((path, json.dumps(old)[:60], val, idx - start + 1) + d1))
    good = d0[1] and d0[0] == len(sub) + 1 and (not d1[1]) and d1[0] == idx - start + 1 and not d1[3]
    print("BINDING " + ("OK: accepted as recorded, rejected exactly at the corrupted record" if good else "NOT DEMONSTRATED"))
    return 0 if good else 1


sys.exit(main())
