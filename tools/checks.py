#!/usr/bin/env python3
"""The per-property checks.  Each check_<ID>(tier, seed) returns the process exit code."""
import json
import os
import random
import subprocess
import sys
import time

import libcheck
import lockcheck
import commitcheck
import vbuild
import vlib
from libcheck import Workload
from vlib import log

LEVEL_MC = "model_checking"
# spec-flagged findings and the properties they are violations of
KF_OWNER = {"v1-id-reuse": ("C07", "C15"), "v1-track-id-reuse": ("C15",), "v1-bpm-from-grid": ("C01",), "v2-setter-not-atomic": ("C14",)}
MAX_REPORTED = 5   # rejections confirmed and reported per run (the rest is only counted)


# --------------------------------------------------------------------------------------------
# generic: histories through the library, traces validated against Library.tla
# --------------------------------------------------------------------------------------------
def measure_traces(shards):
    """Counts, from the recorded traces themselves, what was exercised."""
    calls = faulted = throws = reopens = crashes = crash_commits = 0
    distinct = set()
    fault_sites = set()
    for sh in shards:
        schema = sh["w"].schema
        for r in vlib.load_trace(sh["trace"]):
            e = r.get("e")
            if e == "reopen":
                reopens += 1
            if e == "crash":
                crashes += 1
            if e == "call" and "crash" in r:
                crash_commits += 1
            if e != "call":
                continue
            calls += 1
            if r.get("out") == "throw":
                throws += 1
            f = r.get("fault")
            sig = (schema, r.get("op"), r.get("c"), r.get("p"), r.get("n"), r.get("t"), r.get("after"), r.get("out"),
                   r.get("col"), r.get("id"), r.get("f"), r.get("list"), r.get("title"), r.get("parent"), r.get("next"), r.get("variant"))
            sig = tuple(x if isinstance(x, (int, str, bool, type(None))) else json.dumps(x, sort_keys=True)[:80] for x in sig)
            if f and f.get("fired"):
                faulted += 1
                fault_sites.add((schema, r.get("op"), f.get("k"), r.get("ns"), f.get("lock")))
            else:
                distinct.add(sig)
    return {"calls": calls, "throws": throws, "faulted_attempts": faulted, "reopens": reopens, "crash_points_without_effect": crashes,
            "calls_committed_by_a_dying_process": crash_commits,
            "distinct_calls": len(distinct), "distinct_fault_sites": len(fault_sites)}


def history_check(prop, tier, seed, build_workloads, module="TraceLibrary", cfg=None, flavour="plain",
                  assumptions=(), rule="", watchdog=10, extra_cov=None, level=None, driver="libdriver", also=(), post=None):
    t0 = time.time()
    wd = vlib.workdir("%s_%s" % (prop, tier))
    binary = vbuild.build_bin(driver, flavour, extra_src=["shim.cpp"])
    mc_stats = []
    workloads = build_workloads(wd, mc_stats)
    cfg = cfg or vlib.trace_cfg()
    shards, summary = libcheck.run_and_validate(binary, workloads, wd, module=module, cfg=cfg, watchdog=watchdog)
    for sh in shards:
        sh.update(_bin=binary, _module=module, _cfg=cfg)
    # further pipelines (another driver / trace specification) judged under the same property
    for k, extra in enumerate(also):
        wd2 = os.path.join(wd, "also%d" % k)
        os.makedirs(wd2, exist_ok=True)
        bin2 = vbuild.build_bin(extra["driver"], flavour, extra_src=["shim.cpp"])
        w2 = extra["build"](wd2, mc_stats)
        sh2, sum2 = libcheck.run_and_validate(bin2, w2, wd2, module=extra["module"], cfg=extra["cfg"], watchdog=watchdog)
        for sh in sh2:
            sh.update(_bin=bin2, _module=extra["module"], _cfg=extra["cfg"])
        shards += sh2
        workloads = workloads + w2
        for key in summary:
            summary[key] = round(summary[key] + sum2[key], 1) if isinstance(summary[key], float) else summary[key] + sum2[key]
    known = [k for k in vlib.load_known_findings() if k["property"] == prop]
    known_by_kf = {k["kf"]: k for k in known if "kf" in k}
    violations = []
    kf_seen = {}
    nrep = 0
    unconfirmed = 0
    for sh in shards:
        v = sh["val"]
        for note in v["kf"]:
            kf_seen.setdefault(note["kf"], (sh, note))
        for rej in v["rejected"]:
            nrep += 1
            if len(violations) >= MAX_REPORTED:
                unconfirmed += 1
                continue
            payload = libcheck.confirm_rejection(sh["_bin"], sh, rej, wd, nrep, rej.get("module", sh["_module"]),
                                                 rej.get("cfg", sh["_cfg"]), watchdog=watchdog)
            if payload is None:
                log("note: rejection in %s did not repeat on re-run; not reported" % sh["base"])
                continue
            violations.append(payload)
        for ev in sh["events"]:
            nrep += 1
            if len(violations) >= MAX_REPORTED:
                unconfirmed += 1
                continue
            # the execution in which the process died / hung: replay it alone
            rej = {"exec_index": max(ev["exec"] - 1, 0)}
            payload = libcheck.confirm_rejection(sh["_bin"], sh, rej, wd, nrep, sh["_module"], sh["_cfg"], watchdog=watchdog)
            if payload is None:
                log("note: %s in %s did not repeat on re-run; not reported" % (ev["kind"], sh["base"]))
                continue
            payload.setdefault("reason", "process %s" % ev["kind"])
            violations.append(payload)
    # known findings flagged by the specification itself
    for name, (sh, note) in sorted(kf_seen.items()):
        if prop not in KF_OWNER.get(name, ()):
            continue   # not a statement of this property; the step is judged by the owning property's check
        if name in known_by_kf:
            print("KNOWN-FINDING: property=%s %s: %s" % (prop, name, known_by_kf[name]["what"]))
        else:
            recs = vlib.load_trace(sh["trace"])
            violations.append({"reason": "finding '%s' matched by the specification is not a listed known finding of %s" % (name, prop),
                               "schema": sh["w"].schema, "offending_record": recs[note["record"]] if note["record"] < len(recs) else None,
                               "trace": sh["trace"], "record_index": note["record"]})
    # a further step on the recorded traces (e.g. model checking the statement programs seen): may add violations
    if post:
        violations += post(shards, wd, mc_stats) or []
    # evidence
    states = sum(m.get("states", 0) for m in mc_stats)
    trans = sum(m.get("transitions", 0) for m in mc_stats)
    samples = []
    for w in workloads[:3]:
        if w.scripts:
            samples.append({"schema": w.schema, "mode": w.mode, "script": w.scripts[min(len(w.scripts) - 1, 7)]})
    m = measure_traces(shards)
    level = level or LEVEL_MC
    if level == "fault_enumeration":
        evaluations, nontrivial = m["faulted_attempts"], m["distinct_fault_sites"]
        nt_rule = ("evaluations = call attempts in which an injected statement failure fired; distinct_nontrivial = distinct "
                   "(schema, operation, position k of the failing statement, statements issued so far) sites; ")
    else:
        evaluations, nontrivial = m["calls"], m["distinct_calls"]
        nt_rule = ("evaluations = public mutating calls executed and validated; distinct_nontrivial = distinct (schema, operation, "
                   "argument ids/names, outcome) tuples among them; ")
    cov = {"evaluations": evaluations, "distinct_nontrivial": nontrivial, "measured": m,
           "states": states, "transitions": trans,
           "traces_validated_against_impl": summary["accepted"],
           "also_validated": {m: sum(sh["val"].get("also_accepted", {}).get(m, 0) for sh in shards)
                              for m in sorted({m for sh in shards for m in sh["val"].get("also_accepted", {})})},
           "executions": summary["executions"], "trace_records": summary["records"],
           "trace_states_checked_by_tlc": summary["tlc_states"],
           "schemas": sorted({w.schema for w in workloads}, key=vlib.ALL.index),
           "model_instances": mc_stats, "samples": samples,
           "checker_cmd": "tlc MC*.tla (generation + model properties); tlc %s.tla (trace validation, POSTCONDITION Accepted)" % module,
           "drive_s": summary["drive_s"], "validate_s": summary["validate_s"],
           "rule": nt_rule + rule, "known_findings_seen": sorted(kf_seen),
           "exhaustive": True}
    if extra_cov:
        cov.update(extra_cov)
    vlib.write_evidence(prop, tier, seed, level, cov, time.time() - t0, len(violations), assumptions=assumptions)
    for i, p in enumerate(violations):
        path = vlib.replay_file(prop, i + 1, p)
        log("violation: %s | %s" % (p.get("reason"), libcheck.describe(p.get("offending_record"))))
        print("VIOLATION property=%s replay=%s" % (prop, path))
    if unconfirmed:
        log("%d further rejections were not re-run (report cap %d)" % (unconfirmed, MAX_REPORTED))
    log("%s %s: %d executions (%d accepted), %d records, drive %.0fs validate %.0fs, total %.0fs" % (
        prop, tier, summary["executions"], summary["accepted"], summary["records"], summary["drive_s"],
        summary["validate_s"], time.time() - t0))
    return 1 if violations else 0


def smoke_rest(ws, chosen, tier, make):
    """Quick tier: every supported schema version the quick selection leaves out still gets a few executions (a change that
    touches the creator or the detection of ONE version must not slip through the every-change check)."""
    if tier != "quick":
        return
    for s in vlib.ALL:
        if s not in chosen:
            w = make(s)
            if w:
                ws.append(w)


def pick_extra(pool, seed, k):
    r = random.Random(seed)
    pool = list(pool)
    r.shuffle(pool)
    return pool[:k]


# --------------------------------------------------------------------------------------------
def check_C07(tier, seed):
    """All crate queries describe one well-formed forest."""
    def build(wd, mc_stats):
        ws = []
        cache = {}

        def scripts_for(fam, bounds, opnames):
            key = (fam, bounds, opnames)
            if key not in cache:
                st, sc = vlib.mc_forest(wd, fam, bounds[0], bounds[1], opnames=opnames)
                mc_stats.append(st)
                cache[key] = (st, sc)
            return cache[key]

        N4 = ("a", "b", "", "x;y")
        if tier == "quick":
            # (A) names incl. invalid ones and duplicates, shallow; (B) one valid name, deep (structure)
            full = ["1.6.0", "1.18.0o", "2.21.2"]
            plan = {}
            for s in vlib.quick_schemas(seed, 2):
                fam = vlib.family(s)
                if fam == "v1":
                    plan[s] = [((4, 4) if s in full else (3, 4), N4), ((4, 6) if s in full else (4, 5), ("a",))]
                else:
                    plan[s] = [((4, 5) if s in full else (3, 4), N4), ((4, 6) if s in full else (4, 5), ("a", "b"))]
        else:
            plan = {}
            for s in vlib.ALL:
                fam = vlib.family(s)
                if fam == "v1":
                    plan[s] = [((4, 5), N4), ((5, 6), ("a",))]
                else:
                    plan[s] = [((4, 5), N4), ((5, 6), ("a", "b"))]
        for s, items in plan.items():
            for bounds, opn in items:
                st, sc = scripts_for(vlib.family(s), bounds, opn)
                # (B) runs with multi-byte UTF-8 names (driver flag u8: tokens are translated both ways)
                # (every second schema: names that are LIKE patterns / case variants of each other instead, driver flag nameset=like)
                ws.append(Workload(s, sc, list(N4), flags=({"nameset": "like"} if vlib.ALL.index(s) % 2 else {"u8": True}) if opn != N4 else ({"nameset": "like"} if vlib.ALL.index(s) % 2 == 0 else None),
                                   origin=st["instance"]))
        # (R) random long histories of the specification (tlc -simulate), larger forests
        nr, depth = (30, 30) if tier == "quick" else (150, 50)
        rcache = {}
        for s in plan:
            fam = vlib.family(s)
            if fam not in rcache:
                rcache[fam] = vlib.sim_forest(wd, fam, 7, depth, seed, num=200, limit=2000, opnames=("a", "b", "c", "", "x;y"))
                mc_stats.append(rcache[fam][0])
            st, sc = rcache[fam]
            r = random.Random(seed * 7919 + vlib.ALL.index(s))
            ws.append(Workload(s, r.sample(sc, min(nr, len(sc))), ["a", "b", "c", "", "x;y"], tag="r", origin=st["instance"],
                               flags=[{"u8": True}, {"nameset": "like"}, None][vlib.ALL.index(s) % 3]))
        smoke_rest(ws, list(plan), tier, lambda s: Workload(s, random.Random(seed + vlib.ALL.index(s)).sample(rcache[vlib.family(s)][1], 6),
                                                             ["a", "b", "c", "", "x;y"], tag="v", origin=rcache[vlib.family(s)][0]["instance"]))
        return ws

    return history_check(
        "C07", tier, seed, build,
        rule="every transition of the bounded Library graphs (crate operations; (A) names {a,b,'',x;y} incl. invalid and "
             "duplicate names, (B) fewer names but more crates / longer histories) is replayed through the real library "
             "with the shortest call sequence that reaches it; each call's outcome and the complete observation (crates, "
             "root_crates, per crate parent/children/descendants/name/validity/sub_crate_by_name, crate_by_id, "
             "crates_by_name, root_crate_by_name, stale handles) must be explained by the Library action of the same name; "
             "all Library invariants are evaluated in every trace state",
        assumptions=["names are opaque tokens from the declared vocabulary", "ids are compared as logged by the driver",
                     "sibling order is only constrained for the 2.x family"])


def replay(prop, path):
    """Re-executes the script of a replay file and validates it again."""
    p = json.load(open(path))
    wd = vlib.workdir("replay_%s" % prop)
    flavour = p.get("flavour", "plain")
    if "script" not in p and p.get("program"):
        # a statement program reported by MCContention: explore it again
        pp = os.path.join(wd, "progs.ndjson")
        with open(pp, "w") as fh:
            fh.write(json.dumps({"p": p["program"]["p"]}) + "\n")
        res = lockcheck._run(wd, "replay_mccontention", pp, "rollback")
        if not res["ok"]:
            log("replay: still fails:", res["errors"][:2])
            print("VIOLATION property=%s replay=%s" % (prop, path))
            return 1
        log("replay: accepted")
        return 0
    if "script" not in p:
        log("replay: this file carries no script (see its 'reason' and 'record')")
        return 2
    binary = vbuild.build_bin(p.get("driver", "libdriver"), flavour, extra_src=["shim.cpp"])
    sp = os.path.join(wd, "replay.script.ndjson")
    tp = os.path.join(wd, "replay.trace.ndjson")
    with open(sp, "w") as fh:
        for op in p["script"]:
            fh.write(json.dumps(op) + "\n")
    ev = vlib.run_driver(binary, sp, tp)
    v = vlib.validate_trace(p.get("module", "TraceLibrary"), p.get("cfg") or vlib.trace_cfg(), tp, wd, "replay", max_rejections=1)
    if v["rejected"] or ev:
        r = v["rejected"][0] if v["rejected"] else {}
        log("replay: still fails:", r.get("reason"), libcheck.describe(r.get("record")), ev)
        print("VIOLATION property=%s replay=%s" % (prop, path))
        return 1
    log("replay: accepted")
    return 0


def check_C08(tier, seed):
    """Crate contents are exactly the tracks added and not removed."""
    def build(wd, mc_stats):
        ws = []
        cache = {}

        def scripts_for(fam, mc, mt, mo, pre):
            key = (fam, mc, mt, mo, pre)
            if key not in cache:
                st, sc = vlib.mc_forest(wd, fam, mc, mo, max_tracks=mt, with_tracks=True, crate_ops="basic",
                                        opnames=("a",), pre=pre)
                mc_stats.append(st)
                cache[key] = (st, sc)
            return cache[key]

        if tier == "quick":
            full = ["1.6.0", "1.18.0o", "2.21.2"]
            rest = [s for s in vlib.REPR if s not in full] + pick_extra([s for s in vlib.ALL if s not in vlib.REPR], seed, 2)
            big = dict(mc=4, mt=6, mo=14)      # preamble (10 calls) + 4 calls: 2 more crates, 2 more tracks
            small = dict(mc=3, mt=6, mo=14)
        else:
            full = vlib.ALL
            rest = []
            big = dict(mc=4, mt=6, mo=15)
            small = big
        for s in full:
            st, sc = scripts_for(vlib.family(s), big["mc"], big["mt"], big["mo"], "diverge")
            ws.append(Workload(s, sc, ["a", "d"], origin=st["instance"]))
        for s in rest:
            st, sc = scripts_for(vlib.family(s), small["mc"], small["mt"], small["mo"], "diverge")
            ws.append(Workload(s, sc, ["a", "d"], origin=st["instance"]))
        # membership-only histories (2 crates x 3 live tracks), deeper, chained
        depth = 5 if tier == "quick" else 7
        for s in (vlib.REPR if tier == "quick" else vlib.ALL):
            key = ("mem", vlib.family(s))
            if key not in cache:
                st, sc = vlib.mc_forest(wd, vlib.family(s), 3, 13 + depth, max_tracks=6, with_tracks=True, crate_ops="none",
                                        pre="rich", track_ops="mem", opnames=("a",))
                mc_stats.append(st)
                cache[key] = (st, libcheck.chain_mem_scripts(sc, 13))
            st, sc = cache[key]
            ws.append(Workload(s, sc, ["c", "d"], origin=st["instance"]))
        # (R) random long membership histories (tlc -simulate), incl. track / crate creation and removal
        nr, rdepth = (40, 40) if tier == "quick" else (200, 60)
        rcache = {}
        for s in (vlib.REPR if tier == "quick" else vlib.ALL):
            fam = vlib.family(s)
            if fam not in rcache:
                a = vlib.sim_forest(wd, fam, 3, rdepth, seed, num=200, limit=2000, max_tracks=6, with_tracks=True,
                                    crate_ops="none", pre="rich", track_ops="mem", opnames=("a",))
                b = vlib.sim_forest(wd, fam, 6, rdepth, seed + 1, num=200, limit=2000, max_tracks=12, with_tracks=True,
                                    crate_ops="basic", pre="rich", track_ops="all", opnames=("a", "b"))
                rcache[fam] = (a, b)
                mc_stats.extend([a[0], b[0]])
            r = random.Random(seed * 104729 + vlib.ALL.index(s))
            for st, sc in rcache[fam]:
                ws.append(Workload(s, r.sample(sc, min(nr, len(sc))), ["a", "b", "c", "d"], tag="r", origin=st["instance"]))
        # (K) the bulk entry point: the membership graphs and random histories with their runs of add_track folded into
        # add_tracks calls whose ranges repeat tracks (libcheck.bulkify; Library!AddTracks)
        for s in (vlib.REPR if tier == "quick" else vlib.ALL):
            fam = vlib.family(s)
            r = random.Random(seed * 15485863 + vlib.ALL.index(s))
            st, sc = cache[("mem", fam)]
            bk = libcheck.bulkify(sc, r)
            for st2, sc2 in rcache[fam]:
                bk += libcheck.bulkify(r.sample(sc2, min(nr, len(sc2))), r)
            if tier == "quick" and len(bk) > 60:
                bk = r.sample(bk, 60)
            ws.append(Workload(s, bk, ["a", "b", "c", "d"], tag="k", origin=st["instance"] + " + bulkify"))
        # the same operations from a fresh library (ids coincide) as a second instance
        for s in (full if tier != "quick" else ["1.18.0o", "2.21.2"]):
            st, sc = scripts_for(vlib.family(s), 2, 2, 5, "none")
            ws.append(Workload(s, sc, ["a", "d"], origin=st["instance"]))
        return ws

    return history_check(
        "C08", tier, seed, build,
        rule="every transition of the bounded Library graph over create/remove track, create/remove crate, add_track, "
             "remove_track (from crate), clear_tracks is replayed, starting after a preamble that makes crate ids, track "
             "ids and membership-row ids diverge; crate.tracks() (as a sequence, so duplicates show), "
             "track.containing_crates() where supported and database.tracks() must equal the abstract membership; "
             "MemInv / MemFrame are evaluated on every trace step",
        assumptions=["containing_crates() is 'supported' only in the 1.x family (2.x throws 'not yet implemented')"])


def check_C09(tier, seed):
    """Ordered listings keep every sibling and entry exactly once, in order (2.x)."""
    def build(wd, mc_stats):
        ws = []
        if tier == "quick":
            st, sc = vlib.mc_forest(wd, "v2", 4, 5)
            st2, sc2 = vlib.mc_forest(wd, "v2", 3, 5)
            mc_stats.extend([st, st2])
            for s in vlib.V2:
                if s in ("2.18.0", "2.21.2"):
                    ws.append(Workload(s, sc, libcheck.NAMES4, origin=st["instance"]))
                else:
                    ws.append(Workload(s, sc2, libcheck.NAMES4, origin=st2["instance"]))
            st3, sc3 = vlib.mc_forest(wd, "v2", 3, 15, max_tracks=7, with_tracks=True, crate_ops="basic", opnames=("a",), pre="diverge")
            st4, sc4 = vlib.mc_forest(wd, "v2", 3, 13 + 5, max_tracks=6, with_tracks=True, crate_ops="none", pre="rich", track_ops="mem", opnames=("a",))
            sc4 = libcheck.chain_mem_scripts(sc4, 13)
            mc_stats.extend([st3, st4])
            for s in ("2.18.0", "2.20.1", "2.20.3", "2.21.2"):
                ws.append(Workload(s, sc3, ["a", "d"], origin=st3["instance"]))
            for s in vlib.V2:
                ws.append(Workload(s, sc4, ["c", "d"], origin=st4["instance"]))
        else:
            st, sc = vlib.mc_forest(wd, "v2", 5, 5)
            st3, sc3 = vlib.mc_forest(wd, "v2", 3, 16, max_tracks=7, with_tracks=True, crate_ops="basic", opnames=("a",), pre="diverge")
            st4, sc4 = vlib.mc_forest(wd, "v2", 3, 13 + 7, max_tracks=6, with_tracks=True, crate_ops="none", pre="rich", track_ops="mem", opnames=("a",))
            sc4 = libcheck.chain_mem_scripts(sc4, 13)
            mc_stats.extend([st, st3, st4])
            for s in vlib.V2:
                ws.append(Workload(s, sc, libcheck.NAMES4, origin=st["instance"]))
                ws.append(Workload(s, sc3, ["a", "d"], origin=st3["instance"]))
                ws.append(Workload(s, sc4, ["c", "d"], origin=st4["instance"]))
        return ws

    def build_with_random(wd, mc_stats):
        ws = build(wd, mc_stats)
        nr, rdepth = (40, 40) if tier == "quick" else (200, 60)
        a = vlib.sim_forest(wd, "v2", 3, rdepth, seed, num=200, limit=2000, max_tracks=6, with_tracks=True,
                            crate_ops="none", pre="rich", track_ops="mem", opnames=("a",))
        b = vlib.sim_forest(wd, "v2", 7, rdepth, seed + 1, num=200, limit=2000, opnames=("a", "b", "c"))
        # (entries also disappear when their TRACK is removed from the database, or their crate: all operations mixed)
        c = vlib.sim_forest(wd, "v2", 6, rdepth, seed + 2, num=200, limit=2000, max_tracks=12, with_tracks=True,
                            crate_ops="basic", pre="rich", track_ops="all", opnames=("a", "b"))
        mc_stats.extend([a[0], b[0], c[0]])
        for s in vlib.V2:
            r = random.Random(seed * 15485863 + vlib.ALL.index(s))
            # on two schemas the stored rows are logged too and must be the rows the storage-layer model predicts
            rows = s in ("2.18.0", "2.21.2") or tier != "quick"
            for st, sc in (a, b, c):
                ws.append(Workload(s, r.sample(sc, min(nr, len(sc))), ["a", "b", "c", "d"], tag="r", origin=st["instance"],
                                   flags={"raw": True} if rows else None, also=vlib.v2store_also(s) if rows else ()))
        # the storage-layer model itself: chain invariants, refinement into Library, atomicity under Fail(k)
        import mcv2store
        stats, sens, problems = mcv2store.model_check(wd, tier, mc_stats, variants=(tier != "quick"))
        if problems:
            raise vlib.ToolFailure("; ".join(problems))
        return ws

    # the playlist / playlist-entity TABLE API along every transition of the storage-layer model (MCV2Table), incl. entities of
    # another database in the middle of a chain: ordered listings as sequences (TraceV2Table); the full run is part of C18's check
    import tablecheck as _tb

    def build_pl(wd, mc_stats):
        ws, tcfg, stats, n, consts = _tb.build_pltable(wd, mc_stats, "quick", seed)
        r = random.Random(seed * 3)
        for w in ws:
            w.scripts = r.sample(w.scripts, min(250 if tier == "quick" else 1500, len(w.scripts)))
        return ws

    pl_cfg = vlib.cfg_text("TSpec", {"ValidNames": {"a", "b"}, "InvalidNames": {"", "x;y"}, "Variant": "current", "MaxP": 3, "MaxE": 3,
                                     "Tracks": {1, 2, 101}, "MaxOps": 0, "OpNames": {"a", "b", ""}}, postcondition="Accepted")
    return history_check(
        "C09", tier, seed, build_with_random,
        also=[{"driver": "pltabledriver", "build": build_pl, "module": "TraceV2Table", "cfg": pl_cfg}],
        rule="2.x only: every transition of the bounded crate graph (create[_after] at first/middle/last position, "
             "set_parent, set_name, remove) and of the membership graph (add/remove/clear with 3 entries) is replayed; "
             "root_crates(), children() and crate.tracks() are compared as *sequences* with the abstract sibling / entry "
             "order; OrderStable is evaluated on every trace step",
        assumptions=["an un-positioned create or move may land at any position among the new siblings (the property only "
                     "says 'among'); create_*_after must land immediately after the given sibling"])


def check_C16(tier, seed):
    """Observing a library never modifies it."""
    def build(wd, mc_stats):
        ws = []
        schemas = vlib.quick_schemas(seed, 1) if tier == "quick" else vlib.ALL
        cache = {}
        for s in schemas:
            fam = vlib.family(s)
            if fam not in cache:
                st, sc = vlib.mc_forest(wd, fam, 3, 4)
                st2, sc2 = vlib.mc_forest(wd, fam, 3, 13, max_tracks=5, with_tracks=True, crate_ops="basic", opnames=("a",), pre="diverge")
                mc_stats.extend([st, st2])
                cache[fam] = (st, sc, st2, sc2)
            st, sc, st2, sc2 = cache[fam]
            r = random.Random(seed * 1000 + vlib.ALL.index(s))
            nmem, ndisk = (150, 60) if tier == "quick" else (len(sc), 400)
            pick = sc if len(sc) <= nmem else r.sample(sc, nmem)
            ws.append(Workload(s, pick, libcheck.NAMES4, mode="mem", flags={"rep": True}, origin=st["instance"]))
            pick2 = sc2 if len(sc2) <= nmem else r.sample(sc2, nmem)
            ws.append(Workload(s, pick2, ["a", "d"], mode="mem", flags={"rep": True}, origin=st2["instance"]))
            pick3 = (sc + sc2) if len(sc + sc2) <= ndisk else r.sample(sc + sc2, ndisk)
            ws.append(Workload(s, pick3, libcheck.NAMES4 + ["d"], mode="disk", flags={"rep": True, "reopen": True}, origin=st["instance"]))
            # (W) the same on a library whose database files another SQLite client has switched to WAL journal mode (the journal mode is
            # a property of the file; Engine DJ itself uses it): loading, observing and closing leave the files byte-identical
            nwal = 15 if tier == "quick" else 100
            ws.append(Workload(s, pick3 if len(pick3) <= nwal else r.sample(pick3, nwal), libcheck.NAMES4 + ["d"], mode="disk", tag="w",
                               flags={"rep": True, "reopen": True, "wal": True}, origin=st["instance"] + ", WAL-mode files"))

        def smoke(s):
            st, sc, st2, sc2 = cache[vlib.family(s)]
            r = random.Random(seed * 11 + vlib.ALL.index(s))
            return Workload(s, r.sample(sc + sc2, min(10, len(sc + sc2))), libcheck.NAMES4 + ["d"], mode="disk", flags={"rep": True, "reopen": True},
                            tag="v", origin=st["instance"])
        smoke_rest(ws, schemas, tier, smoke)
        return ws

    def build_tracks(wd, mc_stats):
        # track-level observers, also through handles to removed tracks (every getter of a stale handle is an observer too)
        import trackchecks
        res, bases, seqs = trackchecks.run_mc_track(wd, 1)
        mc_stats.append({"instance": res["instance"], "states": res["states"], "transitions": res["generated"]})
        mk = trackchecks.mk
        singles = [sq[0] for sq in seqs if len(sq) == 1]
        r = random.Random(seed * 17)
        scripts = []
        for a in sorted(bases):
            for b in ("min", "full"):
                ops = [mk("create", snap=bases[a]), mk("create", snap=dict(bases[b], relative_path=["other/t2.flac"])), mk("remove", t=1)]
                for o in r.sample(singles, 3):
                    ops.append(mk("set", t=2, f=o["f"], v=o["v"]))
                ops += [mk("create", snap=dict(bases["min"], relative_path=["other/t3.wav"])), mk("remove", t=2), mk("remove", t=3)]
                scripts.append(ops)
        # paths as other software stores them (Windows separators, mixed case): the lookups of the observation phase then have
        # near misses that match modulo separator / case (seeded change C16f: a lookup that "canonicalises" the stored spelling)
        odd = ["..\\Music\\Some Artist\\odd one.mp3", "MiXeD/Case/Track.MP3", "a\\b/c\\d.flac"]
        scripts.append([mk("create", snap=dict(bases["full"], relative_path=[odd[0]])), mk("create", snap=dict(bases["min"], relative_path=[odd[1]])),
                        mk("set", t=2, f="relative_path", v=[odd[2]]), mk("update", t=1, snap=dict(bases["min"], relative_path=[odd[1]])), mk("remove", t=2)])
        ws = []
        # sessions on disk: observe-only sessions between reloads (what a connection does when it is CLOSED counts: the tables
        # after the reload must be the tables before the last handle was released), then a setter, then observe-only again
        dscripts = []
        for a in ("full", "min"):
            ops = [mk("create", snap=bases[a]), mk("reopen"), mk("reopen")]
            for o in r.sample(singles, 2):
                ops += [mk("set", t=1, f=o["f"], v=o["v"]), mk("reopen")]
            ops += [mk("create", snap=dict(bases["min"], relative_path=["other/t2.wav"])), mk("reopen"), mk("remove", t=1), mk("reopen"), mk("reopen")]
            dscripts.append(ops)
        dscripts.append([mk("create", snap=dict(bases["full"], relative_path=[odd[0]])), mk("reopen"), mk("create", snap=dict(bases["min"], relative_path=[odd[1]])),
                         mk("reopen"), mk("reopen")])
        for s in (vlib.quick_schemas(seed, 1) if tier == "quick" else vlib.ALL):
            ws.append(Workload(s, scripts, [], flags={"rep": True, "stale_get": True}, tag="t", origin=res["instance"]))
            ws.append(Workload(s, dscripts, [], mode="disk", flags={"rep": True}, tag="td", origin=res["instance"]))
        return ws

    import trackchecks as _tc
    import tablecheck as _tb
    import auxcheck as _ax
    import blobsetcheck as _bs
    plt = {}

    def build_pl(wd, mc_stats):
        ws, tcfg, stats, n, consts = _tb.build_pltable(wd, mc_stats, "quick", seed)
        if tier == "quick":
            r = random.Random(seed)
            for w in ws:
                w.scripts = r.sample(w.scripts, min(300, len(w.scripts)))
        plt["cfg"] = tcfg
        return ws

    # (the playlist-table trace cfg only depends on constants that are fixed here)
    pl_cfg = vlib.cfg_text("TSpec", {"ValidNames": {"a", "b"}, "InvalidNames": {"", "x;y"}, "Variant": "current", "MaxP": 3, "MaxE": 3,
                                     "Tracks": {1, 2, 101}, "MaxOps": 0, "OpNames": {"a", "b", ""}}, postcondition="Accepted")
    return history_check(
        "C16", tier, seed, build,
        also=[{"driver": "trackdriver", "build": build_tracks, "module": "TraceTrackFields", "cfg": _tc.track_cfg()},
              {"driver": "trackdriver", "build": lambda wd, ms: _bs.build_foreign_obs(wd, ms, tier, seed), "module": "TraceTrackBlobs", "cfg": _bs.blob_cfg()},
              {"driver": "tabledriver", "build": lambda wd, ms: _tb.build_table16(wd, ms, tier, seed), "module": "TraceTableApi", "cfg": _tb.table_cfg()},
              {"driver": "pltabledriver", "build": build_pl, "module": "TraceV2Table", "cfg": pl_cfg},
              {"driver": "auxdriver", "build": lambda wd, ms: _ax.build_aux(wd, ms, tier, seed, nmax=250 if tier == "quick" else None, nrand=30 if tier == "quick" else None), "module": "TraceChangeLog", "cfg": _ax.aux_cfg()}],
        rule="tracks holding foreign blobs (2.x; entry counts other than eight, flag bytes, trailing bytes planted behind the library's "
             "back): all getters and snapshot() twice after every planted blob, same NoWrite rule and the planted payload must still be "
             "there (TraceTrackBlobs); table level (schema-2.x table API): the read functions of track_table (get, exists, all_ids, the 48 per-column getters), "
             "playlist_table / playlist_entity_table (all_ids, root_ids, child_ids, descendant_ids, get, exists, find_id, track_ids, "
             "get_for_list), change_log_table (all, after, last) and information_table (get) are executed twice after every operation "
             "of the table-level scripts under the same NoWrite rule; track level: histories of create / set / remove over three tracks with all 25 getters, the per-slot getters and snapshot() "
             "of every live track AND of every handle to a removed track executed twice after every call (same NoWrite rule); crate level: "
             "after every call of every replayed history the complete observation batch (every getter, listing and "
             "lookup of database / crate / track handles; on disk also database_exists() and load_database()) is "
             "executed twice; the trace spec (NoWrite) requires: no non-read-only statement stepped, "
             "sqlite3_total_changes unchanged, digest of all tables unchanged, second observation identical, and on "
             "disk the directory listing and file contents unchanged",
        assumptions=["sqlite3_stmt_readonly classifies statements correctly", "verify() is exercised by C11/C17 runs"])


def _std_graphs(wd, mc_stats, fam, cache, crate_bounds=(3, 4), mem_bounds=(3, 5, 13)):
    """The two standard bounded graphs: crate operations from a fresh library, and membership
    operations after the id-diverging preamble."""
    key = (fam, crate_bounds, mem_bounds)
    if key not in cache:
        st, sc = vlib.mc_forest(wd, fam, crate_bounds[0], crate_bounds[1])
        st2, sc2 = vlib.mc_forest(wd, fam, mem_bounds[0], mem_bounds[2], max_tracks=mem_bounds[1], with_tracks=True,
                                  crate_ops="basic", opnames=("a",), pre="diverge")
        mc_stats.extend([st, st2])
        cache[key] = (st, sc, st2, sc2)
    return cache[key]


def check_C10(tier, seed):
    """Everything observed before closing is observed after reopening."""
    def build(wd, mc_stats):
        ws = []
        cache = {}
        schemas = vlib.quick_schemas(seed, 1) if tier == "quick" else vlib.ALL
        for s in schemas:
            st, sc, st2, sc2 = _std_graphs(wd, mc_stats, vlib.family(s), cache,
                                           crate_bounds=(3, 4) if tier == "quick" else (4, 4),
                                           mem_bounds=(3, 5, 13) if tier == "quick" else (3, 6, 14))
            r = random.Random(seed * 977 + vlib.ALL.index(s))
            n1, n2 = (120, 120) if tier == "quick" else (len(sc), len(sc2))
            ws.append(Workload(s, sc if len(sc) <= n1 else r.sample(sc, n1), libcheck.NAMES4, mode="disk",
                               flags={"reopen": True}, origin=st["instance"]))
            ws.append(Workload(s, sc2 if len(sc2) <= n2 else r.sample(sc2, n2), ["a", "d"], mode="disk",
                               flags={"reopen": True}, origin=st2["instance"]))
            # whole sessions: many calls on ONE connection, closing only at chosen prefixes and at the end
            # (a reopen after every call would hide state that a long-lived connection accumulates)
            both = [list(x) + [{"op": "reopen"}] for x in r.sample(sc + sc2, min(len(sc + sc2), n1))]
            ws.append(Workload(s, both, libcheck.NAMES4 + ["d"], mode="disk", tag="e", origin=st["instance"], flags={"u8": True}))
        # (R) random long histories with a reopen at two seed-chosen prefixes and at the end
        nr, rdepth = (25, 40) if tier == "quick" else (150, 60)
        rcache = {}
        for s in schemas:
            fam = vlib.family(s)
            if fam not in rcache:
                a = vlib.sim_forest(wd, fam, 6, rdepth, seed, num=200, limit=2000, max_tracks=12, with_tracks=True,
                                    crate_ops="all", pre="rich", track_ops="all", opnames=("a", "b", "c"))
                rcache[fam] = a
                mc_stats.append(a[0])
            st, sc = rcache[fam]
            r = random.Random(seed * 6151 + vlib.ALL.index(s))
            picked = []
            for x in r.sample(sc, min(nr, len(sc))):
                x = list(x)
                for pos in sorted(r.sample(range(14, len(x)), 2), reverse=True):
                    x.insert(pos, {"op": "reopen"})
                picked.append(x + [{"op": "reopen"}])
            ws.append(Workload(s, picked, ["a", "b", "c", "d"], mode="disk", tag="r", origin=st["instance"],
                               flags={"u8": True} if vlib.ALL.index(s) % 2 == 1 else None))
            # (M) two connections: a second database object is loaded from the same directory while the first stays open; a
            # seed-chosen half of the calls goes through it, both are observed after every call (MultiConn.tla: Coherent)
            nm = 12 if tier == "quick" else 80
            ws.append(Workload(s, libcheck.with_via(picked[:nm], r), ["a", "b", "c", "d"], mode="disk", tag="m", origin=st["instance"],
                               flags={"conn2": True, "rep": True}))
        libcheck.model_check_multiconn(wd, mc_stats, max_calls=4 if tier == "quick" else 5)

        def smoke(s):
            sc = rcache[vlib.family(s)][1]
            r = random.Random(seed * 3 + vlib.ALL.index(s))
            picked = [list(x)[:20] + [{"op": "reopen"}] + list(x)[20:] + [{"op": "reopen"}] for x in r.sample(sc, min(4, len(sc)))]
            return Workload(s, picked, ["a", "b", "c", "d"], mode="disk", tag="v", origin=rcache[vlib.family(s)][0]["instance"])
        smoke_rest(ws, schemas, tier, smoke)
        return ws

    def build_tracks(wd, mc_stats):
        # track level (the property names "track and crate operations"): every base snapshot of MCTrackFields - among them the one
        # made of the values a storage format reserves (zero, -1, empty) - written by create_track / update, every value class of
        # every field written by its setter, seed-chosen snapshots; the library is closed and loaded again after EVERY call and
        # all tracks are observed through fresh handles (TraceTrackFields!TReopen: Unchanged).  What a connection keeps to itself
        # (seeded change C10f: decoded performance data remembered per connection, not normalised the way the stored blob is)
        # shows here and nowhere else.
        import trackchecks
        res, bases, seqs = trackchecks.run_mc_track(wd, 1)
        mc_stats.append({"instance": res["instance"], "states": res["states"], "transitions": res["generated"]})
        mk = trackchecks.mk
        singles = [sq[0] for sq in seqs if len(sq) == 1 and sq[0]["f"] not in ("hot_cue_at", "loop_at")]
        slots = [sq[0] for sq in seqs if len(sq) == 1 and sq[0]["f"] in ("hot_cue_at", "loop_at")]
        r = random.Random(seed * 41)
        names = sorted(bases)
        scripts = []
        for a in names:
            for b in (names if tier != "quick" else r.sample(names, 2)):
                scripts.append([mk("create", snap=bases[a]), mk("reopen"), mk("update", t=1, snap=bases[b]), mk("reopen"),
                                mk("create", snap=dict(bases[a], relative_path=["other/t2.flac"])), mk("reopen"), mk("remove", t=1), mk("reopen")])
        r.shuffle(singles)
        for i in range(0, len(singles), 8):
            ops = [mk("create", snap=bases["full"]), mk("create", snap=dict(bases["min"], relative_path=["other/t2.wav"]))]
            for o in singles[i:i + 8]:
                ops += [mk("set", t=1, f=o["f"], v=o["v"]), mk("reopen"), mk("set", t=2, f=o["f"], v=o["v"]), mk("reopen")]
            scripts.append(ops)
        for o in r.sample(slots, min(len(slots), 12 if tier == "quick" else len(slots))):
            scripts.append([mk("create", snap=bases["full"]), mk("set", t=1, f=o["f"], v=o["v"]), mk("reopen")])
        for k in range(20 if tier == "quick" else 200):
            a, b = trackchecks.random_snapshot(r, k), trackchecks.random_snapshot(r, k + 100000)
            scripts.append([mk("create", snap=a), mk("reopen"), mk("update", t=1, snap=b), mk("reopen"), mk("create", snap=b), mk("reopen")])
        # a long track: one hour at 44.1 kHz with the high-resolution waveform Engine recommends for it (378 000 entries, 2.2 MB that
        # do not compress) - the largest rows a real library holds; limits that live on a connection rather than in the file
        # (seeded change C10h: a length limit set on loaded connections only) show after the reload and nowhere else
        hour = dict(bases["full"], relative_path=["long/hour.mp3"], sample_count=["158760000"], sample_rate=["40e5888000000000"],
                    duration=[3600], waveform={"n": 378000, "seed": 11, "opaque": False})
        scripts.append([mk("create", snap=hour), mk("reopen"), mk("set", t=1, f="title", v=["after reload"]), mk("reopen"),
                        mk("update", t=1, snap=dict(hour, waveform={"n": 378000, "seed": 12, "opaque": False})), mk("reopen"),
                        mk("create", snap=dict(hour, relative_path=["long/hour2.flac"])), mk("reopen")])
        ws = []
        for s in (vlib.quick_schemas(seed, 1) if tier == "quick" else vlib.ALL):
            ws.append(Workload(s, scripts, [], mode="disk", tag="tk", origin=res["instance"]))
        return ws

    import trackchecks as _tc
    return history_check(
        "C10", tier, seed, build, also=[{"driver": "trackdriver", "build": build_tracks, "module": "TraceTrackFields", "cfg": _tc.track_cfg()}],
        rule="histories from the bounded Library graphs are executed on libraries created on disk (tmpfs); after EVERY call "
             "all handles are released, database_exists() and load_database(dir, loaded) are called and the complete "
             "observation is taken again: TLC (action Reopen: UNCHANGED state) requires it to equal the abstract state, "
             "`loaded` to be the schema the library was created with (out-parameter pre-set to a sentinel) and "
             "database_exists() to be true; create_or_load / missing / empty directories are covered by C13's check",
        assumptions=["track level: snapshots and all getters of all tracks after close + load equal those before (TraceTrackFields!TReopen), "
                     "for every base snapshot, every value class of every field and seed-chosen snapshots"])


def check_C11(tier, seed):
    """The stored database stays a well-formed Engine library."""
    def build(wd, mc_stats):
        ws = []
        cache = {}
        schemas = vlib.quick_schemas(seed, 1) if tier == "quick" else vlib.ALL
        for s in schemas:
            st, sc, st2, sc2 = _std_graphs(wd, mc_stats, vlib.family(s), cache,
                                           crate_bounds=(3, 4) if tier == "quick" else (4, 5),
                                           mem_bounds=(3, 5, 13) if tier == "quick" else (3, 6, 14))
            r = random.Random(seed * 31 + vlib.ALL.index(s))
            n1, n2 = (250, 250) if tier == "quick" else (len(sc), len(sc2))
            ws.append(Workload(s, sc if len(sc) <= n1 else r.sample(sc, n1), libcheck.NAMES4, flags={"raw": True, "u8": True}, origin=st["instance"],
                               also=vlib.store_also(s)))
            ws.append(Workload(s, sc2 if len(sc2) <= n2 else r.sample(sc2, n2), ["a", "d"], flags={"raw": True, "u8": True}, origin=st2["instance"],
                               also=vlib.store_also(s)))
        # forests of 4 crates built by create_root / create_sub and moved by set_parent (6 calls): the flattened hierarchy and the
        # path strings of 1.x, the sibling chains of 2.x after a sub-tree moved under a crate that has ancestors itself
        mcache = {}
        for s in schemas:
            fam = vlib.family(s)
            if fam not in mcache:
                mcache[fam] = vlib.mc_forest(wd, fam, 4, 6, crate_ops="move", opnames=("a",) if fam == "v1" else ("a", "b", "c", "d"), timeout=1500)
                mc_stats.append(mcache[fam][0])
            st, sc = mcache[fam]
            r = random.Random(seed * 37 + vlib.ALL.index(s))
            nm = 200 if tier == "quick" else 5000
            ws.append(Workload(s, sc if len(sc) <= nm else r.sample(sc, nm), libcheck.NAMES4 + ["d"], flags={"raw": True}, tag="mv", origin=st["instance"],
                               also=vlib.store_also(s)))
        # the 1.x storage-layer model itself: the three redundant encodings agree after every call, refinement into
        # Library, atomicity under Fail(k) (the 2.x model is checked by C09's run)
        import mcv2store
        stats, sens, problems = mcv2store.model_check_v1(wd, tier, mc_stats, variants=(tier != "quick"))
        if problems:
            raise vlib.ToolFailure("; ".join(problems))
        # the structural grammar the stored blobs are judged by (BlobWF.tla) against the specification's own encoder: every sample
        # payload is well-formed; for the layouts without trailing data no proper prefix and no extension is; a count that announces
        # more entries than are there is not (ASSUMEs of MCBlobWF, evaluated by TLC when it starts)
        rc, outp = vlib.run_tlc("MCBlobWF", vlib.cfg_text("Spec", {"Kinds": {"track_data1"}}), wd, "mcblobwf", workers=1, timeout=300)
        res = vlib.parse_tlc(outp)
        if not res["ok"]:
            raise vlib.ToolFailure("MCBlobWF: the blob grammar disagrees with the specification's encoder, or TLC failed (see %s)" % outp)
        mc_stats.append({"instance": "MCBlobWF (grammar of the eleven payload layouts vs. Enc)", "states": res["states"] or 0, "transitions": res["generated"] or 0})

        def smoke(s):
            st, sc, st2, sc2 = cache[(vlib.family(s), (3, 4), (3, 5, 13))]
            r = random.Random(seed * 5 + vlib.ALL.index(s))
            return Workload(s, r.sample(sc, min(12, len(sc))) + r.sample(sc2, min(6, len(sc2))), libcheck.NAMES4 + ["d"], flags={"raw": True, "u8": True},
                            tag="v", origin=st["instance"], also=vlib.store_also(s))
        smoke_rest(ws, schemas, tier, smoke)
        return ws

    def build_tracks(wd, mc_stats):
        # track level: the derived columns of the stored Track rows after create / update / set_relative_path / other setters /
        # remove, with paths whose file name and extension change (TraceTrackFields!RawTracksOK)
        import trackchecks
        res, bases, seqs = trackchecks.run_mc_track(wd, 1)
        mc_stats.append({"instance": res["instance"], "states": res["states"], "transitions": res["generated"]})
        mk = trackchecks.mk
        by_field = {}
        for sq in seqs:
            if len(sq) == 1:
                by_field.setdefault(sq[0]["f"], []).append(sq[0]["v"])
        r = random.Random(seed * 29)
        paths = ["../Music/renamed.wav", "a/b/transcoded.flac", "x.y/two.dots.ogg", "UPPER/CASE.MP3", "no/slash.aiff", "uml/\u00e4\u00f6.m4a"]
        scripts = []
        for base in ("full", "min", "edge"):
            ops = [mk("create", snap=bases[base]), mk("create", snap=dict(bases["sentinels"], relative_path=["other/t2.flac"]))]
            for p in r.sample(paths, 3):
                ops.append(mk("update", t=1, snap=dict(bases["full"], relative_path=[p])))
                # (a rename onto a path another track holds is refused: the stored row must stay whole)
                ops.append(mk("set", t=2, f="relative_path", v=[p]))
                ops.append(mk("set", t=2, f="relative_path", v=[p.replace(".", "-2.", 1) if p.count(".") == 1 else "z/" + p]))
            for v in by_field.get("relative_path", []):
                ops.append(mk("set", t=1, f="relative_path", v=v))
            for f in r.sample(sorted(by_field), 6):
                ops.append(mk("set", t=1, f=f, v=r.choice(by_field[f])))
            ops += [mk("update", t=2, snap=bases["edge"]), mk("remove", t=1), mk("create", snap=dict(bases["min"], relative_path=["again/t3.wav"])),
                    mk("update", t=3, snap=dict(bases["full"], relative_path=["again/t3.mp3"])), mk("remove", t=2)]
            # calls through the handles of the two removed tracks (nominal values of every setter, a whole-snapshot write): whatever they
            # answer, the stored database must stay well-formed (TProbe: RawSane - no row that names no stored track)
            for f in sorted(by_field):
                ops.append(mk("set", t=1 + (len(ops) % 2), f=f, v=r.choice(by_field[f]), probe=True))
            ops += [mk("update", t=2, snap=bases["full"], probe=True), mk("update", t=1, snap=bases["min"], probe=True)]
            scripts.append(ops)
        ws = []
        for s in (vlib.quick_schemas(seed, 2) if tier == "quick" else vlib.ALL):
            ws.append(Workload(s, scripts, [], flags={"raw": True}, tag="t", origin=res["instance"]))
        return ws

    import trackchecks as _tc
    return history_check(
        "C11", tier, seed, build, also=[{"driver": "trackdriver", "build": build_tracks, "module": "TraceTrackFields", "cfg": _tc.track_cfg()}],
        rule="after every call of the replayed histories an independent reader (plain SQLite C API) dumps the raw rows; "
             "TLC evaluates RawStore!RawV1OK / RawV2OK on them against the abstract state: PRAGMA integrity_check and "
             "foreign_key_check clean, verify() passes; 1.x: Crate.path = names root->crate each followed by ';', one "
             "CrateParentList row per live crate, CrateHierarchy = ancestor relation, CrateTrackList = membership without "
             "duplicates or dangling rows, no MetaData/MetaDataInteger/PerformanceData rows of removed tracks, trackCount "
             "= number of membership rows; 2.x: per parent one sibling chain in listed order ending in 0, per playlist one "
             "entity chain in listed order, entities reference live rows of this database, Track.filename/fileType/"
             "origin columns agree with path / uuid / id",
        assumptions=["track level: every stored version of every performance blob column (5 in 2.x, 6 in 1.x) is un-framed with plain zlib and "
                     "judged by the structural grammar of its layout (BlobWF.tla: counts, entries, label lengths, fixed tail, nothing left over "
                     "in 1.x); byte-level agreement with the format is decided by the C02/C04 checks",
                     "NULL is logged as a typed sentinel (-999999 / '<NULL>')"])


def check_C14(tier, seed):
    """A failed mutating call leaves no partial update."""
    def build(wd, mc_stats):
        ws = []
        cache = {}
        schemas = vlib.quick_schemas(seed, 1) if tier == "quick" else vlib.ALL
        for s in schemas:
            st, sc, st2, sc2 = _std_graphs(wd, mc_stats, vlib.family(s), cache,
                                           crate_bounds=(3, 4) if tier == "quick" else (4, 4),
                                           mem_bounds=(3, 5, 13) if tier == "quick" else (3, 6, 14))
            r = random.Random(seed * 131 + vlib.ALL.index(s))
            n1, n2 = (100, 100) if tier == "quick" else (len(sc), len(sc2))
            fl = {"sweep": True, "raw": True, "stmts": True}
            ws.append(Workload(s, sc if len(sc) <= n1 else r.sample(sc, n1), libcheck.NAMES4, flags=fl, origin=st["instance"],
                               also=vlib.store_also(s) + vlib.txn_also()))
            ws.append(Workload(s, sc2 if len(sc2) <= n2 else r.sample(sc2, n2), ["a", "d"], flags=dict(fl), origin=st2["instance"],
                               also=vlib.store_also(s) + vlib.txn_also()))
            # crash points: the same histories on disk; every call is first attempted in a process that dies right before
            # its k-th statement (k = 1, 2, ...), the library is loaded again and observed (TraceLibrary: "crash" records)
            c1, c2 = (20, 12) if tier == "quick" else (300, 200)
            cf = {"crash": True, "raw": True}
            ws.append(Workload(s, sc if len(sc) <= c1 else r.sample(sc, c1), libcheck.NAMES4, mode="disk", flags=cf, tag="k", origin=st["instance"]))
            ws.append(Workload(s, sc2 if len(sc2) <= c2 else r.sample(sc2, c2), ["a", "d"], mode="disk", flags=dict(cf), tag="k", origin=st2["instance"]))
            # crash points below the statement level: the process dies right before the n-th file-modifying system call of
            # SQLite's VFS (journal creation, page writes, journal deletion = the commit point), n = 1, 2, ...
            # (TraceLibrary as for statement-level crash points; TraceCommit: the files found changed are an outcome of
            #  CommitProtocol.tla - per-file atomic, attach order, no master journal)
            y1, y2 = (3, 2) if tier == "quick" else (20, 12)
            yf = {"syscrash": True}
            ws.append(Workload(s, sc if len(sc) <= y1 else r.sample(sc, y1), libcheck.NAMES4, mode="disk", flags=yf, tag="y", origin=st["instance"],
                               also=commitcheck.also()))
            ws.append(Workload(s, sc2 if len(sc2) <= y2 else r.sample(sc2, y2), ["a", "d"], mode="disk", flags=dict(yf), tag="y", origin=st2["instance"],
                               also=commitcheck.also()))
            # lock sweep: the same histories on disk; every call is first attempted while another connection takes an
            # EXCLUSIVE / RESERVED / SHARED lock on the database files right before the call's k-th statement
            # (TraceLibrary: a refused call is a Failed step; TraceContention: every statement result is the one SQLite's
            # locking protocol gives, the library rolls back and is left without lock or transaction)
            l1, l2 = (6, 4) if tier == "quick" else (60, 40)
            lf = {"locks": True, "raw": True}
            ws.append(Workload(s, sc if len(sc) <= l1 else r.sample(sc, l1), libcheck.NAMES4, mode="disk", flags=lf, tag="l", origin=st["instance"],
                               also=vlib.store_also(s) + lockcheck.also()))
            ws.append(Workload(s, sc2 if len(sc2) <= l2 else r.sample(sc2, l2), ["a", "d"], mode="disk", flags=dict(lf), tag="l", origin=st2["instance"],
                               also=vlib.store_also(s) + lockcheck.also()))
        return ws

    def build_tracks(wd, mc_stats):
        # the same sweep over track-level calls: create_track, update, every field setter, remove_track
        import trackchecks
        res, bases, seqs = trackchecks.run_mc_track(wd, 1)
        mc_stats.append({"instance": res["instance"], "states": res["states"], "transitions": res["generated"]})
        mk = trackchecks.mk
        by_field = {}
        for sq in seqs:
            if len(sq) == 1:
                by_field.setdefault(sq[0]["f"], []).append(sq[0]["v"])
        r = random.Random(seed * 23)
        scripts = []
        per_field = 2 if tier == "quick" else 6
        for base in ("full", "min"):
            ops = [mk("create", snap=bases[base]), mk("create", snap=dict(bases["sentinels"], relative_path=["other/t2.flac"]))]
            for f in sorted(by_field):
                for v in r.sample(by_field[f], min(per_field, len(by_field[f]))):
                    ops.append(mk("set", t=1, f=f, v=v))
            ops += [mk("update", t=1, snap=bases["edge"]), mk("update", t=2, snap=bases["full"]), mk("remove", t=1), mk("remove", t=2)]
            scripts.append(ops)
        ws = []
        for s in (vlib.quick_schemas(seed, 1) if tier == "quick" else vlib.ALL):
            ws.append(Workload(s, scripts, [], flags={"sweep": True, "stmts": True}, tag="t", origin=res["instance"], also=vlib.txn_also()))
        # lock sweep at track level (library on disk): create, one value per field setter, update, remove - each first
        # attempted while another connection holds an EXCLUSIVE / RESERVED / SHARED lock from the call's k-th statement on
        lscripts = []
        for base in (("full",) if tier == "quick" else ("full", "min")):
            ops = [mk("create", snap=bases[base])]
            for f in sorted(by_field):
                for v in r.sample(by_field[f], min(1 if tier == "quick" else 3, len(by_field[f]))):
                    ops.append(mk("set", t=1, f=f, v=v))
            ops += [mk("update", t=1, snap=bases["edge"]), mk("remove", t=1)]
            lscripts.append(ops)
        lsch = ["1.6.0", "1.18.0o", "2.18.0", "2.21.2"] if tier == "quick" else vlib.ALL
        for s in lsch:
            ws.append(Workload(s, lscripts, [], mode="disk", flags={"locks": True}, tag="lt", origin=res["instance"], also=lockcheck.also(),
                               per_shard=20))
        return ws

    import trackchecks as _tc
    return history_check(
        "C14", tier, seed, build, post=lambda shards, wd, ms: lockcheck.model_check_programs(shards, wd, ms, tier) + commitcheck.post(shards, wd, ms),
        also=[{"driver": "trackdriver", "build": build_tracks, "module": "TraceTrackFields", "cfg": _tc.track_cfg()}],
        rule="fault sweep: every call of every replayed history is first attempted with its 1st, 2nd, ... k-th SQL "
             "statement failing (link-level shim returns SQLITE_IOERR from the first sqlite3_step of the k-th prepared "
             "statement without executing it; reads, writes, BEGIN and COMMIT alike) until the fault no longer fires; TLC "
             "(action Failed = Reject) requires every faulted attempt to throw a std::exception, the complete observation to "
             "be unchanged and the digest of all tables to be identical; the following calls must conform (library usable); "
             "crash points (library on disk): every call is additionally attempted in a forked process that opens the library "
             "itself and dies (_exit, no destructor, no ROLLBACK) right before stepping its k-th statement, k = 1, 2, ...; the "
             "library is loaded again: while the stored tables are byte-identical the observation must be unchanged ('crash' "
             "record = Reopen), and once they differ the attempt is validated as the call itself - its effect must be the complete "
             "effect of the call, never a part of it; "
             "lock sweep (library on disk): every call is additionally attempted while ANOTHER CONNECTION takes an EXCLUSIVE, RESERVED "
             "or SHARED lock on every database file right before the call's k-th statement (k = 1, 2, ...) and holds it to the end of "
             "the call, so that SQLite itself refuses statements with SQLITE_BUSY (reads, writes, COMMIT): a refused call must be a "
             "Failed step of Library (TraceLibrary), every statement result must be the one the locking protocol of Contention.tla "
             "gives, the library must stop at the refusal, roll back, throw, hold no lock and have no transaction open "
             "(TraceContention); the statement programs seen are then model-checked under ALL schedules of the other connection "
             "(MCContention: AllOrNothing, AtRest, Usable, LockCompat, termination)",
        level="fault_enumeration",
        assumptions=["a failing statement has no effect of its own (SQLite statement atomicity), which is what the shim simulates",
                     "ROLLBACK, the recovery action itself, is never failed",
                     "track-level calls (create_track, update, all field setters, remove_track) are swept by the track driver in "
                     "the same run and judged by TraceTrackFields (a faulted attempt must throw and change no field of any track)"])


from purechecks import check_C19, check_C20, check_C13  # noqa: E402,F401
from verifycheck import check_C17  # noqa: E402,F401
from formatchecks import check_C02, check_C03, check_C04  # noqa: E402,F401

from trackchecks import check_C01, check_C06  # noqa: E402,F401
from decodercheck import check_C05  # noqa: E402,F401
from tablecheck import check_C18  # noqa: E402,F401
from ubcheck import check_C15  # noqa: E402,F401
from schemaref import check_C12  # noqa: E402,F401
