#!/usr/bin/env python3
"""The per-property checks.  Each check_<ID>(tier, seed) returns the process exit code."""
import json
import os
import random
import subprocess
import sys
import time

import libcheck
import vbuild
import vlib
from libcheck import Workload
from vlib import log

LEVEL_MC = "model_checking"


# --------------------------------------------------------------------------------------------
# generic: histories through the library, traces validated against Library.tla
# --------------------------------------------------------------------------------------------
def history_check(prop, tier, seed, build_workloads, module="TraceLibrary", cfg=None, flavour="plain",
                  assumptions=(), rule="", watchdog=10, extra_cov=None):
    t0 = time.time()
    wd = vlib.workdir("%s_%s" % (prop, tier))
    binary = vbuild.build_bin("libdriver", flavour, extra_src=["shim.cpp"])
    mc_stats = []
    workloads = build_workloads(wd, mc_stats)
    cfg = cfg or vlib.trace_cfg()
    shards, summary = libcheck.run_and_validate(binary, workloads, wd, module=module, cfg=cfg, watchdog=watchdog)
    known = [k for k in vlib.load_known_findings() if k["property"] == prop]
    known_by_kf = {k["kf"]: k for k in known if "kf" in k}
    violations = []
    kf_seen = {}
    nrep = 0
    for sh in shards:
        v = sh["val"]
        for note in v["kf"]:
            kf_seen.setdefault(note["kf"], (sh, note))
        for rej in v["rejected"]:
            nrep += 1
            payload = libcheck.confirm_rejection(binary, sh, rej, wd, nrep, module, cfg, watchdog=watchdog)
            if payload is None:
                log("note: rejection in %s did not repeat on re-run; not reported" % sh["base"])
                continue
            violations.append(payload)
        for ev in sh["events"]:
            nrep += 1
            # the execution in which the process died / hung: replay it alone
            rej = {"exec_index": max(ev["exec"] - 1, 0)}
            payload = libcheck.confirm_rejection(binary, sh, rej, wd, nrep, module, cfg, watchdog=watchdog)
            if payload is None:
                log("note: %s in %s did not repeat on re-run; not reported" % (ev["kind"], sh["base"]))
                continue
            payload.setdefault("reason", "process %s" % ev["kind"])
            violations.append(payload)
    # known findings flagged by the specification itself
    for name, (sh, note) in sorted(kf_seen.items()):
        if name in known_by_kf:
            print("KNOWN-FINDING: property=%s %s: %s" % (prop, name, known_by_kf[name]["what"]))
        else:
            recs = vlib.load_trace(sh["trace"])
            violations.append({"reason": "finding '%s' matched by the specification is not a listed known finding of %s" % (name, prop),
                               "schema": sh["w"].schema, "offending_record": recs[note["record"]] if note["record"] < len(recs) else None,
                               "trace": sh["trace"], "record_index": note["record"]})
    # evidence
    states = sum(m.get("states", 0) for m in mc_stats)
    trans = sum(m.get("transitions", 0) for m in mc_stats)
    samples = []
    for w in workloads[:3]:
        if w.scripts:
            samples.append({"schema": w.schema, "mode": w.mode, "script": w.scripts[min(len(w.scripts) - 1, 7)]})
    cov = {"states": states, "transitions": trans,
           "traces_validated_against_impl": summary["accepted"],
           "executions": summary["executions"], "trace_records": summary["records"],
           "trace_states_checked_by_tlc": summary["tlc_states"],
           "schemas": sorted({w.schema for w in workloads}, key=vlib.ALL.index),
           "model_instances": mc_stats, "samples": samples,
           "checker_cmd": "tlc MCForest.tla (generation + model properties); tlc %s.tla (trace validation, POSTCONDITION Accepted)" % module,
           "drive_s": summary["drive_s"], "validate_s": summary["validate_s"],
           "rule": rule, "known_findings_seen": sorted(kf_seen),
           "exhaustive": True}
    if extra_cov:
        cov.update(extra_cov)
    vlib.write_evidence(prop, tier, seed, LEVEL_MC, cov, time.time() - t0, len(violations), assumptions=assumptions)
    for i, p in enumerate(violations):
        path = vlib.replay_file(prop, i + 1, p)
        log("violation: %s | %s" % (p.get("reason"), libcheck.describe(p.get("offending_record"))))
        print("VIOLATION property=%s replay=%s" % (prop, path))
    log("%s %s: %d executions (%d accepted), %d records, drive %.0fs validate %.0fs, total %.0fs" % (
        prop, tier, summary["executions"], summary["accepted"], summary["records"], summary["drive_s"],
        summary["validate_s"], time.time() - t0))
    return 1 if violations else 0


def pick_extra(pool, seed, k):
    r = random.Random(seed)
    pool = list(pool)
    r.shuffle(pool)
    return pool[:k]


# --------------------------------------------------------------------------------------------
def check_C07(tier, seed):
    """All crate queries describe one well-formed forest."""
    def build(wd, mc_stats):
        ws = []
        if tier == "quick":
            big = {"v1": (4, 4), "v2": (4, 5)}
            small = {"v1": (3, 4), "v2": (3, 4)}
            full = ["1.6.0", "1.18.0o", "2.21.2"]
            rest = [s for s in vlib.REPR if s not in full] + pick_extra([s for s in vlib.ALL if s not in vlib.REPR], seed, 2)
        else:
            big = {"v1": (4, 5), "v2": (5, 5)}
            small = big
            full = vlib.ALL
            rest = []
        cache = {}

        def scripts_for(fam, bounds):
            key = (fam, bounds)
            if key not in cache:
                st, sc = vlib.mc_forest(wd, fam, bounds[0], bounds[1])
                mc_stats.append(st)
                cache[key] = (st, sc)
            return cache[key]

        for s in full:
            fam = vlib.family(s)
            st, sc = scripts_for(fam, big[fam])
            ws.append(Workload(s, sc, libcheck.NAMES4, origin=st["instance"]))
        for s in rest:
            fam = vlib.family(s)
            st, sc = scripts_for(fam, small[fam])
            ws.append(Workload(s, sc, libcheck.NAMES4, origin=st["instance"]))
        return ws

    return history_check(
        "C07", tier, seed, build,
        rule="every transition of the bounded Library graph (crate operations, names {a,b,'',x;y}) is replayed "
             "through the real library with the shortest call sequence that reaches it; each call's outcome and the "
             "complete observation (crates, root_crates, per crate parent/children/descendants/name/validity/"
             "sub_crate_by_name, crate_by_id, crates_by_name, root_crate_by_name, stale handles) must be explained by "
             "the Library action of the same name; all Library invariants are evaluated in every trace state",
        assumptions=["names are opaque tokens from the declared vocabulary", "ids are compared as logged by the driver",
                     "sibling order is only constrained for the 2.x family"])


def replay(prop, path):
    """Re-executes the script of a replay file and validates it again."""
    p = json.load(open(path))
    wd = vlib.workdir("replay_%s" % prop)
    flavour = p.get("flavour", "plain")
    binary = vbuild.build_bin("libdriver", flavour, extra_src=["shim.cpp"])
    sp = os.path.join(wd, "replay.script.ndjson")
    tp = os.path.join(wd, "replay.trace.ndjson")
    with open(sp, "w") as fh:
        for op in p["script"]:
            fh.write(json.dumps(op) + "\n")
    ev = vlib.run_driver(binary, sp, tp)
    v = vlib.validate_trace(p.get("module", "TraceLibrary"), vlib.trace_cfg(), tp, wd, "replay", max_rejections=1)
    if v["rejected"] or ev:
        r = v["rejected"][0] if v["rejected"] else {}
        log("replay: still fails:", r.get("reason"), libcheck.describe(r.get("record")), ev)
        print("VIOLATION property=%s replay=%s" % (prop, path))
        return 1
    log("replay: accepted")
    return 0
