#!/usr/bin/env python3
"""Debug aid: validate records [lo, lo+n) of a trace with a trace spec and show what TLC says.
usage: dbgtrace.py <module> <cfg file> <trace.ndjson> [lo] [n]
"""
import os
import sys

sys.path.insert(0, os.path.dirname(os.path.abspath(__file__)))
import vlib  # noqa: E402


def main():
    module, cfgp, trace = sys.argv[1:4]
    lo = int(sys.argv[4]) if len(sys.argv) > 4 else 0
    n = int(sys.argv[5]) if len(sys.argv) > 5 else 10 ** 9
    wd = vlib.workdir("dbg")
    with open(trace, errors="replace") as fh:
        lines = [x for x in fh if x.strip()]
    sub = lines[lo:lo + n]
    tp = os.path.join(wd, "dbg.ndjson")
    with open(tp, "w") as fh:
        fh.writelines(sub)
    rc, outp = vlib.run_tlc(module, open(cfgp).read(), wd, "dbg", workers=1, timeout=600, env={"TRACE": tp})
    r = vlib.parse_tlc(outp)
    print("rc", rc, "records", len(sub), "depth", r["depth"], "errors", r["errors"][:3], "fatal", r["fatal"], "kf", r["kf"][:5])
    txt = open(outp, errors="replace").read().splitlines()
    keep = [x for x in txt if not x.startswith("/\\") and x.strip()]
    for x in keep[-25:]:
        print(x[:400])
    if r["depth"] is not None and r["depth"] - 1 < len(sub):
        print("first unexplained record:", sub[r["depth"] - 1][:3000])


main()
