#!/usr/bin/env python3
"""C18: a row written through the schema-2.x table API reads back as written.  TLC enumerates all
short sequences of table operations (MCTableApi), the table driver executes them on every 2.x schema
with pairwise distinct column values, and TLC validates rows, per-column accessors and error
reporting against TableApi.tla (TraceTableApi)."""
import json
import os
import random
import time
from concurrent.futures import ThreadPoolExecutor

import purechecks
import vbuild
import vlib
from vlib import log

COLS = ["play_order", "length", "bpm", "year", "path", "filename", "bitrate", "bpm_analyzed", "album_art_id", "file_bytes", "title", "artist",
        "album", "genre", "comment", "label", "composer", "remixer", "key", "rating", "album_art", "time_last_played", "is_played", "file_type",
        "is_analyzed", "date_created", "date_added", "is_available", "is_metadata_of_packed_track_changed",
        "is_performance_data_of_packed_track_changed", "played_indicator", "is_metadata_imported", "pdb_import_key", "streaming_source", "uri",
        "is_beat_grid_locked", "origin_database_uuid", "origin_track_id", "track_data", "overview_waveform_data", "beat_data", "quick_cues",
        "loops", "third_party_source_id", "streaming_flags", "explicit_lyrics", "active_on_load_loops", "last_edit_time"]


def check_C18(tier, seed):
    t0 = time.time()
    wd = vlib.workdir("C18_" + tier)
    binary = vbuild.build_bin("tabledriver", "plain", extra_src=["shim.cpp"])
    # generation: all sequences of <= 3 operations over <= 2 rows, with two columns in focus per run of TLC
    rnd = random.Random(seed)
    seqs = []
    mstates = mtrans = 0
    focus_sets = [["title", "artist"], ["date_created", "date_added"], [rnd.choice(COLS), rnd.choice(COLS)]]
    for k, fc in enumerate(focus_sets):
        cfg = vlib.cfg_text("Spec", {"MaxOps": 3, "Variants": {1, 2, 3}, "Masks": {0, 1, 2}, "Cols": set(fc)}, properties=["Frame"], constraints=["EmitSeq"])
        rc, outp = vlib.run_tlc("MCTableApi", cfg, wd, "mctable%d" % k, workers=8, timeout=900, xmx="8g")
        res = vlib.parse_tlc(outp)
        if not res["ok"]:
            raise vlib.ToolFailure("MCTableApi failed: %s (see %s)" % (res["errors"][:2], outp))
        mstates += res["states"] or 0
        mtrans += res["generated"] or 0
        with open(outp, errors="replace") as fh:
            for line in fh:
                if line.startswith('"OPS '):
                    seqs.append(json.loads(json.loads(line)[4:]))
    # per-column scripts: every column written alone with present / absent / other values, rows before and after it
    col_scripts = []
    for c in COLS:
        col_scripts.append([{"op": "t_add", "variant": 1, "mask": 0}, {"op": "t_add", "variant": 2, "mask": 1},
                            {"op": "t_set", "h": 1, "col": c, "variant": 3, "mask": 0}, {"op": "t_set", "h": 2, "col": c, "variant": 1, "mask": 0},
                            {"op": "t_set", "h": 1, "col": c, "variant": 2, "mask": 1}, {"op": "t_set", "h": 1, "col": c, "variant": 4, "mask": 2},
                            {"op": "t_update", "h": 1, "variant": 3, "mask": 3}, {"op": "t_set", "id": 4242, "col": c, "variant": 1, "mask": 0}])
    errors = [[{"op": "t_add", "variant": 1, "mask": 0}, {"op": "t_getcol", "id": 9999}, {"op": "t_remove", "id": 9999},
               {"op": "t_update", "id": 9999, "variant": 2, "mask": 0}, {"op": "t_add", "variant": 2, "mask": 0, "with_id": True},
               {"op": "t_remove", "h": 1}, {"op": "t_getcol", "id": 1}, {"op": "t_remove", "h": 1}, {"op": "t_update", "h": 1, "variant": 2, "mask": 0}],
              [{"op": "t_add", "variant": v, "mask": m} for v in (1, 2, 3, 4, 5, 6) for m in (0, 1, 2, 3)],
              [{"op": "pl_add", "title": "a"}, {"op": "pl_add", "title": "b", "parent": 1}, {"op": "pl_add", "title": "", "persisted": False}]]
    nseq = 500 if tier == "quick" else len(seqs)
    lines_by_schema = {}
    for s in vlib.V2:
        r = random.Random(seed * 17 + vlib.ALL.index(s))
        pick = seqs if len(seqs) <= nseq else r.sample(seqs, nseq)
        lines = []
        for i, sc in enumerate(col_scripts + errors + pick):
            lines.append(json.dumps({"op": "reset", "schema": s, "sid": "s%d" % i}) + "\n")
            for op in sc:
                lines.append(json.dumps(op) + "\n")
        lines_by_schema[s] = lines

    import subprocess

    def go(s):
        parts = []
        # split on reset boundaries into 3 shards per schema
        lines = lines_by_schema[s]
        starts = [i for i, x in enumerate(lines) if x.startswith('{"op": "reset"')]
        cuts = [starts[(len(starts) * k) // 3] for k in range(3)] + [len(lines)]
        for k in range(3):
            p = os.path.join(wd, "tab_%s_%d.script.ndjson" % (s, k))
            o = os.path.join(wd, "tab_%s_%d.trace.ndjson" % (s, k))
            with open(p, "w") as fh:
                fh.writelines(lines[cuts[k]:cuts[k + 1]])
            try:
                r = subprocess.run([binary, p, o], stdout=subprocess.PIPE, stderr=subprocess.PIPE, timeout=900)
                ev = None if r.returncode == 0 else {"rc": r.returncode, "stderr": r.stderr.decode(errors="replace")[-1500:]}
            except subprocess.TimeoutExpired:
                ev = {"rc": 124, "stderr": "timeout"}
            parts.append((s, o, ev))
        return parts

    with ThreadPoolExecutor(vlib.NCPU) as ex:
        runs = [x for part in ex.map(go, vlib.V2) for x in part]
    violations = []
    for (s, o, ev) in runs:
        if ev:
            violations.append({"reason": "table driver died (rc=%s) on schema %s" % (ev["rc"], s), "record": ev})
    cfgt = vlib.cfg_text("TSpec", {}, postcondition="Accepted").replace("CONSTANTS\n", "")
    import libcheck

    def val(x):
        s, o, ev = x
        return vlib.validate_trace("TraceTableApi", cfgt, o, wd, os.path.basename(o).replace(".trace.ndjson", ""), max_rejections=3)

    with ThreadPoolExecutor(vlib.NCPU) as ex:
        vres = list(ex.map(val, runs))
    accepted = execs = recs = 0
    for (s, o, ev), v in zip(runs, vres):
        accepted += v["accepted"]
        execs += v["executions"]
        recs += v["records"]
        for rej in v["rejected"]:
            rec = rej["record"] or {}
            hist = vlib.load_trace(o)[rej["exec_range"][0]:rej["record_index"] + 1]
            violations.append({"reason": rej["reason"], "schema": s,
                               "record": {k: rec.get(k) for k in ("op", "t", "col", "in", "out", "ex", "new")},
                               "history": [{k: h.get(k) for k in ("e", "op", "t", "col", "out", "ex", "new")} for h in hist]})
    cov = {"states": mstates, "transitions": mtrans, "traces_validated_against_impl": accepted, "executions": execs,
           "evaluations": recs, "distinct_nontrivial": len({json.dumps(x) for x in col_scripts + errors + seqs}),
           "rule": "for each of the seven 2.x schemas: (a) every one of the 48 columns is written alone (present value, another value, absent, "
                   "a third value) on one of two rows whose every column holds a value no other same-typed column holds, followed by a whole-row "
                   "update and a write to a row that does not exist; (b) accessors, remove and update naming missing rows, add of a row that "
                   "already carries an id, 24 whole rows with every optional present / absent / alternating; (c) all sequences of <= 3 operations "
                   "over <= 2 rows from MCTableApi (sampled in the quick tier); after every call each row is read back whole and column by column; "
                   "TLC validates against TableApi.tla (RowOK, SetColOK, getters = row, errors for missing rows)",
           "samples": [col_scripts[10], errors[0]], "checker_cmd": "tlc MCTableApi.tla; tlc TraceTableApi.tla (POSTCONDITION Accepted)",
           "exhaustive": False}
    return purechecks.finish("C18", tier, seed, "model_checking", cov, t0, violations, None, {},
                             ["time points are compared at whole-second resolution (a sub-second part may be dropped)",
                              "columns a schema version lacks (activeOnLoadLoops before 2.20.1, lastEditTime before 2.20.3) are unconstrained there",
                              "blob columns are compared by the digest of their encoding; playlist / entity ordering is covered by C09"])
