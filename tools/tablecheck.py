#!/usr/bin/env python3
"""C18: a row written through the schema-2.x table API reads back as written.  TLC enumerates all
short sequences of table operations (MCTableApi), the table driver executes them on every 2.x schema
with pairwise distinct column values, and TLC validates rows, per-column accessors and error
reporting against TableApi.tla (TraceTableApi)."""
import json
import os
import random
import time
from concurrent.futures import ThreadPoolExecutor

import purechecks
import vbuild
import vlib
from vlib import log

COLS = ["play_order", "length", "bpm", "year", "path", "filename", "bitrate", "bpm_analyzed", "album_art_id", "file_bytes", "title", "artist",
        "album", "genre", "comment", "label", "composer", "remixer", "key", "rating", "album_art", "time_last_played", "is_played", "file_type",
        "is_analyzed", "date_created", "date_added", "is_available", "is_metadata_of_packed_track_changed",
        "is_performance_data_of_packed_track_changed", "played_indicator", "is_metadata_imported", "pdb_import_key", "streaming_source", "uri",
        "is_beat_grid_locked", "origin_database_uuid", "origin_track_id", "track_data", "overview_waveform_data", "beat_data", "quick_cues",
        "loops", "third_party_source_id", "streaming_flags", "explicit_lyrics", "active_on_load_loops", "last_edit_time"]


def table_scripts():
    """Per-column scripts and error / whole-row scripts for harness/tabledriver (also used by C16's table-level pipeline)."""
    # per-column scripts: every column written alone with present / absent / other values, rows before and after it
    col_scripts = []
    for c in COLS:
        col_scripts.append([{"op": "t_add", "variant": 1, "mask": 0}, {"op": "t_add", "variant": 2, "mask": 1},
                            {"op": "t_set", "h": 1, "col": c, "variant": 3, "mask": 0}, {"op": "t_set", "h": 2, "col": c, "variant": 1, "mask": 0},
                            {"op": "t_set", "h": 1, "col": c, "variant": 2, "mask": 1}, {"op": "t_set", "h": 1, "col": c, "variant": 4, "mask": 2},
                            {"op": "t_set", "h": 1, "col": c, "variant": 13, "mask": 0}, {"op": "t_set", "h": 2, "col": c, "variant": 13, "mask": 0},
                            {"op": "t_set", "h": 2, "col": c, "variant": 2, "mask": 1},
                            {"op": "t_update", "h": 1, "variant": 3, "mask": 3}, {"op": "t_set", "id": 4242, "col": c, "variant": 1, "mask": 0}])
    errors = [[{"op": "t_add", "variant": 1, "mask": 0}, {"op": "t_getcol", "id": 9999}, {"op": "t_remove", "id": 9999},
               {"op": "t_update", "id": 9999, "variant": 2, "mask": 0}, {"op": "t_add", "variant": 2, "mask": 0, "with_id": True},
               {"op": "t_remove", "h": 1}, {"op": "t_getcol", "id": 1}, {"op": "t_remove", "h": 1}, {"op": "t_update", "h": 1, "variant": 2, "mask": 0}],
              [{"op": "t_add", "variant": v, "mask": m} for v in (1, 2, 3, 4, 5, 6, 13) for m in (0, 1, 2, 3)],
              [{"op": "t_add", "variant": 1, "mask": 0}, {"op": "t_update", "h": 1, "variant": 13, "mask": 0}, {"op": "t_update", "h": 1, "variant": 2, "mask": 1},
               {"op": "t_update", "h": 1, "variant": 13, "mask": 2}],
              [{"op": "pl_add", "title": "a"}, {"op": "pl_add", "title": "b", "parent": 1}, {"op": "pl_add", "title": "", "persisted": False}]]
    return col_scripts, errors


def table_cfg():
    return vlib.cfg_text("TSpec", {}, postcondition="Accepted").replace("CONSTANTS\n", "")


def build_table16(wd, mc_stats, tier, seed):
    """Workloads for C16: the track_table read functions (get, exists, all_ids, 48 per-column getters) after every operation."""
    import libcheck
    col_scripts, errors = table_scripts()
    r = random.Random(seed)
    pick = col_scripts if tier != "quick" else r.sample(col_scripts, 12)
    return [libcheck.Workload(s, pick + errors, [], tag="c", origin="per-column scripts") for s in vlib.V2]


def build_pltable(wd, mc_stats, tier, seed):
    """Workloads for harness/pltabledriver from every transition of MCV2Table; returns (workloads, trace cfg, stats, nscripts)."""
    import libcheck
    import paths
    consts = {"ValidNames": {"a", "b"}, "InvalidNames": {"", "x;y"}, "Variant": "current", "MaxP": 3, "MaxE": 3, "Tracks": {1, 2, 101},
              "MaxOps": 4 if tier == "quick" else 5, "OpNames": {"a", "b", ""}}
    cfg = vlib.cfg_text("MCSpec", consts, invariants=["ChainInv"], view="MCView", action_constraints=["Emit"])
    rc, outp = vlib.run_tlc("MCV2Table", cfg, wd, "mcv2table", workers=8, timeout=1500, xmx="12g")
    res = vlib.parse_tlc(outp)
    if not res["ok"]:
        raise vlib.ToolFailure("MCV2Table failed: %s (see %s)" % (res["errors"][:2] or res["fatal"], outp))
    edges, stats = paths.read_edges(outp)
    scripts = paths.scripts_from_edges(edges, conv=lambda a: dict(a))
    mc_stats.append({"instance": "MCV2Table MaxP=3 MaxE=3 MaxOps=%d" % consts["MaxOps"], "states": stats.get("states") or 0,
                     "transitions": stats.get("transitions") or 0, "scripts": len(scripts)})
    r = random.Random(seed)
    nmax = 1500 if tier == "quick" else len(scripts)
    tcfg = vlib.cfg_text("TSpec", dict(consts, MaxOps=0), postcondition="Accepted")
    ws = []
    for s in vlib.V2:
        pick = scripts if len(scripts) <= nmax else r.sample(scripts, nmax)
        ws.append(libcheck.Workload(s, pick, [], tag="p", origin="mcv2table"))
    return ws, tcfg, stats, len(scripts), consts


def pltable_part(wd, tier, seed):
    """Playlist / playlist-entity table API along every transition of MCV2Table; TraceV2Table validates outcome, raw rows and
    every read function.  Returns (violations, coverage)."""
    import libcheck
    import paths
    wd2 = os.path.join(wd, "pltable")
    os.makedirs(wd2, exist_ok=True)
    binary = vbuild.build_bin("pltabledriver", "plain", extra_src=["shim.cpp"])
    ws, tcfg, stats, nscripts, consts = build_pltable(wd2, [], tier, seed)
    shards, summary = libcheck.run_and_validate(binary, ws, wd2, module="TraceV2Table", cfg=tcfg)
    violations = []
    n = 0
    for sh in shards:
        for rej in sh["val"]["rejected"]:
            n += 1
            if len(violations) >= 5:
                continue
            payload = libcheck.confirm_rejection(binary, sh, rej, wd2, n, "TraceV2Table", tcfg)
            if payload is None:
                log("note: rejection in %s did not repeat on re-run; not reported" % sh["base"])
                continue
            rec = payload.get("offending_record") or {}
            payload["offending_record"] = {k: rec.get(k) for k in ("op", "id", "title", "parent", "next", "list", "track", "entity", "out", "ex", "new")}
            payload["reason"] = "playlist table API: " + str(payload.get("reason"))
            violations.append(payload)
        for ev in sh["events"]:
            violations.append({"reason": "playlist table driver %s" % ev["kind"], "record": ev})
    cov = {"playlist_tables": {"model_states": stats.get("states"), "model_transitions": stats.get("transitions"), "scripts": nscripts,
                               "executions": summary["executions"], "accepted": summary["accepted"], "records": summary["records"],
                               "bounds": "<= 3 playlists, <= 3 entities, 2 track ids, %d operations, titles {a, b, ''}" % consts["MaxOps"]}}
    return violations, cov, summary["accepted"], (stats.get("states") or 0, stats.get("transitions") or 0)


def check_C18(tier, seed):
    t0 = time.time()
    wd = vlib.workdir("C18_" + tier)
    binary = vbuild.build_bin("tabledriver", "plain", extra_src=["shim.cpp"])
    # generation: all sequences of <= 3 operations over <= 2 rows, with two columns in focus per run of TLC
    rnd = random.Random(seed)
    seqs = []
    mstates = mtrans = 0
    focus_sets = [["title", "artist"], ["date_created", "date_added"], [rnd.choice(COLS), rnd.choice(COLS)]]
    for k, fc in enumerate(focus_sets):
        cfg = vlib.cfg_text("Spec", {"MaxOps": 3, "Variants": {1, 2, 13}, "Masks": {0, 1, 2}, "Cols": set(fc)}, properties=["Frame"], constraints=["EmitSeq"])
        rc, outp = vlib.run_tlc("MCTableApi", cfg, wd, "mctable%d" % k, workers=8, timeout=900, xmx="8g")
        res = vlib.parse_tlc(outp)
        if not res["ok"]:
            raise vlib.ToolFailure("MCTableApi failed: %s (see %s)" % (res["errors"][:2], outp))
        mstates += res["states"] or 0
        mtrans += res["generated"] or 0
        with open(outp, errors="replace") as fh:
            for line in fh:
                if line.startswith('"OPS '):
                    seqs.append(json.loads(json.loads(line)[4:]))
    col_scripts, errors = table_scripts()
    nseq = 500 if tier == "quick" else 4000   # (all of them gave 190 MB traces per shard and a 23 GB validator)
    lines_by_schema = {}
    for s in vlib.V2:
        r = random.Random(seed * 17 + vlib.ALL.index(s))
        pick = seqs if len(seqs) <= nseq else r.sample(seqs, nseq)
        lines = []
        for i, sc in enumerate(col_scripts + errors + pick):
            lines.append(json.dumps({"op": "reset", "schema": s, "sid": "s%d" % i}) + "\n")
            for op in sc:
                lines.append(json.dumps(op) + "\n")
        lines_by_schema[s] = lines

    import subprocess

    def go(s):
        parts = []
        # split on reset boundaries into 3 shards per schema
        lines = lines_by_schema[s]
        starts = [i for i, x in enumerate(lines) if x.startswith('{"op": "reset"')]
        nsh = 3 if tier == "quick" else 8
        cuts = [starts[(len(starts) * k) // nsh] for k in range(nsh)] + [len(lines)]
        for k in range(nsh):
            p = os.path.join(wd, "tab_%s_%d.script.ndjson" % (s, k))
            o = os.path.join(wd, "tab_%s_%d.trace.ndjson" % (s, k))
            with open(p, "w") as fh:
                fh.writelines(lines[cuts[k]:cuts[k + 1]])
            try:
                r = subprocess.run([binary, p, o], stdout=subprocess.PIPE, stderr=subprocess.PIPE, timeout=900)
                ev = None if r.returncode == 0 else {"rc": r.returncode, "stderr": r.stderr.decode(errors="replace")[-1500:]}
            except subprocess.TimeoutExpired:
                ev = {"rc": 124, "stderr": "timeout"}
            parts.append((s, o, ev))
        return parts

    with ThreadPoolExecutor(vlib.NCPU) as ex:
        runs = [x for part in ex.map(go, vlib.V2) for x in part]
    violations = []
    for (s, o, ev) in runs:
        if ev:
            violations.append({"reason": "table driver died (rc=%s) on schema %s" % (ev["rc"], s), "record": ev})
    cfgt = table_cfg()
    import libcheck

    def val(x):
        s, o, ev = x
        return vlib.validate_trace("TraceTableApi", cfgt, o, wd, os.path.basename(o).replace(".trace.ndjson", ""), max_rejections=3)

    with ThreadPoolExecutor(vlib.NCPU) as ex:
        vres = list(ex.map(val, runs))
    accepted = execs = recs = 0
    for (s, o, ev), v in zip(runs, vres):
        accepted += v["accepted"]
        execs += v["executions"]
        recs += v["records"]
        for rej in v["rejected"]:
            rec = rej["record"] or {}
            hist = vlib.load_trace(o)[rej["exec_range"][0]:rej["record_index"] + 1]
            violations.append({"reason": rej["reason"], "schema": s,
                               "record": {k: rec.get(k) for k in ("op", "t", "col", "in", "out", "ex", "new")},
                               "history": [{k: h.get(k) for k in ("e", "op", "t", "col", "out", "ex", "new")} for h in hist]})
    pv, pcov, pacc, (ps, pt) = pltable_part(wd, tier, seed)
    violations += pv
    accepted += pacc
    mstates += ps
    mtrans += pt
    cov = {"states": mstates, "transitions": mtrans, "traces_validated_against_impl": accepted, "executions": execs,
           "evaluations": recs, "distinct_nontrivial": len({json.dumps(x) for x in col_scripts + errors + seqs}),
           "rule": "for each of the seven 2.x schemas: (a) every one of the 48 columns is written alone (present value, another value, absent, "
                   "a third value) on one of two rows whose every column holds a value no other same-typed column holds, followed by a whole-row "
                   "update and a write to a row that does not exist; (b) accessors, remove and update naming missing rows, add of a row that "
                   "already carries an id, 24 whole rows with every optional present / absent / alternating; (c) all sequences of <= 3 operations "
                   "over <= 2 rows from MCTableApi (sampled in the quick tier); after every call each row is read back whole and column by column; "
                   "TLC validates against TableApi.tla (RowOK, SetColOK, getters = row, errors for missing rows)",
           "samples": [col_scripts[10], errors[0]], "checker_cmd": "tlc MCTableApi.tla; tlc TraceTableApi.tla (POSTCONDITION Accepted)",
           "exhaustive": False}
    cov.update(pcov)
    import auxcheck
    av, acov, aacc, (as_, at_) = auxcheck.aux_part(wd, tier, seed)
    violations += av
    cov.update(acov)
    cov["traces_validated_against_impl"] += aacc
    cov["states"] += as_
    cov["transitions"] += at_
    cov["rule"] += ("; playlist_table / playlist_entity_table: every transition of MCV2Table (add at every legal parent / next, update = rename / "
                    "move to every legal parent / next, remove, add_back, remove, clear) is executed on all seven schemas and TLC (TraceV2Table) "
                    "requires the outcome, the stored rows and every read function (all_ids, root_ids, child_ids, descendant_ids, get, exists, "
                    "find_id / find_root_id, track_ids, get_for_list) to be what the storage-layer model V2Rows predicts; change_log_table / "
                    "information_table: every transition of ChangeLog.tla (track writes that feed the log through the triggers, add, indicator "
                    "update; ids live / removed / never handed out) plus seed-chosen longer sequences, TraceChangeLog requires outcome, stored "
                    "rows and all / after(k) / last / get to be what ChangeLog!Apply predicts")
    return purechecks.finish("C18", tier, seed, "model_checking", cov, t0, violations, None, {},
                             ["time points are compared at whole-second resolution (a sub-second part may be dropped)",
                              "columns a schema version lacks (activeOnLoadLoops before 2.20.1, lastEditTime before 2.20.3) are unconstrained there",
                              "blob columns are compared by the digest of their encoding; playlist / entity ordering is covered by C09"])
