#!/usr/bin/env python3
"""Model checking of the 2.x storage-layer specification V2Store.tla: chain invariants of the rows,
refinement into Library.tla (incl. atomicity under an injected failure of any statement), and a
sensitivity run per pre-repair variant (each must violate the property it is known to break)."""
import os
import sys
import time

sys.path.insert(0, os.path.dirname(os.path.abspath(__file__)))
import vlib  # noqa: E402

VARIANTS = {
    # variant -> what TLC is expected to report
    "set-parent-keeps-next": "the old sibling link is carried to the new parent (repaired in e8e12bc)",
    "set-parent-no-cycle-check": "a crate can be moved under its own descendant (repaired in eab3dfc)",
    "remove-crate-shallow": "grandchildren and entities stay behind (repaired in 221fb7e)",
    "remove-track-shallow": "memberships of a removed track stay behind (repaired in fada213)",
    "remove-track-from-by-track-id": "the track id is used as the entity id (repaired in 802ea0c)",
    "add-track-no-txn": "INSERT and tail UPDATE outside a transaction: a failure between them leaves two tails (seeded change C14a)",
}


def consts(variant="current", faults=True, maxp=3, maxt=2, maxe=3, calls=4, names=("a", "b")):
    return {"ValidNames": set(names), "InvalidNames": {""}, "MaxP": maxp, "MaxT": maxt, "MaxE": maxe,
            "MaxCalls": calls, "Faults": faults, "Variant": variant}


def run(wd, tag, c, workers=8, timeout=1500, xmx="12g"):
    cfg = vlib.cfg_text("Spec", c, invariants=["RowsInv", "NoTxnAtRest", "LibInv"], properties=["Refines", "FailedCallsAtomic"])
    t0 = time.time()
    rc, outp = vlib.run_tlc("V2Store", cfg, wd, tag, workers=workers, timeout=timeout, xmx=xmx)
    r = vlib.parse_tlc(outp)
    r["seconds"] = round(time.time() - t0, 1)
    r["out"] = outp
    r["rc"] = rc
    return r


def run_ind(wd, tag, c, workers=8, timeout=2400, xmx="12g"):
    """Induction step (V2Store!SpecInd): every store within the id bounds that satisfies RowsInv, one call."""
    cfg = vlib.cfg_text("SpecInd", dict(c, MaxCalls=1), invariants=["RowsInv", "NoTxnAtRest", "LibInv"], properties=["Refines", "FailedCallsAtomic"])
    t0 = time.time()
    rc, outp = vlib.run_tlc("V2Store", cfg, wd, tag, workers=workers, timeout=timeout, xmx=xmx)
    r = vlib.parse_tlc(outp)
    r["seconds"] = round(time.time() - t0, 1)
    r["out"] = outp
    r["rc"] = rc
    return r


def model_check(wd, tier, mc_stats=None, variants=True):
    """Returns (stats, problems).  problems is a list of strings (tool failures / unexpected results)."""
    problems = []
    stats = []
    plans = [("current", dict(maxp=3, maxt=2, maxe=3, calls=4 if tier == "quick" else 5))]
    if tier != "quick":
        plans.append(("current", dict(maxp=4, maxt=1, maxe=2, calls=5, names=("a",))))
    for i, (variant, kw) in enumerate(plans):
        r = run(wd, "v2store_%d" % i, consts(variant, **kw))
        st = {"instance": "V2Store(%s)" % ",".join("%s=%s" % kv for kv in sorted(kw.items())), "states": r["states"] or 0,
              "transitions": r["generated"] or 0, "depth": r["depth"], "seconds": r["seconds"], "ok": r["ok"]}
        stats.append(st)
        if not r["ok"]:
            problems.append("V2Store %s: rc=%s after %ss %s (see %s)" % (st["instance"], r.get("rc"), r["seconds"], r["errors"][:2] or r["fatal"], r["out"]))
    # induction step: every store within the id bounds that satisfies RowsInv, one call (any history length; see SpecInd)
    ind_plans = [dict(maxp=3, maxt=1, maxe=2, names=("a",))] if tier == "quick" else \
        [dict(maxp=3, maxt=2, maxe=2, names=("a", "b")), dict(maxp=2, maxt=2, maxe=3, names=("a", "b")), dict(maxp=4, maxt=1, maxe=1, names=("a",))]
    for i, kw in enumerate(ind_plans):
        r = run_ind(wd, "v2ind_%d" % i, consts("current", **kw), workers=8 if tier == "quick" else 16, timeout=600 if tier == "quick" else 5400,
                    xmx="8g" if tier == "quick" else "24g")
        st = {"instance": "V2Store!SpecInd(%s)" % ",".join("%s=%s" % kv for kv in sorted(kw.items())), "states": r["states"] or 0,
              "transitions": r["generated"] or 0, "depth": r["depth"], "seconds": r["seconds"], "ok": r["ok"]}
        stats.append(st)
        if not r["ok"]:
            problems.append("V2Store induction %s: rc=%s after %ss %s (see %s)" % (st["instance"], r.get("rc"), r["seconds"], r["errors"][:2] or r["fatal"], r["out"]))
    if variants:
        # sensitivity of the induction step: the pre-repair sibling-link shape must break it
        r = run_ind(wd, "v2ind_variant", consts("set-parent-keeps-next", maxp=3, maxt=1, maxe=1, names=("a",)), timeout=900)
        if not (r["errors"] and not r["fatal"]):
            problems.append("V2Store induction with variant set-parent-keeps-next was NOT reported by TLC, see %s" % r["out"])
    sens = {}
    for variant in (VARIANTS if variants else ()):
        # (the track id and the entity id of a membership only differ after the second track was added first: 5 calls)
        kw = dict(maxp=1, maxt=2, maxe=2, calls=5, names=("a",)) if variant == "remove-track-from-by-track-id" else \
            dict(maxp=3, maxt=2, maxe=3, calls=4)
        r = run(wd, "v2store_" + variant, consts(variant, **kw), timeout=900)
        sens[variant] = bool(r["errors"]) and not r["fatal"]
        if not sens[variant]:
            problems.append("V2Store variant %s was NOT reported by TLC (model insensitive), see %s" % (variant, r["out"]))
    if mc_stats is not None:
        mc_stats.extend(stats)
    return stats, sens, problems


V1_VARIANTS = {
    "set-parent-no-cycle-check": "a crate can be moved under its own descendant (repaired in eab3dfc)",
    "set-parent-leaves-subtree": "set_parent() moved the crate but not its sub-tree (repaired in a460db3)",
    "remove-crate-shallow": "sub-crates and all rows referring to the crate stay behind (repaired in 247df43)",
    "remove-track-shallow": "memberships of a removed track stay behind (repaired in bc46b7a)",
    "add-track-no-txn": "DELETE and INSERT outside a transaction: a failure between them loses the membership",
}


def consts_v1(variant="current", faults=True, maxc=3, maxt=2, calls=4, names=("a", "b")):
    return {"ValidNames": set(names), "InvalidNames": {""}, "MaxC": maxc, "MaxT": maxt, "MaxCalls": calls, "Faults": faults,
            "Variant": variant}


def run_v1(wd, tag, c, workers=8, timeout=1500, xmx="12g"):
    cfg = vlib.cfg_text("Spec", c, invariants=["RowsInv", "NoTxnAtRest", "GhostAgree", "LibInv"], properties=["Refines"])
    t0 = time.time()
    rc, outp = vlib.run_tlc("V1Store", cfg, wd, tag, workers=workers, timeout=timeout, xmx=xmx)
    r = vlib.parse_tlc(outp)
    r["seconds"] = round(time.time() - t0, 1)
    r["out"] = outp
    r["rc"] = rc
    return r


def run_ind_v1(wd, tag, c, workers=8, timeout=2400, xmx="12g"):
    cfg = vlib.cfg_text("SpecInd", dict(c, MaxCalls=1), invariants=["RowsInv", "NoTxnAtRest", "GhostAgree", "LibInv"], properties=["Refines"])
    t0 = time.time()
    rc, outp = vlib.run_tlc("V1Store", cfg, wd, tag, workers=workers, timeout=timeout, xmx=xmx)
    r = vlib.parse_tlc(outp)
    r["seconds"] = round(time.time() - t0, 1)
    r["out"] = outp
    r["rc"] = rc
    return r


def model_check_v1(wd, tier, mc_stats=None, variants=True):
    problems, stats = [], []
    plans = [dict(maxc=3, maxt=2, calls=4 if tier == "quick" else 5)]
    if tier != "quick":
        plans.append(dict(maxc=4, maxt=1, calls=5, names=("a",)))
    for i, kw in enumerate(plans):
        r = run_v1(wd, "v1store_%d" % i, consts_v1("current", **kw))
        st = {"instance": "V1Store(%s)" % ",".join("%s=%s" % kv for kv in sorted(kw.items())), "states": r["states"] or 0,
              "transitions": r["generated"] or 0, "depth": r["depth"], "seconds": r["seconds"], "ok": r["ok"]}
        stats.append(st)
        if not r["ok"]:
            problems.append("V1Store %s: rc=%s after %ss %s (see %s)" % (st["instance"], r.get("rc"), r["seconds"], r["errors"][:2] or r["fatal"], r["out"]))
    # induction step (V1Store!SpecInd): every store within the id bounds that satisfies RowsOK, one call
    ind_plans = [dict(maxc=3, maxt=1, names=("a",))] if tier == "quick" else [dict(maxc=3, maxt=1, names=("a", "b")), dict(maxc=3, maxt=2, names=("a",))]
    for i, kw in enumerate(ind_plans):
        r = run_ind_v1(wd, "v1ind_%d" % i, consts_v1("current", **kw), workers=8 if tier == "quick" else 16, timeout=900 if tier == "quick" else 5400,
                       xmx="8g" if tier == "quick" else "24g")
        st = {"instance": "V1Store!SpecInd(%s)" % ",".join("%s=%s" % kv for kv in sorted(kw.items())), "states": r["states"] or 0,
              "transitions": r["generated"] or 0, "depth": r["depth"], "seconds": r["seconds"], "ok": r["ok"]}
        stats.append(st)
        if not r["ok"]:
            problems.append("V1Store induction %s: rc=%s after %ss %s (see %s)" % (st["instance"], r.get("rc"), r["seconds"], r["errors"][:2] or r["fatal"], r["out"]))
    if variants:
        r = run_ind_v1(wd, "v1ind_variant", consts_v1("set-parent-leaves-subtree", maxc=3, maxt=1, names=("a",)), timeout=900)
        if not (r["errors"] and not r["fatal"]):
            problems.append("V1Store induction with variant set-parent-leaves-subtree was NOT reported by TLC, see %s" % r["out"])
    sens = {}
    for variant in (V1_VARIANTS if variants else ()):
        r = run_v1(wd, "v1store_" + variant, consts_v1(variant, maxc=3, maxt=2, calls=4), timeout=900)
        sens[variant] = bool(r["errors"]) and not r["fatal"]
        if not sens[variant]:
            problems.append("V1Store variant %s was NOT reported by TLC (model insensitive), see %s" % (variant, r["out"]))
    if mc_stats is not None:
        mc_stats.extend(stats)
    return stats, sens, problems


if __name__ == "__main__":
    wd = vlib.workdir("mcv2store")
    if len(sys.argv) > 2 and sys.argv[2] == "ind1":
        r = run_ind_v1(wd, "v1ind", consts_v1("current", maxc=int(sys.argv[3]), maxt=int(sys.argv[4]), names=tuple(sys.argv[5])), workers=int(os.environ.get("W", "8")))
        print({k: r[k] for k in r if k != "out"}, r["out"])
        sys.exit(0)
    if len(sys.argv) > 2 and sys.argv[2] == "ind":
        kw = dict(maxp=int(sys.argv[3]), maxt=int(sys.argv[4]), maxe=int(sys.argv[5]), names=tuple(sys.argv[6]))
        r = run_ind(wd, "v2ind", consts("current", **kw), workers=int(os.environ.get("W", "8")))
        print({k: r[k] for k in r if k != "out"}, r["out"])
        sys.exit(0)
    fn = model_check_v1 if len(sys.argv) > 2 and sys.argv[2] == "v1" else model_check
    stats, sens, problems = fn(wd, sys.argv[1] if len(sys.argv) > 1 else "quick")
    for s in stats:
        print(s)
    print(sens)
    for p in problems:
        print("PROBLEM", p)
