#!/usr/bin/env python3
"""C02 / C03 / C04: the blob codecs against EngineFormat.tla.  TLC enumerates values per blob kind
(MCEngineFormat) and supplies each value's payload from the specification's own encoder; the codec
driver runs the library's encoders / decoders; TLC validates every record (TraceFormat)."""
import json
import os
import random
import struct
import time
from concurrent.futures import ThreadPoolExecutor

import purechecks
import vbuild
import vlib
from vlib import log

KINDS = ["track_data2", "beat_data2", "quick_cues2", "loops2", "overview2",
         "track_data1", "beat_data1", "hires1", "overview1", "loops1", "quick_cues1"]
V2 = KINDS[:5]


def run_mc(wd, tier):
    consts = {"Kinds": set(KINDS), "Counts": {0, 1, 2, 3, 8, 9}, "LabelLens": {0, 1, 255, 256} if tier == "quick" else {0, 1, 2, 255, 256, 300},
              "Flags": {0, 1, 2, 255}, "ExtraLens": {0, 1, 5}}
    cfg = vlib.cfg_text("Spec", consts, invariants=["LenInv"], constraints=["EmitVal"])
    rc, outp = vlib.run_tlc("MCEngineFormat", cfg, wd, "mcformat", workers=8, timeout=1200, xmx="8g")
    res = vlib.parse_tlc(outp)
    if not res["ok"]:
        raise vlib.ToolFailure("MCEngineFormat failed: %s (see %s)" % (res["errors"][:2], outp))
    vals = []
    with open(outp, errors="replace") as fh:
        for line in fh:
            if line.startswith('"VAL '):
                vals.append(json.loads(json.loads(line)[4:]))
    return res, vals


# ------------------------------------------------------------------ seed-chosen values (inputs only)
def rf64(r):
    c = r.random()
    if c < 0.5:
        return list(struct.pack(">d", r.uniform(-1e6, 1e9)))
    if c < 0.6:
        return list(struct.pack(">d", r.choice([0.0, -0.0, 1.0, -1.0, float("inf"), float("-inf"), 5e-324, 1.7976931348623157e308])))
    if c < 0.65:
        return [0x7F, 0xF8, 0, 0, 0, 0, 0, r.randrange(256)]          # NaN
    return [r.randrange(256) for _ in range(8)]                        # arbitrary bit pattern


def rbytes(r, n):
    return [r.randrange(256) for _ in range(n)]


def rlabel(r):
    return rbytes(r, r.choice([0, 1, 2, 5, 17, 254, 255, 256, 257, 300, r.randrange(0, 301)]))


def rcol(r):
    return {"a": r.randrange(256), "r": r.randrange(256), "g": r.randrange(256), "b": r.randrange(256)}


def rvalue(kind, r, big=False):
    n = r.choice([0, 1, 2, 7, 8, 9, 12])
    ex = rbytes(r, r.choice([0, 0, 1, 9, 12]))
    if kind == "track_data2":
        return {"rate": rf64(r), "samples": rbytes(r, 8), "key": rbytes(r, 4), "low": rf64(r), "mid": rf64(r), "high": rf64(r), "extra": ex}
    if kind == "beat_data2":
        def g(k):
            return [{"off": rf64(r), "beat": rbytes(r, 8), "nbeats": rbytes(r, 4), "unk": rbytes(r, 4)} for _ in range(k)]
        return {"rate": rf64(r), "samples": rf64(r), "isset": r.randrange(256), "dflt": g(r.choice([0, 1, 2, 5, 2000 if big else 40])),
                "adj": g(r.choice([0, 1, 3, 64])), "extra": ex}
    if kind == "quick_cues2":
        return {"cues": [dict({"label": rlabel(r), "off": rf64(r)}, **rcol(r)) for _ in range(n)], "adj": rf64(r), "isadj": r.choice([0, 1, 1, 7, 255]),
                "dflt": rf64(r), "extra": ex}
    if kind == "loops2":
        return {"loops": [dict({"label": rlabel(r), "start": rf64(r), "end": rf64(r), "ss": r.randrange(256), "es": r.randrange(256)}, **rcol(r))
                          for _ in range(n)], "extra": ex}
    if kind == "overview2":
        m = r.choice([0, 1, 7, 1024 if big else 33])
        return {"pts": [{"l": r.randrange(256), "m": r.randrange(256), "h": r.randrange(256)} for _ in range(m)], "spp": rf64(r),
                "max": {"l": r.randrange(256), "m": r.randrange(256), "h": r.randrange(256)}, "extra": ex}

    def opt(x):
        return [] if r.random() < 0.3 else [x]
    if kind == "track_data1":
        return {"rate": opt(rf64(r)), "count": opt(rbytes(r, 8)), "loud": opt(rf64(r)), "key": opt(r.randrange(0, 25))}
    if kind == "beat_data1":
        def g(k):
            idx, off, out = r.randrange(-8, 4), r.uniform(-5000, 5000), []
            for _ in range(k):
                out.append({"idx": idx, "off": list(struct.pack(">d", off))})
                idx += r.choice([1, 1, 2, 4, 0 if r.random() < 0.02 else 1])
                off += r.choice([1.0, 0.5, 22050.0, 441.25, 0.0 if r.random() < 0.02 else 3.0])
            return out
        return {"rate": opt(rf64(r)), "count": opt(rf64(r)), "dflt": g(r.choice([0, 1, 2, 3, 17, 3000 if big else 60])), "adj": g(r.choice([0, 2, 5]))}
    if kind in ("hires1", "overview1"):
        m = r.choice([0, 1, 9, 5000 if big else 50])
        full = kind == "hires1"
        return {"spe": rf64(r), "pts": [{"l": r.randrange(256), "m": r.randrange(256), "h": r.randrange(256),
                                         "lo": r.randrange(256) if full else 255, "mo": r.randrange(256) if full else 255,
                                         "ho": r.randrange(256) if full else 255} for _ in range(m)]}
    if kind == "loops1":
        return {"loops": [[] if r.random() < 0.3 else [dict({"label": rlabel(r), "start": rf64(r) if r.random() > 0.1 else [191, 240, 0, 0, 0, 0, 0, 0],
                                                           "end": rf64(r)}, **rcol(r))] for _ in range(n)]}
    if kind == "quick_cues1":
        n = r.choice([8, 8, 8, 0, 7, 9, 12])
        adj = rf64(r)
        return {"cues": [[] if r.random() < 0.3 else [dict({"label": rlabel(r), "off": rf64(r) if r.random() > 0.1 else [191, 240, 0, 0, 0, 0, 0, 0]},
                                                          **rcol(r))] for _ in range(n)],
                "adj": adj, "dflt": adj if r.random() < 0.3 else rf64(r)}
    raise ValueError(kind)


CHUNK = 16384   # the chunk size of the compression / decompression loops (InflateLoop.tla: Chunk)


def boundary_values(r, tier):
    """Values whose payload length sits on / next to a multiple of the codec's chunk size - the boundary
    classes of the chunk-loop model (N in {k*Chunk - 1, k*Chunk, k*Chunk + 1}) lifted to whole blobs."""
    targets = [CHUNK, 3 * CHUNK] if tier == "quick" else [CHUNK - 1, CHUNK, CHUNK + 1, 2 * CHUNK, 3 * CHUNK, 3 * CHUNK + 1]
    out = []
    for t in targets:
        out.append(("track_data2", dict(rvalue("track_data2", r), extra=rbytes(r, t - 44))))
        bd = rvalue("beat_data2", r)
        bd["dflt"], bd["adj"] = bd["dflt"][:2], bd["adj"][:2]
        bd["extra"] = rbytes(r, t - (33 + 24 * (len(bd["dflt"]) + len(bd["adj"]))))
        out.append(("beat_data2", bd))
        qc = {"cues": [dict({"label": rbytes(r, 5), "off": rf64(r)}, **rcol(r)) for _ in range(8)], "adj": rf64(r), "isadj": 1, "dflt": rf64(r)}
        qc["extra"] = rbytes(r, t - (8 + 8 * 18 + 17))
        out.append(("quick_cues2", qc))
        ov = rvalue("overview2", r)
        ov["pts"] = [{"l": r.randrange(256), "m": r.randrange(256), "h": r.randrange(256)} for _ in range(1000)]
        ov["extra"] = rbytes(r, t - (27 + 3000))
        out.append(("overview2", ov))
        if (t - 27) % 3 == 0:
            n = (t - 27) // 3
            pts = [{"l": r.randrange(256), "m": r.randrange(256), "h": r.randrange(256)} for _ in range(n)]
            out.append(("overview2", dict(ov, pts=pts, extra=[])))
            out.append(("overview1", {"spe": rf64(r), "pts": [dict(p, lo=255, mo=255, ho=255) for p in pts]}))
        if (t - 30) % 6 == 0:
            n = (t - 30) // 6
            out.append(("hires1", {"spe": rf64(r), "pts": [{"l": r.randrange(256), "m": r.randrange(256), "h": r.randrange(256),
                                                            "lo": r.randrange(256), "mo": r.randrange(256), "ho": r.randrange(256)} for _ in range(n)]}))
        # 1.x quick cues: 25 + 13 n + label bytes
        n = (t - 25) // 13
        rest = t - 25 - 13 * n
        cues = [[dict({"label": rbytes(r, 1), "off": rf64(r)}, **rcol(r))] for _ in range(n)]
        # (labels must be 1..255 bytes in 1.x: take the remainder out of the count instead)
        n2 = n - 1
        spare = t - 25 - 13 * n2 - n2            # bytes still missing when every label has one byte
        if n2 > 0 and 0 <= spare <= 254 * n2:
            cues = [[dict({"label": rbytes(r, 1), "off": rf64(r)}, **rcol(r))] for _ in range(n2)]
            k = 0
            while spare > 0:
                add = min(254, spare)
                cues[k][0]["label"] = rbytes(r, 1 + add)
                spare -= add
                k += 1
            adj = rf64(r)
            out.append(("quick_cues1", {"cues": cues, "adj": adj, "dflt": adj}))
    return out


def edge_grids1(r):
    """1.x beat grids whose beat indices sit at the edges of their 32-bit range (C03: every integer edge).  The layout stores, next
    to every marker, the number of beats to the next one in a signed 32-bit field: a pair of neighbours further apart than 2^31 - 1
    beats is a value the format cannot hold (EngineFormat!Grid1OK) and must be refused, every other pair must round-trip."""
    lo, hi = -2147483648, 2147483647
    shapes = [[lo, hi], [lo, 0, hi], [-1, hi], [0, hi], [lo, -1], [lo, lo + 1], [hi - 1, hi], [lo, -2, hi - 1], [-2, hi - 1], [-2, hi - 2, hi],
              [lo + 1, hi], [-1073741824, 1073741823, hi]]
    out = []
    for sh in shapes:
        g = [{"idx": idx, "off": list(struct.pack(">d", 100.0 + 22050.0 * k))} for k, idx in enumerate(sh)]
        plain = [{"idx": k, "off": list(struct.pack(">d", 10.0 + 5.0 * k))} for k in range(2)]
        out.append(("beat_data1", {"rate": [rf64(r)], "count": [rf64(r)], "dflt": g, "adj": plain}))
        out.append(("beat_data1", {"rate": [rf64(r)], "count": [rf64(r)], "dflt": [], "adj": g}))
    return out


def twin_values(r):
    """Values in which two parts are EQUAL under C++ operator== and differ bit-wise: +0.0 against -0.0 in the same place of the two
    beat grids / of the adjusted and default main cue / of a loop's start and end / of the three loudness bands.  C03 compares by bit
    pattern: a codec that writes one part from the other 'because they are equal' loses the sign."""
    pz, nz = [0, 0, 0, 0, 0, 0, 0, 0], [128, 0, 0, 0, 0, 0, 0, 0]
    out = []
    for a, b in ((pz, nz), (nz, pz)):
        def g(z, k=3):
            beat, nb, unk = rbytes(r, 8), rbytes(r, 4), rbytes(r, 4)
            return [{"off": z if i == 0 else list(struct.pack(">d", 22050.0 * i)), "beat": [0, 0, 0, 0, 0, 0, 0, i], "nbeats": [4, 0, 0, 0], "unk": [0, 0, 0, 0]}
                    for i in range(k)]
        out.append(("beat_data2", {"rate": rf64(r), "samples": rf64(r), "isset": 1, "dflt": g(a), "adj": g(b), "extra": []}))
        out.append(("beat_data2", {"rate": a, "samples": b, "isset": 1, "dflt": g(a, 1), "adj": g(b, 1), "extra": [0] * 9}))
        out.append(("quick_cues2", {"cues": [dict({"label": rlabel(r), "off": z}, **rcol(r)) for z in (a, b, a)], "adj": a, "isadj": 1, "dflt": b,
                                    "extra": []}))
        out.append(("loops2", {"loops": [dict({"label": rlabel(r), "start": a, "end": b, "ss": 1, "es": 1}, **rcol(r)),
                                         dict({"label": rlabel(r), "start": b, "end": a, "ss": 1, "es": 1}, **rcol(r))], "extra": []}))
        out.append(("track_data2", {"rate": a, "samples": rbytes(r, 8), "key": rbytes(r, 4), "low": a, "mid": b, "high": a, "extra": []}))
        g1 = lambda z: [{"idx": 0, "off": z}, {"idx": 4, "off": list(struct.pack(">d", 88200.0))}]
        out.append(("beat_data1", {"rate": [rf64(r)], "count": [rf64(r)], "dflt": g1(a), "adj": g1(b)}))
        out.append(("quick_cues1", {"cues": [[dict({"label": [65], "off": z}, **rcol(r))] for z in (a, b, a, b, a, b, a, b)], "adj": a, "dflt": b}))
        out.append(("loops1", {"loops": [[dict({"label": [65], "start": a, "end": b}, **rcol(r))] for _ in range(8)]}))
    return out


def corner_values(r, tier):
    """Values at the corners of the domain C03 names: grids of 40000 markers (each, and both at once), waveforms of 100000
    points.  Too large for TLC to compare byte by byte: the driver reports sizes and its own round-trip verdict (big = True)."""
    def g2(k):
        return [{"off": rf64(r), "beat": rbytes(r, 8), "nbeats": rbytes(r, 4), "unk": rbytes(r, 4)} for _ in range(k)]

    def g1(k):
        idx, off, out = -4, -100.0, []
        for _ in range(k):
            out.append({"idx": idx, "off": list(struct.pack(">d", off))})
            idx += 1
            off += 22050.5
        return out

    def pts(k, full):
        return [{"l": r.randrange(256), "m": r.randrange(256), "h": r.randrange(256), "lo": r.randrange(256) if full else 255,
                 "mo": r.randrange(256) if full else 255, "ho": r.randrange(256) if full else 255} for _ in range(k)]
    grids = [(40000, 40000), (40000, 0)] if tier == "quick" else [(40000, 40000), (40000, 0), (0, 40000), (21845, 21845), (21845, 21844), (30000, 10000)]
    out = []
    for a, b in grids:
        out.append(("beat_data2", {"rate": rf64(r), "samples": rf64(r), "isset": 1, "dflt": g2(a), "adj": g2(b), "extra": []}))
    for a, b in ([(32768, 32768), (32769, 2)] if tier == "quick" else [(32768, 32768), (32769, 2), (2, 40000), (32768, 0)]):
        out.append(("beat_data1", {"rate": [rf64(r)], "count": [rf64(r)], "dflt": g1(a), "adj": g1(b)}))
    for n in ([100000] if tier == "quick" else [100000, 99999, 65536]):
        out.append(("overview2", {"pts": [{"l": x["l"], "m": x["m"], "h": x["h"]} for x in pts(n, False)], "spp": rf64(r),
                                  "max": {"l": 1, "m": 2, "h": 3}, "extra": []}))
        out.append(("hires1", {"spe": rf64(r), "pts": pts(n, True)}))
        out.append(("overview1", {"spe": rf64(r), "pts": pts(n, False)}))
    return out


def mutate(payload, r):
    p = list(payload)
    c = r.random()
    if c < 0.4 and p:
        for _ in range(r.choice([1, 1, 2, 5])):
            p[r.randrange(len(p))] = r.randrange(256)
    elif c < 0.6 and p:
        p = p[:r.randrange(len(p))]
    elif c < 0.8:
        p = p + rbytes(r, r.choice([1, 3, 9, 12]))
    elif p:
        k = r.randrange(len(p))
        p = p[:k] + rbytes(r, r.choice([1, 8])) + p[k:]
    return p


def run_codec(binary, mode, lines, wd, base):
    ins = purechecks.shard_lines(lines, wd, base, vlib.NCPU)
    return purechecks.run_pure(binary, mode, ins, wd, base)


def format_check(prop, tier, seed, want_enc, want_dec_spec, want_dec_foreign, rule, assumptions, extra=None):
    t0 = time.time()
    wd = vlib.workdir("%s_%s" % (prop, tier))
    binary = vbuild.build_bin("codecdriver", "plain", extra_src=["shim.cpp"])
    res, vals = run_mc(wd, tier)
    rnd = random.Random(seed)
    enc_lines, dec_lines = [], []
    nrand = (40 if tier == "quick" else 600)
    if want_enc:
        for v in vals:
            enc_lines.append(json.dumps({"kind": v["kind"], "v": v["v"]}) + "\n")
        for k in KINDS:
            for i in range(nrand):
                enc_lines.append(json.dumps({"kind": k, "v": rvalue(k, rnd, big=(tier != "quick" and i % 40 == 0))}) + "\n")
        # payload lengths on and next to multiples of the chunk size of the (de)compression loops
        for (k, v) in boundary_values(rnd, tier):
            enc_lines.append(json.dumps({"kind": k, "v": v}) + "\n")
        for (k, v) in edge_grids1(rnd) + twin_values(rnd):
            enc_lines.append(json.dumps({"kind": k, "v": v}) + "\n")
        # the corners of the domain (C03: grids of 0..40000 markers, waveforms of 0..100000 points)
        if prop == "C03":
            for (k, v) in corner_values(rnd, tier):
                enc_lines.append(json.dumps({"kind": k, "v": v, "big": True}) + "\n")
    if want_dec_spec:
        for v in vals:
            d = {"kind": v["kind"], "payload": v["payload"]}
            if v["enc"] and not (v["kind"] == "quick_cues1" and False):
                d["v"] = v["v"]
            dec_lines.append(json.dumps(d) + "\n")
    if want_dec_foreign:
        for v in vals:
            if v["kind"] in V2:
                dec_lines.append(json.dumps({"kind": v["kind"], "payload": v["payload"]}) + "\n")
                for _ in range(2 if tier == "quick" else 8):
                    dec_lines.append(json.dumps({"kind": v["kind"], "payload": mutate(v["payload"], rnd)}) + "\n")
    violations = []
    files = []
    if enc_lines:
        for (p, out, ev) in run_codec(binary, "enc", enc_lines, wd, "enc"):
            if ev:
                violations.append({"reason": "codec driver died while encoding / decoding (rc=%s)" % ev["rc"], "record": ev})
            files.append(out)
    if dec_lines:
        for (p, out, ev) in run_codec(binary, "dec", dec_lines, wd, "dec"):
            if ev:
                violations.append({"reason": "codec driver died while decoding (rc=%s)" % ev["rc"], "record": ev})
            files.append(out)
    cfgt = purechecks.pure_cfg()

    def val(f):
        return purechecks.validate_records("TraceFormat", cfgt, f, wd, os.path.basename(f).replace(".ndjson", ""), timeout=1500)

    with ThreadPoolExecutor(vlib.NCPU) as ex:
        vres = list(ex.map(val, files))
    kf_seen = {}
    for f, v in zip(files, vres):
        for rej in v["rejected"]:
            rec = rej["record"]
            short = {k: rec.get(k) for k in ("kind", "tag")}
            for part in ("enc", "dec", "re"):
                if part in rec:
                    short[part] = {k: (x if not isinstance(x, (list, dict)) or len(json.dumps(x)) < 300 else "<%d items>" % len(x)) for k, x in rec[part].items()}
            short["v"] = json.dumps(rec.get("v"))[:600] if "v" in rec else None
            short["payload_len"] = len(rec.get("payload", [])) if "payload" in rec else None
            violations.append({"reason": rej["reason"], "record": short, "file": f, "record_index": rej["record_index"]})
        for k in v["kf"]:
            kf_seen.setdefault(k["kf"], {"file": f, "record_index": k["record"]})
    nrec = sum(v["records"] for v in vres)
    extra_cov, extra_acc = {}, 0
    if extra:
        v2, extra_cov, extra_acc = extra(wd, tier, seed, vals)
        violations += v2
    cov = {"states": res["states"], "transitions": res["generated"],
           "traces_validated_against_impl": sum(v["accepted"] for v in vres) + extra_acc,
           "evaluations": nrec, "distinct_nontrivial": len(set(enc_lines)) + len(set(dec_lines)),
           "rule": rule, "kinds": KINDS,
           "samples": [json.loads(x) for x in (enc_lines[:1] + dec_lines[:1])],
           "checker_cmd": "tlc MCEngineFormat.tla; tlc TraceFormat.tla (POSTCONDITION Accepted)", "exhaustive": False}
    cov.update(extra_cov)
    return purechecks.finish(prop, tier, seed, "model_checking", cov, t0, violations, None, kf_seen, assumptions)


COMMON_ASSUME = ["EngineFormat.tla was written once against the pinned encoders and is taken as the format real players read",
                 "framing / un-framing in the harness uses plain zlib (compress2 / uncompress), which is trusted",
                 "schema-1.x overview waveforms carry no opacity: values are generated with opacity 255"]


def check_C02(tier, seed):
    return format_check(
        "C02", tier, seed, True, True, False,
        "write direction: every value of MCEngineFormat (11 kinds x counts {0,1,2,3,8,9} x label lengths x flag bytes x extra lengths x two "
        "sets of asymmetric byte patterns, one pattern per field) plus seed-chosen values is encoded by the library, the frame is stripped with "
        "plain zlib, and TLC requires payload = Enc(kind, value) and prefix = big-endian length; read direction: the payload produced by the "
        "specification's encoder is framed with plain zlib and decoded by the library, TLC requires decoded = value",
        COMMON_ASSUME)


def check_C03(tier, seed):
    return format_check(
        "C03", tier, seed, True, False, False,
        "every enumerated and seed-chosen value (arbitrary double bit patterns incl. NaN, infinities, -0 and denormals; labels of 0..300 "
        "arbitrary bytes; 0..12 entries; larger grids and waveforms in the thorough tier) is encoded and decoded again by the library; TLC "
        "requires: Encodable => both succeed and decoded = value (an offset of -1 in schema 1.x being the only value that reads back as an empty "
        "slot); not Encodable => the encoder throws a std::exception; payload lengths on and next to multiples of the 16 KiB chunk of the "
        "compression loop are included for every compressed kind (DeflateLoop.tla models that loop: Z_FINISH only after all input)",
        COMMON_ASSUME + ["strictly-increasing order of 1.x grid markers is computed by the harness (numeric comparison of doubles)"],
        extra=_deflate_model)


def check_C04(tier, seed):
    return format_check(
        "C04", tier, seed, False, False, True,
        "foreign payloads for the five schema-2.x blob types come from the specification's encoder with what the library never writes (counts "
        "other than 8, flag bytes 0/1/2/255, unknown fields set, different default and adjusted grids, 0/1/5 trailing bytes) and from seed-chosen "
        "mutation of such payloads (byte flips, truncation, appended and inserted bytes); each is framed with plain zlib, decoded and re-encoded "
        "by the library; whenever the decoder accepts, TLC requires the re-encoded payload to equal the original byte for byte, the main-cue-"
        "adjusted flag byte alone being normalised to 0/1; setter part: such foreign blobs are stored into the five performance-data columns of "
        "schema-2.x tracks behind the library's back (plain SQLite), every blob-addressing setter (hot_cue_at, hot_cues, main_cue, loop_at, loops, "
        "beatgrid, sample_rate, sample_count, key, average_loudness, waveform) and some that address none are called with value classes from "
        "MCTrackFields, and after every call the un-framed payload of every blob column of every track is logged: TLC (TraceTrackBlobs) requires "
        "columns the setter does not address to stay byte-identical on all tracks and the addressed column to equal Enc(kind, value with only "
        "the addressed field changed)",
        COMMON_ASSUME + ["for key, sample_count, beatgrid and waveform the new field bytes are not modelled: only the bytes outside the field "
                         "(fixed positions, trailing bytes) are compared"],
        extra=_setter_part)


def _deflate_model(wd, tier, seed, vals):
    """DeflateLoop.tla: the chunk loop of zlib_compress ends with Z_FINISH after all input, for payload lengths around the
    chunk size; the thorough tier also requires TLC to report the loop shape of seeded change C03a (model sensitivity)."""
    states = 0
    for n in (0, 1, 2, 3, 4, 5, 6, 7, 9):
        cfg = vlib.cfg_text("FairSpec", {"N": n, "Chunk": 3, "OutMax": 4, "Variant": "current"},
                            invariants=["HandoffInBuffer", "FinishSeesEverything"], properties=["Terminates"])
        rc, outp = vlib.run_tlc("DeflateLoop", cfg, wd, "deflate_%d" % n, workers=4, timeout=600)
        r = vlib.parse_tlc(outp)
        if not r["ok"]:
            raise vlib.ToolFailure("DeflateLoop(N=%d): %s (see %s)" % (n, r["errors"][:2], outp))
        states += r["states"] or 0
    sens = None
    if tier != "quick":
        cfg = vlib.cfg_text("FairSpec", {"N": 6, "Chunk": 3, "OutMax": 4, "Variant": "finish-by-short-chunk"},
                            invariants=["HandoffInBuffer", "FinishSeesEverything"], properties=["Terminates"])
        rc, outp = vlib.run_tlc("DeflateLoop", cfg, wd, "deflate_variant", workers=4, timeout=600)
        r = vlib.parse_tlc(outp)
        sens = bool(r["errors"]) and not r["fatal"]
        if not sens:
            raise vlib.ToolFailure("DeflateLoop: the finish-by-short-chunk variant was not reported (see %s)" % outp)
    return [], {"deflate_loop_model": {"states": states, "payload_lengths": "0..7, 9 with Chunk = 3", "variant_reported": sens}}, 0


def _setter_part(wd, tier, seed, vals):
    import blobsetcheck
    return blobsetcheck.blob_setter_part(wd, tier, seed, vals)
