#!/usr/bin/env python3
"""Prints the seeded-changes-versus-checks table (markdown) from seeded/matrix_<tier>.json and seeded/*/meta.json."""
import json
import os
import sys

VERIF = os.path.dirname(os.path.dirname(os.path.abspath(__file__)))


def main():
    tier = sys.argv[1] if len(sys.argv) > 1 else "quick"
    mp = os.path.join(VERIF, "seeded", "matrix_%s.json" % tier)
    rows = json.load(open(mp)) if os.path.exists(mp) else []
    print("| seed | what was changed (one line) | checks run (%s tier) | verdict |" % tier)
    print("|---|---|---|---|")
    for r in rows:
        name = r["seed"]
        try:
            meta = json.load(open(os.path.join(VERIF, "seeded", name, "meta.json")))
        except Exception:
            meta = {}
        summ = (meta.get("summary") or "").replace("\n", " ").replace("|", "/")
        cut = summ.find(". ")
        summ = summ[:cut + 1] if 0 < cut < 260 else summ[:260]
        cells = []
        caught = False
        for cid, c in sorted(r.get("checks", {}).items()):
            verdict = "caught" if c.get("caught") else ("tool failure rc=%s" % c.get("rc") if c.get("rc") not in (0, 1) else "missed")
            caught = caught or c.get("caught")
            cells.append("%s: %s (%d VIOLATION lines, %ds)" % (cid, verdict, c.get("violations", 0), c.get("wall_s", 0)))
        if r.get("error"):
            cells.append("error: " + r["error"][:80])
        print("| %s | %s | %s | %s |" % (name, summ, "; ".join(cells), "CAUGHT" if caught else "**missed**"))


if __name__ == "__main__":
    main()
