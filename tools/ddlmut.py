#!/usr/bin/env python3
"""Inventory extraction and materialisation of single structural mutations of an Engine library
(C17).  Python's sqlite3 module is the independent reader / editor here; the library under test is
only used to create the original library and to run verify() on the mutants."""
import json
import os
import re
import shutil
import sqlite3

FRESH = "zz_verif_new"


def db_files(d):
    """[(logical db name, path)] of a library directory."""
    out = []
    if os.path.exists(os.path.join(d, "m.db")):
        out.append(("music", os.path.join(d, "m.db")))
        if os.path.exists(os.path.join(d, "p.db")):
            out.append(("perfdata", os.path.join(d, "p.db")))
    if os.path.exists(os.path.join(d, "Database2", "m.db")):
        out.append(("main", os.path.join(d, "Database2", "m.db")))
    return out


def inventory(d):
    inv = {"tables": [], "indices": [], "views": []}
    for name, path in db_files(d):
        con = sqlite3.connect(path)
        cur = con.cursor()
        for (t,) in cur.execute("SELECT name FROM sqlite_master WHERE type='table' AND name NOT LIKE 'sqlite_%' ORDER BY name").fetchall():
            cols = []
            for (_cid, cn, ty, nn, dflt, pk) in cur.execute("PRAGMA table_info('%s')" % t).fetchall():
                cols.append({"name": cn, "type": ty or "", "notnull": int(nn), "dflt": "<NULL>" if dflt is None else str(dflt), "pk": int(pk)})
            inv["tables"].append({"db": name, "name": t, "cols": cols})
            for (_seq, iname, uniq, origin, _partial) in cur.execute("PRAGMA index_list('%s')" % t).fetchall():
                icols = [r[2] if r[2] is not None else "<expr>" for r in cur.execute("PRAGMA index_info('%s')" % iname).fetchall()]
                inv["indices"].append({"db": name, "name": iname, "table": t, "unique": int(uniq), "origin": origin, "cols": icols})
        for (v,) in cur.execute("SELECT name FROM sqlite_master WHERE type='view' ORDER BY name").fetchall():
            inv["views"].append({"db": name, "name": v})
        con.close()
    return inv


def copy_library(src, dst):
    shutil.rmtree(dst, ignore_errors=True)
    shutil.copytree(src, dst)


# ------------------------------------------------------------------ CREATE TABLE body editing
def split_top(body):
    parts, depth, cur, q = [], 0, "", None
    for ch in body:
        if q:
            cur += ch
            if ch == q:
                q = None
            continue
        if ch in "'\"`":
            q = ch
            cur += ch
        elif ch == "[":
            q = "]"
            cur += ch
        elif ch == "(":
            depth += 1
            cur += ch
        elif ch == ")":
            depth -= 1
            cur += ch
        elif ch == "," and depth == 0:
            parts.append(cur)
            cur = ""
        else:
            cur += ch
    if cur.strip():
        parts.append(cur)
    return parts


def table_body(sql):
    i = sql.index("(")
    j = sql.rindex(")")
    return sql[:i + 1], sql[i + 1:j], sql[j:]


def first_ident(item):
    lead = len(item) - len(item.lstrip())
    m = re.match(r'\[([^\]]+)\]|"([^"]+)"|`([^`]+)`|(\w+)', item[lead:])
    if not m:
        return None, 0
    return next(g for g in m.groups() if g is not None), lead + m.end()   # (end offset within `item`)


def is_constraint(item):
    return re.match(r"\s*(CONSTRAINT|PRIMARY\s+KEY|UNIQUE|FOREIGN\s+KEY|CHECK)\b", item, re.I) is not None


def edit_column(sql, col, fn):
    """Applies fn(column definition text) -> new text to the definition of `col`; None if not found."""
    head, body, tail = table_body(sql)
    parts = split_top(body)
    done = False
    for k, it in enumerate(parts):
        if is_constraint(it):
            continue
        name, _ = first_ident(it)
        if name == col:
            new = fn(it)
            if new is None:
                return None
            parts[k] = new
            done = True
            break
    if not done:
        return None
    return head + ",".join(parts) + tail


def set_table_sql(path, table, newsql):
    con = sqlite3.connect(path)
    con.execute("PRAGMA writable_schema=ON")
    con.execute("UPDATE sqlite_master SET sql=? WHERE type='table' AND name=?", (newsql, table))
    con.execute("PRAGMA writable_schema=OFF")
    con.commit()
    con.close()
    # make sure the edited schema parses
    con = sqlite3.connect(path)
    con.execute("SELECT * FROM sqlite_master").fetchall()
    con.execute("PRAGMA table_info('%s')" % table).fetchall()
    con.close()


def get_sql(path, typ, name):
    con = sqlite3.connect(path)
    r = con.execute("SELECT sql FROM sqlite_master WHERE type=? AND name=?", (typ, name)).fetchone()
    con.close()
    return r[0] if r else None


def ch_type(it):
    name, end = first_ident(it)
    rest = it[end:]
    m = re.match(r"\s*(\w+(\s*\([^)]*\))?)", rest)
    kw = {"PRIMARY", "NOT", "NULL", "DEFAULT", "UNIQUE", "REFERENCES", "CHECK", "CONSTRAINT", "COLLATE", "GENERATED"}
    if m and m.group(1).split("(")[0].strip().upper() not in kw:
        old = m.group(1).strip().upper()
        new = "INTEGER" if old == "TEXT" else "TEXT"
        return it[:end] + rest[:m.start(1)] + new + rest[m.end(1):]
    return it[:end] + " TEXT" + rest


def ch_notnull(it):
    if re.search(r"NOT\s+NULL", it, re.I):
        return re.sub(r"\s*NOT\s+NULL", "", it, count=1, flags=re.I)
    return it.rstrip() + " NOT NULL "


def ch_default(it):
    m = re.search(r"DEFAULT\s+('(?:[^']|'')*'|\([^)]*\)|\S+)", it, re.I)
    if m:
        new = "8" if m.group(1) == "7" else "7"
        return it[:m.start(1)] + new + it[m.end(1):]
    return it.rstrip() + " DEFAULT 7 "


def ch_pk(has_table_pk):
    def f(it):
        if re.search(r"PRIMARY\s+KEY", it, re.I):
            return re.sub(r"\s*PRIMARY\s+KEY(\s+(ASC|DESC))?(\s+AUTOINCREMENT)?", "", it, count=1, flags=re.I)
        if has_table_pk:
            return None
        return it.rstrip() + " PRIMARY KEY "
    return f


def materialise(m, src, dst):
    """Builds the mutant library in dst.  Returns True if built, False if SQLite cannot express it."""
    copy_library(src, dst)
    files = dict(db_files(dst))
    path = files[m["db"]]
    k = m["k"]
    try:
        if k in ("change_type", "change_notnull", "change_default", "change_pk"):
            sql = get_sql(path, "table", m["t"])
            if sql is None:
                return False
            if k == "change_pk":
                fn = ch_pk(re.search(r"PRIMARY\s+KEY", sql, re.I) is not None)
            else:
                fn = {"change_type": ch_type, "change_notnull": ch_notnull, "change_default": ch_default}[k]
            new = edit_column(sql, m["c"], fn)
            if new is None or new == sql:
                return False
            set_table_sql(path, m["t"], new)
            return True
        con = sqlite3.connect(path)
        cur = con.cursor()
        t, c, i = m["t"], m["c"], m["i"]
        new_name = m.get("n") or FRESH      # the new name of a naming mutation (sorts first / in the middle / last)
        if k == "drop_table":
            cur.execute('DROP TABLE "%s"' % t)
        elif k == "rename_table":
            cur.execute('ALTER TABLE "%s" RENAME TO "%s"' % (t, new_name))
        elif k == "add_table":
            cur.execute('CREATE TABLE "%s" (x INTEGER)' % new_name)
        elif k == "drop_view":
            cur.execute('DROP VIEW "%s"' % t)
        elif k == "rename_view":
            sql = get_sql(path, "view", t)
            cur.execute('DROP VIEW "%s"' % t)
            cur.execute(re.sub(r"(CREATE\s+VIEW\s+)(\[[^\]]+\]|\"[^\"]+\"|\S+)", r'\1"%s"' % new_name, sql, count=1, flags=re.I))
        elif k == "add_view":
            cur.execute('CREATE VIEW "%s" AS SELECT 1 AS x' % new_name)
        elif k == "drop_column":
            cur.execute('ALTER TABLE "%s" DROP COLUMN "%s"' % (t, c))
        elif k == "rename_column":
            cur.execute('ALTER TABLE "%s" RENAME COLUMN "%s" TO "%s"' % (t, c, new_name))
        elif k == "add_column":
            cur.execute('ALTER TABLE "%s" ADD COLUMN "%s" INTEGER' % (t, FRESH))
        elif k == "drop_index":
            cur.execute('DROP INDEX "%s"' % i)
        elif k in ("rename_index", "change_index_unique", "change_index_columns", "change_index_expr_tail", "change_index_expr_head"):
            sql = get_sql(path, "index", i)
            if sql is None:
                con.close()
                return False
            used = [r[2] for r in cur.execute("PRAGMA index_info('%s')" % i).fetchall()]
            cur.execute('DROP INDEX "%s"' % i)
            if k == "rename_index":
                new = re.sub(r"(CREATE\s+(UNIQUE\s+)?INDEX\s+)(\[[^\]]+\]|\"[^\"]+\"|\S+)", r'\1"%s"' % new_name, sql, count=1, flags=re.I)
            elif k == "change_index_unique":
                if re.match(r"\s*CREATE\s+UNIQUE", sql, re.I):
                    new = re.sub(r"UNIQUE\s+", "", sql, count=1, flags=re.I)
                else:
                    new = re.sub(r"CREATE\s+INDEX", "CREATE UNIQUE INDEX", sql, count=1, flags=re.I)
            elif k in ("change_index_expr_tail", "change_index_expr_head"):
                # one more index term that is an expression over a column of the table (seeded change C17f: a verifier that
                # compares the concatenated column names loses such a term, whose name is NULL)
                col = next((u for u in used if u), None) or cur.execute("PRAGMA table_info('%s')" % t).fetchall()[0][1]
                i0, j = sql.index("(", sql.upper().index(" ON ")), sql.rindex(")")
                if k == "change_index_expr_tail":
                    new = sql[:j] + ', length("%s")' % col + sql[j:]
                else:
                    new = sql[:i0 + 1] + 'length("%s"), ' % col + sql[i0 + 1:]
            else:
                cols = [r[1] for r in cur.execute("PRAGMA table_info('%s')" % t).fetchall()]
                extra = [x for x in cols if x not in used]
                if not extra:
                    con.close()
                    return False
                j = sql.rindex(")")
                new = sql[:j] + ', "%s"' % extra[0] + sql[j:]
            cur.execute(new)
        elif k == "add_index":
            col = cur.execute("PRAGMA table_info('%s')" % t).fetchall()[0][1]
            cur.execute('CREATE INDEX "%s" ON "%s" ("%s")' % (new_name, t, col))
        else:
            con.close()
            return False
        con.commit()
        con.close()
        return True
    except sqlite3.Error:
        return False


if __name__ == "__main__":
    import sys
    print(json.dumps(inventory(sys.argv[1]), indent=1)[:3000])
