#!/usr/bin/env python3
"""Setter part of C04: single-field setters on schema-2.x tracks that hold foreign blobs.  The foreign
values and their payloads come from the specification (MCEngineFormat) or are seed-chosen; the track
driver stores them behind the library's back, calls setters, and logs every blob column's payload
after every call; TLC (TraceTrackBlobs) requires untouched columns to stay byte-identical and the
addressed column to become Enc(kind, value with only the addressed field changed)."""
import json
import os
import random

import libcheck
import trackchecks
import vbuild
import vlib
from libcheck import Workload
from vlib import log

COL_OF_KIND = {"track_data2": "trackData", "beat_data2": "beatData", "quick_cues2": "quickCues", "loops2": "loops",
               "overview2": "overviewWaveFormData"}
SETTERS = {"quickCues": ["hot_cue_at", "hot_cues", "main_cue"], "loops": ["loop_at", "loops"],
           "beatData": ["beatgrid", "sample_rate", "sample_count"],
           "trackData": ["key", "average_loudness", "sample_rate", "sample_count"],
           "overviewWaveFormData": ["waveform"]}
OTHER_SETTERS = ["title", "rating", "bpm", "year", "comment"]     # address no blob column at all


def library_can_decode(kind, v):
    if kind == "quick_cues2":
        return all(len(c["label"]) <= 255 for c in v["cues"])
    if kind == "loops2":
        return all(len(c["label"]) <= 255 for c in v["loops"])
    return True


def spec_payload(kind, v):
    """Python twin of EngineFormat!Enc for the five 2.x kinds - used for seed-chosen values only; TLC re-checks
    payload = Enc(kind, v) in the Foreign step, so a slip here is a rejected trace, not a missed defect."""
    def cnt_be(n):
        return list(n.to_bytes(8, "big"))

    def rev(b):
        return list(reversed(b))
    if kind == "track_data2":
        return v["rate"] + v["samples"] + v["key"] + v["low"] + v["mid"] + v["high"] + v["extra"]
    if kind == "beat_data2":
        def grid(g):
            out = cnt_be(len(g))
            for m in g:
                out += rev(m["off"]) + rev(m["beat"]) + rev(m["nbeats"]) + rev(m["unk"])
            return out
        return v["rate"] + v["samples"] + [v["isset"]] + grid(v["dflt"]) + grid(v["adj"]) + v["extra"]
    if kind == "quick_cues2":
        out = cnt_be(len(v["cues"]))
        for c in v["cues"]:
            out += [len(c["label"]) % 256] + c["label"] + c["off"] + [c["a"], c["r"], c["g"], c["b"]]
        return out + v["adj"] + [v["isadj"]] + v["dflt"] + v["extra"]
    if kind == "loops2":
        out = rev(cnt_be(len(v["loops"])))
        for c in v["loops"]:
            out += [len(c["label"]) % 256] + c["label"] + rev(c["start"]) + rev(c["end"]) + [c["ss"], c["es"], c["a"], c["r"], c["g"], c["b"]]
        return out + v["extra"]
    if kind == "overview2":
        out = cnt_be(len(v["pts"])) * 2 + v["spp"]
        for p in v["pts"]:
            out += [p["l"], p["m"], p["h"]]
        return out + [v["max"]["l"], v["max"]["m"], v["max"]["h"]] + v["extra"]
    raise ValueError(kind)


def blob_cfg():
    return vlib.cfg_text("TSpec", {}, postcondition="Accepted").replace("CONSTANTS\n", "")


def build_foreign_obs(wd, mc_stats, tier, seed):
    """Workloads for C16: tracks holding foreign blobs (entry counts the library never writes, flag bytes, trailing bytes) are
    only OBSERVED - every getter and snapshot(), twice - after each blob is planted; TraceTrackBlobs requires the planted
    payload to be still there and the observation phase to have written nothing."""
    import formatchecks
    res, bases, seqs = trackchecks.run_mc_track(wd, 1)
    mc_stats.append({"instance": res["instance"], "states": res["states"], "transitions": res["generated"]})
    rnd = random.Random(seed * 31 + 7)
    mk = trackchecks.mk
    n = 12 if tier == "quick" else 80
    scripts = []
    for i in range(n):
        ops = [mk("create", snap=dict(bases["min"], relative_path=["music/a.mp3"])),
               mk("create", snap=dict(bases["full"], relative_path=["music/b.flac"]))]
        for t in (1, 2):
            for kind, col in COL_OF_KIND.items():
                for _ in range(20):
                    v = formatchecks.rvalue(kind, rnd)
                    if library_can_decode(kind, v):
                        break
                else:
                    continue
                ops.append(mk("foreign", t=t, col=col, v=v, payload=spec_payload(kind, v)))
        scripts.append(ops)
    schemas = ["2.18.0", "2.20.3", "2.21.2"] if tier == "quick" else vlib.V2
    return [Workload(s, scripts, [], flags={"blobs": True, "rep": True}, tag="f", origin="seed-chosen foreign blobs") for s in schemas]


def blob_setter_part(wd, tier, seed, vals):
    """Returns (violations, coverage-dict)."""
    import formatchecks
    wd2 = os.path.join(wd, "setters")
    os.makedirs(wd2, exist_ok=True)
    binary = vbuild.build_bin("trackdriver", "plain", extra_src=["shim.cpp"])
    res, bases, seqs = trackchecks.run_mc_track(wd2, 1)
    singles = {}
    for sq in seqs:
        if len(sq) == 1:
            singles.setdefault(sq[0]["f"], []).append(sq[0]["v"])
    rnd = random.Random(seed)
    # foreign values per column: from the specification's enumeration and seed-chosen
    pool = {c: [] for c in SETTERS}
    for v in vals:
        if v["kind"] in COL_OF_KIND and v.get("enc") and library_can_decode(v["kind"], v["v"]) and len(v["payload"]) < 6000:
            pool[COL_OF_KIND[v["kind"]]].append((v["v"], v["payload"]))
    nspec, nrand, nargs = (10, 6, 2) if tier == "quick" else (60, 40, 4)
    chosen = {}
    for col, kind in ((c, k) for k, c in COL_OF_KIND.items()):
        items = rnd.sample(pool[col], min(nspec, len(pool[col])))
        for _ in range(nrand):
            v = formatchecks.rvalue(kind, rnd)
            if library_can_decode(kind, v):
                items.append((v, spec_payload(kind, v)))
        chosen[col] = items
    mk = trackchecks.mk
    scripts = []
    npairs = 0
    for col, items in chosen.items():
        for (v, payload) in items:
            ops = [mk("create", snap=dict(bases["min"], relative_path=["music/a.mp3"])),
                   mk("create", snap=dict(bases["full"], relative_path=["music/b.flac"]))]
            # the other track holds foreign blobs too, so that "no other track changes" has something to lose
            for c2, it2 in chosen.items():
                if it2:
                    v2, p2 = it2[rnd.randrange(len(it2))]
                    ops.append(mk("foreign", t=2, col=c2, v=v2, payload=p2))
            for f in SETTERS[col]:
                args = singles.get(f, [])
                for a in rnd.sample(args, min(nargs, len(args))):
                    ops.append(mk("foreign", t=1, col=col, v=v, payload=payload))
                    ops.append(mk("set", t=1, f=f, v=a))
                    # a second setter on the result of the first (the value stays known where the effect is exact)
                    f2 = rnd.choice(SETTERS[col])
                    if singles.get(f2):
                        ops.append(mk("set", t=1, f=f2, v=rnd.choice(singles[f2])))
                    npairs += 1
            # setters that address no blob column
            ops.append(mk("foreign", t=1, col=col, v=v, payload=payload))
            for f in OTHER_SETTERS:
                if singles.get(f):
                    ops.append(mk("set", t=1, f=f, v=rnd.choice(singles[f])))
            scripts.append(ops)
    schemas = ["2.18.0", "2.21.2"] if tier == "quick" else vlib.V2
    ws = [Workload(s, scripts, [], flags={"blobs": True}, tag="b", origin="MCEngineFormat + MCTrackFields") for s in schemas]
    cfg = blob_cfg()
    shards, summary = libcheck.run_and_validate(binary, ws, wd2, module="TraceTrackBlobs", cfg=cfg, watchdog=20)
    violations = []
    n = 0
    for sh in shards:
        for rej in sh["val"]["rejected"]:
            n += 1
            if len(violations) >= 5:
                continue
            payload = libcheck.confirm_rejection(binary, sh, rej, wd2, n, "TraceTrackBlobs", cfg, watchdog=20)
            if payload is None:
                log("note: rejection in %s did not repeat on re-run; not reported" % sh["base"])
                continue
            rec = payload.get("offending_record") or {}
            payload["history"] = None
            payload["offending_record"] = {k: rec.get(k) for k in ("op", "t", "f", "in", "col", "out", "ex")}
            payload["reason"] = "setter on a track holding a foreign blob: " + str(payload.get("reason"))
            violations.append(payload)
        for ev in sh["events"]:
            violations.append({"reason": "track driver %s while running setters on foreign blobs" % ev["kind"], "record": ev})
    cov = {"setter_part": {"foreign_values": {c: len(x) for c, x in chosen.items()}, "foreign_then_set_pairs": npairs * len(schemas),
                           "executions": summary["executions"], "accepted": summary["accepted"], "records": summary["records"],
                           "schemas": schemas}}
    return violations, cov, summary["accepted"]
