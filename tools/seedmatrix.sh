#!/bin/sh
# seedmatrix.sh [NAME...] : applies each seeded change to /repo in turn, runs the checks listed for it (quick tier),
# undoes it, and finally refreshes seeded/*/meta.json.  Nothing else may use /repo while this runs.
cd /verif || exit 2
plan() {
  case "$1" in
    C07a|C07b) echo "C07" ;;
    C08a) echo "C08 C09" ;;
    C08b) echo "C08 C11" ;;
    C09a) echo "C09 C08" ;;
    C09b) echo "C09 C07 C18" ;;
    C10a) echo "C10" ;;
    C10b) echo "C13 C10" ;;
    C11a|C11b) echo "C11" ;;
    C14a|C14b) echo "C14" ;;
    C16a) echo "C16" ;;
    C01a|C01b) echo "C01" ;;
    C06a|C06b) echo "C06" ;;
    C02a) echo "C02" ;;
    C03a) echo "C03" ;;
    C04a) echo "C04" ;;
    C05a) echo "C05" ;;
    C13a) echo "C13" ;;
    C15a) echo "C15" ;;
    C17a|C17b) echo "C17" ;;
    C18a) echo "C18" ;;
    C19a) echo "C19" ;;
    C20a) echo "C20" ;;
    *) echo "" ;;
  esac
}
names="$*"
[ -z "$names" ] && names=$(ls seeded)
for n in $names; do
  p=$(plan "$n")
  [ -z "$p" ] && { echo "no plan for $n"; continue; }
  echo "=== $n: $p"
  sh tools/seedrun.sh "seeded/$n" $p 2>&1 | cut -c1-300
done
python3 tools/seedmeta.py
