#!/usr/bin/env python3
"""Shared machinery of the checks: run TLC, generate scripts, drive the real library, validate
traces with TLC, classify rejections, write evidence.  TLC is the only oracle; nothing here
"expects" anything about the library by itself."""
import glob
import json
import os
import random
import re
import shutil
import subprocess
import sys
import time
from concurrent.futures import ThreadPoolExecutor

sys.path.insert(0, os.path.dirname(os.path.abspath(__file__)))
import vbuild  # noqa: E402
import paths  # noqa: E402

VERIF = vbuild.VERIF
SPEC = os.path.join(VERIF, "spec")
# (VERIF_OUT redirects everything a run writes - build products, run directories, replay files, evidence - so that
#  seeded changes can be judged in scratch worktrees, in parallel, without touching /verif or /repo: tools/seedpar.py)
OUT = os.environ.get("VERIF_OUT", VERIF)
BUILD = os.path.join(OUT, "build")
EVID = os.path.join(OUT, "evidence")
TLA_JAR = "/opt/veriftools/tla/tla2tools.jar"
NCPU = 16

V1 = ["1.6.0", "1.7.1", "1.9.1", "1.11.1", "1.13.0", "1.13.1", "1.13.2", "1.15.0", "1.17.0", "1.18.0d", "1.18.0o"]
V2 = ["2.18.0", "2.20.1", "2.20.2", "2.20.3", "2.21.0", "2.21.1", "2.21.2"]
ALL = V1 + V2
# one representative per code-path class (DESIGN.md §7)
REPR = ["1.6.0", "1.7.1", "1.9.1", "1.11.1", "1.15.0", "1.17.0", "1.18.0o", "2.18.0", "2.20.1", "2.20.3", "2.21.2"]
# the quick tier of the expensive checks (a quick command has 900 s on a machine that may be busy): one schema per storage
# shape - plain tables with rowid ids (1.6.0), List-based views with INSTEAD OF triggers (1.9.1), placeholder trigger
# (1.17.0), newest 1.x (1.18.0o); first 2.x (2.18.0), ChangeLog as a view (2.20.3), newest 2.x (2.21.2) - plus `extra`
# further ones that rotate with the seed.  The thorough tier runs all 18.
QUICK = ["1.6.0", "1.9.1", "1.17.0", "1.18.0o", "2.18.0", "2.20.3", "2.21.2"]


def quick_schemas(seed, extra=1):
    import random as _r
    rest = [s for s in ALL if s not in QUICK]
    _r.Random(seed * 101 + 7).shuffle(rest)
    return QUICK + sorted(rest[:extra], key=ALL.index)


def family(schema):
    return "v2" if schema.startswith("2.") else "v1"


class ToolFailure(Exception):
    """The machinery itself failed (parse error, Java error, build error): exit 2, never a VIOLATION."""


def log(*a):
    print(*a, file=sys.stderr, flush=True)


def workdir(name):
    d = os.path.join(BUILD, "run", name)
    shutil.rmtree(d, ignore_errors=True)
    os.makedirs(d, exist_ok=True)
    return d


# ----------------------------------------------------------------------------- TLC
def cfg_text(spec, constants, invariants=(), properties=(), view=None, action_constraints=(),
             constraints=(), postcondition=None, deadlock=False, init_next=None):
    lines = []
    if init_next:
        lines += ["INIT " + init_next[0], "NEXT " + init_next[1]]
    else:
        lines.append("SPECIFICATION " + spec)
    lines.append("CONSTANTS")
    for k, v in constants.items():
        lines.append("  %s = %s" % (k, tla_value(v)))
    if view:
        lines.append("VIEW " + view)
    if invariants:
        lines.append("INVARIANTS " + " ".join(invariants))
    if properties:
        lines.append("PROPERTIES " + " ".join(properties))
    for a in action_constraints:
        lines.append("ACTION_CONSTRAINT " + a)
    for c in constraints:
        lines.append("CONSTRAINT " + c)
    if postcondition:
        lines.append("POSTCONDITION " + postcondition)
    lines.append("CHECK_DEADLOCK " + ("TRUE" if deadlock else "FALSE"))
    return "\n".join(lines) + "\n"


def tla_value(v):
    if isinstance(v, bool):
        return "TRUE" if v else "FALSE"
    if isinstance(v, int):
        return str(v)
    if isinstance(v, str):
        return '"%s"' % v
    if isinstance(v, (set, frozenset, list, tuple)):
        return "{" + ", ".join(tla_value(x) for x in sorted(v, key=str)) + "}"
    raise ValueError(v)


class Raw(str):
    """A TLA+ expression to be put into a cfg verbatim."""


def _tlaval(v):
    return v if isinstance(v, Raw) else tla_value(v)


class _Slots:
    """System-wide pool of JVM slots (flock on files under /tmp): several checks running at the same time (seeded
    changes judged in parallel, a background sweep next to a quick check) must not start more JVMs than the machine
    has memory for - the kernel's OOM killer would turn that into tool failures."""
    DIR = "/tmp/verif.slots"

    def __init__(self, n):
        self.n = max(1, n)
        self.held = []

    def __enter__(self):
        import fcntl
        os.makedirs(self.DIR, exist_ok=True)
        total = max(8, (os.cpu_count() or 8) + 4)
        want = min(self.n, total)
        t0 = time.time()
        while True:
            got = []
            start = random.randrange(total)
            for i in range(total):
                fd = os.open(os.path.join(self.DIR, "slot%d" % ((start + i) % total)), os.O_CREAT | os.O_RDWR, 0o666)
                try:
                    fcntl.flock(fd, fcntl.LOCK_EX | fcntl.LOCK_NB)
                    got.append(fd)
                    if len(got) == want:
                        break
                except OSError:
                    os.close(fd)
            if len(got) == want or time.time() - t0 > 3600:   # (never wait for ever: after an hour go ahead regardless)
                self.held = got
                return self
            for fd in got:
                os.close(fd)
            time.sleep(0.2 + random.random() * 0.8)

    def __exit__(self, *a):
        for fd in self.held:
            os.close(fd)
        self.held = []


def run_tlc(module, cfg, wd, tag, workers=1, timeout=900, env=None, extra=(), xmx="4g", simulate=None):
    """Runs TLC on spec/<module>.tla with the given cfg text.  Returns (exit code, output path).  A JVM that was killed
    from outside (SIGKILL: the kernel's OOM killer under a loaded machine) is started once more."""
    for attempt in (1, 2):
        with _Slots(1 if workers <= 1 else min(workers, 4)):
            rc, outp = _run_tlc(module, cfg, wd, tag, workers, timeout, env, extra, xmx, simulate)
        if rc not in (-9, 137) or attempt == 2:
            return rc, outp
        time.sleep(5 + random.random() * 10)


def _run_tlc(module, cfg, wd, tag, workers, timeout, env, extra, xmx, simulate):
    os.makedirs(wd, exist_ok=True)
    cfgp = os.path.join(wd, tag + ".cfg")
    with open(cfgp, "w") as fh:
        fh.write(cfg)
    outp = os.path.join(wd, tag + ".out")
    meta = os.path.join(wd, tag + ".meta")
    shutil.rmtree(meta, ignore_errors=True)
    # (-Xss: evaluating records with arrays of a few hundred elements overflows TLC's default thread stack)
    cmd = ["java", "-Xmx" + xmx, "-Xss64m", "-XX:+UseParallelGC", "-XX:ParallelGCThreads=%d" % max(2, min(workers, 8)),
           "-cp", TLA_JAR + ":/opt/veriftools/tla/CommunityModules-deps.jar", "tlc2.TLC"]
    cmd += ["-workers", str(workers), "-noGenerateSpecTE", "-metadir", meta, "-config", cfgp]
    if simulate:
        cmd += ["-simulate", simulate]
    cmd += list(extra) + [module + ".tla"]
    e = dict(os.environ)
    e["JAVA_OPTS"] = "-Xmx" + xmx
    if env:
        e.update(env)
    with open(outp, "w") as fh:
        try:
            r = subprocess.run(cmd, cwd=SPEC, stdout=fh, stderr=subprocess.STDOUT, env=e, timeout=timeout)
            rc = r.returncode
        except subprocess.TimeoutExpired:
            rc = 124
    shutil.rmtree(meta, ignore_errors=True)
    return rc, outp


def parse_tlc(outp):
    """Extracts what the checks need from a TLC output file."""
    res = {"states": None, "generated": None, "depth": None, "errors": [], "kf": [], "max_l": 0, "ok": False,
           "coverage": {}, "fatal": None}
    with open(outp, errors="replace") as fh:
        for line in fh:
            if line.startswith('"SCRIPT ') or line.startswith('"HIST '):
                continue
            m = re.match(r"(\d+) states generated, (\d+) distinct states found", line)
            if m:
                res["generated"] = int(m.group(1))
                res["states"] = int(m.group(2))
                continue
            m = re.search(r"The depth of the complete state graph search is (\d+)", line)
            if m:
                res["depth"] = int(m.group(1))
                continue
            if line.startswith("Error:"):
                res["errors"].append(line.strip())
                continue
            m = re.match(r'<<"KF", (\d+), "([^"]+)">>', line)
            if m:
                res["kf"].append((int(m.group(1)), m.group(2)))
                continue
            m = re.match(r"/\\ l = (\d+)", line)
            if m:
                res["max_l"] = max(res["max_l"], int(m.group(1)))
                continue
            if "Model checking completed. No error has been found." in line:
                res["ok"] = True
            if ("Parsing or semantic analysis failed" in line or "java.lang." in line or "Exception in thread" in line
                    or "StackOverflowError" in line
                    or "TLC threw an unexpected exception" in line or "was not found" in line and "file" in line.lower()):
                res["fatal"] = line.strip()
    return res


# ----------------------------------------------------------------------------- model checking / generation
LIB_INV = ["TypeOK", "ForestInv", "QueriesAgree", "MemInv"]
LIB_PROPS = ["NoResurrection", "TracksNoResurrection", "RejectNoEffect", "OrderStable", "MemFrame"]
VALID_NAMES = ["a", "b", "c", "d", "e", "f", "g", "h", "Ä ö", "a b"]
INVALID_NAMES = ["", "x;y", ";", "a;"]


def mc_forest(wd, fam, max_crates, max_ops, max_tracks=0, with_tracks=False, valid=("a", "b", "c", "d"), invalid=("", "x;y"),
              opnames=("a", "b", "", "x;y"), crate_ops="all", pre="none", track_ops="all", workers=8, timeout=900, tag=None):
    """Model-checks Library on the bounded instance and returns (stats, scripts)."""
    consts = {"Family": fam, "ValidNames": set(valid), "InvalidNames": set(invalid),
              "DupPolicy": "reject" if fam == "v2" else "accept", "PosPolicy": "tail",
              "MaxCrates": max_crates, "MaxTracks": max_tracks, "MaxOps": max_ops, "WithTracks": with_tracks,
              "OpNames": set(opnames), "CrateOpSet": crate_ops, "Pre": pre, "TrackOpSet": track_ops}
    cfg = cfg_text("MCSpec", consts, invariants=LIB_INV, properties=LIB_PROPS, view="MCView",
                   action_constraints=["Emit"])
    tag = tag or "mcforest_%s_%d_%d_%d_%s_%s_%s_%s" % (fam, max_crates, max_ops, max_tracks, crate_ops, pre, track_ops, len(opnames))
    rc, outp = run_tlc("MCForest", cfg, wd, tag, workers=workers, timeout=timeout)
    res = parse_tlc(outp)
    if res["fatal"] or rc not in (0,) or not res["ok"]:
        if res["errors"] and not res["fatal"]:
            # the *model* violates one of its own properties: that is a defect of the specification
            raise ToolFailure("model instance %s violates its own properties: %s (see %s)" % (tag, res["errors"][:2], outp))
        raise ToolFailure("TLC failed on %s rc=%s %s (see %s)" % (tag, rc, res["fatal"], outp))
    edges, stats = paths.read_edges(outp)
    scripts = paths.scripts_from_edges(edges)
    stats["edges"] = len(edges)
    stats["instance"] = tag
    stats["constants"] = {k: (sorted(v) if isinstance(v, set) else v) for k, v in consts.items()}
    return stats, scripts


def sim_forest(wd, fam, max_crates, depth, seed, num=100, max_tracks=0, with_tracks=False, valid=("a", "b", "c", "d"),
               invalid=("", "x;y"), opnames=("a", "b", "c", "", "x;y"), crate_ops="all", pre="none", track_ops="all",
               limit=400, timeout=300, tag=None):
    """Random long histories of the specification (tlc -simulate).  Returns (stats, scripts)."""
    pre_len = {"none": 0, "diverge": 10, "rich": 13}[pre]
    consts = {"Family": fam, "ValidNames": set(valid), "InvalidNames": set(invalid),
              "DupPolicy": "reject" if fam == "v2" else "accept", "PosPolicy": "tail",
              "MaxCrates": max_crates, "MaxTracks": max_tracks, "MaxOps": pre_len + depth, "WithTracks": with_tracks,
              "OpNames": set(opnames), "CrateOpSet": crate_ops, "Pre": pre, "TrackOpSet": track_ops}
    cfg = cfg_text("MCSpec", consts, constraints=["SimEmit"])
    tag = tag or "sim_%s_%d_%d_%s_%s_%s_s%d" % (fam, max_crates, depth, crate_ops, pre, track_ops, seed)
    rc, outp = run_tlc("MCForest", cfg, wd, tag, workers=4, timeout=timeout,
                       simulate="num=%d" % max(1, num // 4), extra=["-depth", str(pre_len + depth + 1), "-seed", str(seed)])
    hists = []
    seen = set()
    fatal = None
    with open(outp, errors="replace") as fh:
        for line in fh:
            if line.startswith('"HIST '):
                if line in seen:
                    continue
                seen.add(line)
                hists.append(json.loads(json.loads(line)[5:]))
            elif line.startswith("Error:") or "Parsing or semantic analysis failed" in line:
                fatal = line.strip()
    if fatal or not hists:
        raise ToolFailure("tlc -simulate failed on %s rc=%s %s (see %s)" % (tag, rc, fatal, outp))
    import random as _r
    rr = _r.Random(seed)
    rr.shuffle(hists)
    hists = hists[:limit]
    scripts = [[paths.to_op(a) for a in h] for h in hists]
    stats = {"instance": tag, "mode": "simulate", "histories": len(scripts), "depth": depth,
             "constants": {k: (sorted(v) if isinstance(v, set) else v) for k, v in consts.items()}}
    return stats, scripts


# ----------------------------------------------------------------------------- driving the implementation
def split_scripts(scripts, n):
    """Round-robin split into n non-empty parts."""
    parts = [[] for _ in range(n)]
    for i, s in enumerate(scripts):
        parts[i % n].append(s)
    return [p for p in parts if p]


def write_script_file(path, scripts, schema, names, mode="mem", sid0=0, flags=None):
    with open(path, "w") as fh:
        for i, ops in enumerate(scripts):
            hdr = {"op": "reset", "schema": schema, "mode": mode, "names": names, "sid": "s%d" % (sid0 + i)}
            if flags:
                hdr.update(flags)
            fh.write(json.dumps(hdr) + "\n")
            for op in ops:
                fh.write(json.dumps(op) + "\n")


def run_driver(binary, script, trace, watchdog=10, timeout=600, max_restarts=50):
    """Runs a driver over a script file; restarts after the execution in which it died or hung.
    Returns list of (kind, record) for died/hang events."""
    events = []
    skip = 0
    restarts = 0
    while True:
        cmd = [binary, script, trace, "--watchdog", str(watchdog)]
        if skip:
            cmd += ["--skip", str(skip)]
        env = dict(os.environ)
        env.setdefault("ASAN_OPTIONS", "detect_leaks=0:abort_on_error=0:exitcode=99:allocator_may_return_null=1")
        env.setdefault("UBSAN_OPTIONS", "print_stacktrace=1:halt_on_error=1:exitcode=99")
        try:
            r = subprocess.run(cmd, stdout=subprocess.PIPE, stderr=subprocess.PIPE, timeout=timeout, env=env)
            rc = r.returncode
            err = r.stderr.decode(errors="replace")
        except subprocess.TimeoutExpired:
            rc = 124
            err = "driver timeout"
        if rc == 0:
            return events
        if rc == 2:
            raise ToolFailure("driver usage/IO failure: " + err[-500:])
        # died / hung / sanitizer: find the execution number of the last reset in the trace
        last_x = 0
        last_line = ""
        with open(trace, errors="replace") as fh:
            for line in fh:
                if line.startswith('{"e":"reset"') or '"e":"reset"' in line[:40]:
                    try:
                        last_x = json.loads(line).get("x", last_x)
                    except Exception:
                        pass
                last_line = line
        kind = "hang" if rc == 97 else ("san" if rc == 99 else "died")
        # make sure the trace ends with a marker record even if the process was killed hard
        if not ('"e":"died"' in last_line or '"e":"hang"' in last_line):
            with open(trace, "a") as fh:
                if last_line and not last_line.endswith("\n"):
                    fh.write("\n")
                fh.write(json.dumps({"e": "died", "sig": -1, "in": "?", "rc": rc, "why": kind}) + "\n")
        events.append({"kind": kind, "rc": rc, "exec": last_x, "stderr": err[-4000:]})
        restarts += 1
        if restarts > max_restarts or last_x <= skip:
            if last_x <= skip:
                skip += 1
            if restarts > max_restarts:
                return events
        else:
            skip = last_x
        if rc == 124:
            return events


def drive_parallel(binary, wd, scripts, schema, names, mode="mem", flags=None, shards=NCPU, watchdog=10, tag="g"):
    """Splits scripts into shards, runs the driver on each in parallel.  Returns list of shard dicts."""
    parts = split_scripts(scripts, shards)
    out = []
    for i, p in enumerate(parts):
        sp = os.path.join(wd, "%s_%s_%d.script.ndjson" % (tag, schema, i))
        tp = os.path.join(wd, "%s_%s_%d.trace.ndjson" % (tag, schema, i))
        write_script_file(sp, p, schema, names, mode, sid0=i * 100000, flags=flags)
        out.append({"script": sp, "trace": tp, "n": len(p), "schema": schema, "scripts": p})

    def go(sh):
        sh["events"] = run_driver(binary, sh["script"], sh["trace"], watchdog=watchdog)
        return sh

    with ThreadPoolExecutor(shards) as ex:
        return list(ex.map(go, out))


# ----------------------------------------------------------------------------- trace validation
def trace_cfg(spec="TSpec", invariants=LIB_INV, properties=LIB_PROPS, extra_constants=None, valid=VALID_NAMES,
              invalid=INVALID_NAMES):
    consts = {"ValidNames": set(valid), "InvalidNames": set(invalid), "DupPolicy": "any", "PosPolicy": "any"}
    if extra_constants:
        consts.update(extra_constants)
    return cfg_text(spec, consts, invariants=invariants, properties=properties, action_constraints=["KfNote"],
                    postcondition="Accepted")


def v2store_cfg():
    """cfg of TraceV2Store: the rows predicted by V2Rows must be the rows found in the database."""
    return cfg_text("TSpec", {"ValidNames": set(VALID_NAMES), "InvalidNames": set(INVALID_NAMES), "Variant": "current"},
                    postcondition="Accepted")


def txn_also():
    """TraceTxn: the statement log of every complete call must form at most one atomic unit."""
    return [("TraceTxn", cfg_text("TSpec", {}, postcondition="Accepted").replace("CONSTANTS\n", ""))]


def v2store_also(schema):
    return [("TraceV2Store", v2store_cfg())] if family(schema) == "v2" else []


def store_also(schema):
    """The storage-layer trace specification of the schema's family (rows predicted = rows found)."""
    return [("TraceV2Store" if family(schema) == "v2" else "TraceV1Store", v2store_cfg())]


def load_trace(path):
    recs = []
    with open(path, errors="replace") as fh:
        for line in fh:
            line = line.strip()
            if not line:
                continue
            try:
                recs.append(json.loads(line))
            except Exception:
                recs.append({"e": "garbled", "text": line[:200]})
    return recs


def validate_trace(module, cfg, trace_path, wd, tag, max_rejections=3, timeout=2700):
    """Validates one trace file (many executions) against a trace spec.

    Returns dict(accepted=#executions, rejected=[{first_record, exec_records, reason}], kf=[names], records=n).
    After a rejection the offending execution is cut out and validation restarts at the next reset,
    so the rest of the trace is still checked."""
    recs = load_trace(trace_path)
    # executions: index ranges [start, end)
    starts = [i for i, r in enumerate(recs) if r.get("e") == "reset"]
    bounds = list(zip(starts, starts[1:] + [len(recs)]))
    result = {"accepted": 0, "rejected": [], "kf": [], "records": len(recs), "executions": len(bounds), "tlc_states": 0,
              "incomplete": False}
    pos = 0  # index into bounds of first execution still to validate
    round_no = 0
    raw_lines = None
    while pos < len(bounds):
        round_no += 1
        lo = bounds[pos][0]
        if lo == 0 and round_no == 1:
            tp = trace_path
        else:
            if raw_lines is None:
                with open(trace_path, errors="replace") as fh:
                    raw_lines = [x for x in fh if x.strip()]
            tp = os.path.join(wd, "%s.r%d.ndjson" % (tag, round_no))
            with open(tp, "w") as fh:
                fh.writelines(raw_lines[lo:])
        rc, outp = run_tlc(module, cfg, wd, "%s.v%d" % (tag, round_no), workers=1, timeout=timeout, env={"TRACE": tp})
        res = parse_tlc(outp)
        n = len(recs) - lo
        if res["fatal"] or res["depth"] is None and not res["errors"]:
            raise ToolFailure("TLC failed validating %s: rc=%s %s (see %s)" % (trace_path, rc, res["fatal"], outp))
        result["tlc_states"] += res["states"] or 0
        for (l, name) in res["kf"]:
            result["kf"].append({"record": lo + l - 1, "kf": name})
        prop_errors = [e for e in res["errors"] if "Postcondition" not in e and "behavior up to" not in e]
        if res["ok"] or (not prop_errors and res["depth"] is not None and res["depth"] - 1 >= n):
            result["accepted"] += len(bounds) - pos - 0
            break
        # rejection: find the first record that could not be explained
        if prop_errors:
            # an invariant / action property of the specification is false in a trace state: the
            # offending step consumed record max_l - 1 (1-based within this TLC run)
            k = max(res["max_l"] - 1, 1)
            reason = prop_errors[0]
        else:
            k = res["depth"]  # depth-1 records consumed, record `depth` failed
            reason = "no action of the specification explains this record"
        gi = lo + k - 1  # global 0-based index
        # which execution?
        e = pos
        while e + 1 < len(bounds) and bounds[e + 1][0] <= gi:
            e += 1
        result["accepted"] += e - pos
        ex_lo, ex_hi = bounds[e]
        result["rejected"].append({"record_index": gi, "exec_index": e, "exec_range": [ex_lo, ex_hi], "reason": reason,
                                   "tlc_out": outp, "record": recs[gi] if gi < len(recs) else None})
        pos = e + 1
        if len(result["rejected"]) >= max_rejections:
            result["incomplete"] = pos < len(bounds)
            break
    return result


def validate_parallel(module, cfg, shards, wd, max_rejections=3, jobs=NCPU):
    def go(sh):
        tag = os.path.basename(sh["trace"]).replace(".trace.ndjson", "")
        sh["val"] = validate_trace(module, cfg, sh["trace"], wd, tag, max_rejections=max_rejections)
        return sh

    with ThreadPoolExecutor(jobs) as ex:
        return list(ex.map(go, shards))


# ----------------------------------------------------------------------------- known findings
def load_known_findings():
    p = os.path.join(VERIF, "known_findings.jsonl")
    out = []
    if os.path.exists(p):
        for line in open(p):
            line = line.strip()
            if line and not line.startswith("#") and not line.startswith("fixed:"):
                out.append(json.loads(line))
    return out


# ----------------------------------------------------------------------------- evidence
def write_evidence(prop, tier, seed, level, coverage, wall, violations, assumptions=(), extra=None):
    os.makedirs(EVID, exist_ok=True)
    ev = {"property_id": prop, "tier": tier, "seed": int(seed), "level": level, "coverage": coverage,
          "assumptions": list(assumptions), "wall_s": round(wall, 2), "violations": int(violations)}
    if extra:
        ev.update(extra)
    with open(os.path.join(EVID, prop + ".json"), "w") as fh:
        json.dump(ev, fh, indent=1, ensure_ascii=False)
    return ev


def replay_file(prop, n, payload):
    d = os.path.join(BUILD, "replay")
    os.makedirs(d, exist_ok=True)
    p = os.path.join(d, "%s-%d.json" % (prop, n))
    with open(p, "w") as fh:
        json.dump(payload, fh, indent=1, ensure_ascii=False)
    return p
