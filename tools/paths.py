#!/usr/bin/env python3
"""Turn the transitions printed by an MC instance (ACTION_CONSTRAINT Emit) into operation scripts.

Every generated transition arrives as the complete call sequence that reaches it (ghost `hist`,
hidden by the VIEW, so TLC keeps the shortest one per state).  State-changing transitions become
scripts (a script that is a proper prefix of another is dropped: its last step is validated as a
step of the longer one); transitions that leave the abstract state unchanged (rejections, no-ops)
are chained into one script that passes through their source state, right after reaching it.
"""
import json
import sys


def read_edges(path):
    edges = []
    stats = {}
    with open(path, errors="replace") as fh:
        for line in fh:
            if line.startswith('"SCRIPT '):
                s = json.loads(line)
                e = json.loads(s[7:])
                edges.append(e)
                # per-action counts of the generated transitions (vacuity review: an operation / outcome class that never
                # occurs in the bounded model was never exercised)
                if e.get("h"):
                    a = e["h"][-1]
                    k = "%s:%s" % (a.get("op"), a.get("out"))
                    oc = stats.setdefault("op_counts", {})
                    oc[k] = oc.get(k, 0) + 1
            elif "states generated" in line and "distinct" in line and line[0].isdigit():
                w = line.split()
                stats["transitions"] = int(w[0])
                stats["states"] = int(w[3])
            elif "The depth of the complete state graph search is" in line:
                stats["depth"] = int(line.strip().rstrip(".").split()[-1])
    return edges, stats


def to_op(a):
    op = {"op": a["op"], "exp": a["out"]}
    if a.get("c"):
        op["c"] = a["c"]
    if a["op"] == "set_parent":
        op["p"] = a["p"]
    if a["op"] in ("create_root", "create_root_after", "create_sub", "create_sub_after", "set_name"):
        op["n"] = a["n"]
    if a.get("t"):
        op["t"] = a["t"]
    if a.get("a"):
        op["after"] = a["a"]
    return op


def scripts_from_edges(edges, conv=None):
    conv = conv or to_op
    """Returns a list of scripts; a script is a list of driver ops."""
    def key(h):
        return tuple(json.dumps(x, sort_keys=True) for x in h)

    changing = {}
    loops = {}  # prefix key -> list of loop ops
    for e in edges:
        h = e["h"]
        k = key(h)
        if e["loop"]:
            loops.setdefault(k[:-1], {})[k[-1]] = h[-1]
        else:
            changing[k] = h
    prefixes = set()
    for k in changing:
        for i in range(1, len(k)):
            prefixes.add(k[:i])
    maximal = sorted(k for k in changing if k not in prefixes)
    # loop chains whose source state is not on any maximal script get their own script
    used = set()
    scripts = []
    for k in maximal:
        h = changing[k]
        ops = []
        for i in range(len(k) + 1):
            pk = k[:i]
            if pk in loops and pk not in used:
                used.add(pk)
                ops.extend(conv(a) for a in loops[pk].values())
            if i < len(k):
                ops.append(conv(h[i]))
        scripts.append(ops)
    for pk, ls in sorted(loops.items()):
        if pk in used:
            continue
        # the prefix is itself a recorded (changing) path or the empty path
        pre = [] if not pk else [json.loads(x) for x in pk]
        ops = [conv(a) for a in pre] + [conv(a) for a in ls.values()]
        scripts.append(ops)
    return scripts


def write_scripts(scripts, out, schema, names, mode="mem", sid_prefix="G", **flags):
    n = 0
    with open(out, "w") as fh:
        for i, ops in enumerate(scripts):
            hdr = {"op": "reset", "schema": schema, "mode": mode, "names": names, "sid": "%s%d" % (sid_prefix, i)}
            hdr.update(flags)
            fh.write(json.dumps(hdr) + "\n")
            for op in ops:
                fh.write(json.dumps(op) + "\n")
                n += 1
    return n


if __name__ == "__main__":
    edges, stats = read_edges(sys.argv[1])
    sc = scripts_from_edges(edges)
    print(stats, len(edges), "edges ->", len(sc), "scripts,", sum(len(s) for s in sc), "calls")
    if len(sys.argv) > 3:
        print(write_scripts(sc, sys.argv[2], sys.argv[3], ["a", "b", "", "x;y"]))
