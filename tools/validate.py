#!/usr/bin/env python3
"""Validates MANIFEST.json and evidence/*.json against the schemas in /root/.vp (needs jsonschema: run with python3-vt)."""
import glob
import json
import os
import sys

import jsonschema

VERIF = os.path.dirname(os.path.dirname(os.path.abspath(__file__)))
bad = 0
m = json.load(open(os.path.join(VERIF, "MANIFEST.json")))
try:
    jsonschema.validate(m, json.load(open("/root/.vp/MANIFEST.schema.json")))
    print("MANIFEST.json ok:", len(m["checks"]), "checks,", len(m.get("not_applicable", [])), "not applicable")
except jsonschema.ValidationError as e:
    bad += 1
    print("MANIFEST.json INVALID:", e.message[:300], list(e.path))
es = json.load(open("/root/.vp/EVIDENCE.schema.json"))
claimed = {c["property_id"] for c in m["checks"]}
for f in sorted(glob.glob(os.path.join(VERIF, "evidence", "*.json"))):
    try:
        jsonschema.validate(json.load(open(f)), es)
        print(os.path.basename(f), "ok")
    except jsonschema.ValidationError as e:
        bad += 1
        print(os.path.basename(f), "INVALID:", e.message[:300], list(e.path))
have = {os.path.basename(f)[:-5] for f in glob.glob(os.path.join(VERIF, "evidence", "*.json"))}
print("claimed without evidence file:", sorted(claimed - have))
props = {json.loads(l)["id"] for l in open(os.path.join(VERIF, "properties.jsonl"))}
na = {x["property_id"] for x in m.get("not_applicable", [])}
print("properties neither claimed nor not_applicable:", sorted(props - claimed - na))
sys.exit(1 if bad else 0)
