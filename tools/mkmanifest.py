#!/usr/bin/env python3
"""Writes /verif/MANIFEST.json from the table below (one place to keep it consistent)."""
import json
import os

VERIF = os.path.dirname(os.path.dirname(os.path.abspath(__file__)))

TRUST = ("TLC (tla2tools 1.8.0) and its Json module; the harness driver's rendering of API results into JSON; "
         "g++/libstdc++; system SQLite 3.40.1 and zlib")

CHECKS = {
    "C07": dict(
        category="model_checking",
        text="Library.tla states the crate forest, its operations with explicit outcomes and the observation function of "
             "every structural query; TLC proves ForestInv/QueriesAgree/RejectNoEffect/NoResurrection/OrderStable on the "
             "bounded instance and prints every transition; every transition is replayed through the real library "
             "(quick: 9 schemas incl. two that rotate with the seed, thorough: all 18; half of the workloads with multi-byte UTF-8 names) and TLC validates each recorded call + complete observation against "
             "the same actions. A change that makes any query disagree with the forest, lets a rejected call have an "
             "effect, or accepts a cycle is a trace rejection.",
        design="§7 C07",
        note="bounded: <= 4-5 crates, <= 5 calls, names {a,b,'',x;y}; sibling order only constrained for 2.x; " + TRUST,
        technique="TLA+ spec (Library.tla) + TLC model checking + replay of every model transition + TLC trace validation"),
    "C08": dict(
        category="model_checking",
        text="Membership part of Library.tla (mem as insertion-ordered duplicate-free sequences, MemInv, MemFrame); all "
             "transitions of the bounded graph over track/crate creation and removal, add/remove/clear are replayed from a "
             "preamble that makes crate, track and membership-row ids diverge; crate.tracks(), containing_crates() (1.x) and "
             "tracks() are validated by TLC after every call.",
        design="§7 C08",
        note="bounded: 2 extra crates, 2 extra tracks, 4-5 calls after the preamble; " + TRUST,
        technique="TLA+ spec + TLC model checking + replay of every transition + TLC trace validation"),
    "C09": dict(
        category="model_checking",
        text="Sibling order (kids) and entry order (mem) of Library.tla for the 2.x family: create_*_after lands immediately "
             "after the given sibling, un-positioned create/move lands among the new siblings, OrderStable on every step; all "
             "transitions of the bounded graphs replayed on all seven 2.x schemas with root_crates()/children()/tracks() "
             "compared as sequences by TLC. V2Store.tla models the stored rows (Playlist / PlaylistEntity with nextListId / "
             "nextEntityId chains, triggers and UNIQUE constraints folded into statements, BEGIN/COMMIT, Fail(k)); TLC checks the chain "
             "invariants and refinement into Library.tla; TraceV2Store requires the rows an independent reader finds after every call of "
             "random histories to be exactly the rows the model predicts.",
        design="§7 C09, §13.6",
        note="bounded as C07/C08; the 2.x table API level (playlist_table / playlist_entity_table) is covered by C18's check; " + TRUST,
        technique="TLA+ spec + TLC model checking + replay of every transition + TLC trace validation"),
    "C16": dict(
        category="model_checking",
        text="Library.tla has Observe/Reopen actions that leave the state unchanged; the trace spec (NoWrite) requires of the "
             "observation phase after every call: no non-read-only statement stepped (link-level sqlite3 shim), "
             "sqlite3_total_changes unchanged, digest of every table unchanged, repeated observation identical, and on disk "
             "directory listing + file contents unchanged, including database_exists() and load_database(). Track level: all getters "
             "and snapshot() of live tracks and of handles to removed tracks under the same rule (TraceTrackFields!NoWrite), also on 2.x "
             "tracks holding foreign blobs planted behind the library's back (TraceTrackBlobs: the planted payload must still be there). "
             "Table level: every read function of track_table (48 per-column getters, get, exists, all_ids), playlist_table, "
             "playlist_entity_table, change_log_table and information_table under the same rule (TraceTableApi, TraceV2Table, "
             "TraceChangeLog), and the high-level observers (crate and track handles) on the stores only the table API can build "
             "(entities of tracks that have no row, rows with NULLs create_track() never writes).",
        design="§7 C16, §13.10, §13.15",
        note="observers = all public getters/listings/lookups of database, crate, track used by the driver; " + TRUST,
        technique="TLA+ spec + TLC trace validation of instrumented observation phases (statement-level shim)"),
}

CHECKS.update({
    "C10": dict(
        category="model_checking",
        text="Library.tla's Reopen action (UNCHANGED state); histories from the bounded graphs are executed on libraries created on "
             "disk and after EVERY call all handles are released, database_exists() and load_database() are called and the complete "
             "observation is validated by TLC against the abstract state, together with the reported schema (sentinel-initialised "
             "out-parameter). Whole sessions on one connection with reopen points, random long histories, and (MultiConn.tla, invariant "
             "Coherent) histories in which a seed-chosen half of the calls goes through a SECOND database object loaded from the same "
             "directory while the first stays open: both connections are observed after every call and both observations must be the "
             "shared abstract state.",
        design="§7 C10, §13.16",
        note="closing at every prefix of every replayed history; crate/membership/track-existence state here, track fields in C01/C06; " + TRUST,
        technique="TLA+ spec (Library.tla, MultiConn.tla) + TLC model checking + TLC trace validation of reopen / two-connection executions on disk"),
    "C11": dict(
        category="model_checking",
        text="RawStore.tla states, per schema family, how the raw tables must store the abstract state (three redundant crate "
             "encodings of 1.x, sibling/entity chains of 2.x, derived track columns, no dangling rows, trackCount) plus integrity_check, "
             "foreign_key_check and verify(); an independent reader dumps the rows after every call and TLC evaluates the invariant "
             "in every trace state. For the 2.x family the same traces are also validated against the storage-layer model "
             "(TraceV2Store): ids, titles, parents, next links and AUTOINCREMENT counters must be exactly the predicted ones.",
        design="§7 C11, §13.6",
        note="raw rows read through the plain SQLite C API on the library's own connection; blobs are judged by C02/C04; " + TRUST,
        technique="TLA+ store invariants (RawStore.tla) evaluated by TLC on raw rows logged after every call"),
    "C14": dict(
        category="fault_enumeration",
        text="Library.tla's Failed action (throw, UNCHANGED state); for every call of every replayed history, every position k of a "
             "failing SQL statement is enumerated exhaustively by the link-level shim (k = 1..n, reads/writes/BEGIN/COMMIT); TLC "
             "validates that each faulted attempt throws, changes neither the observation nor the table digest, and that the "
             "history continues to conform. On the model side V2Store.tla injects a failure at every statement of every call "
             "and TLC checks that the abstraction takes a Library!Failed step (refinement); on 2.x traces TraceV2Store requires a "
             "faulted attempt to leave exactly the rows it found. Crash points: on libraries on disk every call is also attempted in a "
             "forked process that dies right before its k-th statement (all k); the reloaded library must show the unchanged state "
             "or - once the tables differ - the complete effect of the call (TraceLibrary 'crash' records). TraceTxn states the "
             "transaction discipline (at most one atomic unit per call) on the statement log of every complete call. Lock sweep "
             "(Contention.tla): every call is also attempted while another connection takes an EXCLUSIVE / RESERVED / SHARED lock right "
             "before its k-th statement, so that SQLite itself refuses statements with SQLITE_BUSY; TraceContention predicts every "
             "statement result from the locking protocol and requires stop-at-refusal, rollback, throw, no lock or transaction left; "
             "the statement programs seen are model-checked under all schedules of the other connection (AllOrNothing, AtRest, Usable, "
             "termination). Syscall-level crash points (CommitProtocol.tla): the process dies right before the n-th file-modifying "
             "system call of SQLite's VFS; TraceCommit requires the files found changed to be an outcome the commit-protocol model "
             "predicts.",
        design="§7 C14, §13.6, §13.8, §13.11, §13.14, §13.17",
        note="a failing statement has no effect of its own; ROLLBACK (the recovery action) is not failed; " + TRUST,
        technique="TLA+ specs (Library, V1Store/V2Store, Contention, CommitProtocol) + TLC model checking + exhaustive statement-level fault, lock and crash-point enumeration on the real library + TLC trace validation"),
})

CHECKS.update({
    "C13": dict(
        category="model_checking",
        text="SchemaDetect.tla is the decision table (18 supported triples, 1.18.0 variant marker, four layout presence "
             "combinations); TLC checks the table's own properties and emits every state of the box around the supported "
             "versions; each state is materialised as a directory and load_database (with two sentinel values of the "
             "out-parameter), database_exists and create_or_load_database are validated by TLC against the table; database files that are "
             "present but empty count as their layout being present.",
        design="§7 C13",
        note="box: major 0..4 x 19 minors x patch 0..4 x 2 variants x 4 presence combinations, plus seed-chosen far triples; "
             "cross-layout cases are loose by design; " + TRUST,
        technique="TLA+ decision table + TLC enumeration of the box + replay of every state + TLC trace validation"),
    "C19": dict(
        category="proof",
        text="Waveform.tla defines the quantisation number and both extents over the integers; WaveformProofs.tla proves Covers, "
             "Minimal, EmptyIff, the overview span bracket and monotonicity for ALL naturals with TLAPS; TLC re-evaluates them on "
             "a box; the compiled functions are bound to the specification differentially: every box state plus seed-chosen "
             "points is executed and TLC (31-bit) / Apalache (up to 2^62, unbounded integers) validate each result against the "
             "definitions.",
        design="§7 C19",
        note="floor(rate) and the integer rendering of doubles are done by the harness; above 2^53 the overview samples-per-entry "
             "is required to be a nearest 53-bit value; " + TRUST + "; tlapm back-ends Z3/Zenon/Isabelle; Apalache 0.58",
        technique="TLAPS proof of the arithmetic + TLC box check + differential trace validation (TLC, Apalache for wide integers)"),
    "C20": dict(
        category="model_checking",
        text="Beatgrid.tla states the property as predicates over input and output (PostOK, Normalisable, MustReject) and a model "
             "of the algorithm over exact integer arithmetic; TLC builds every small strictly increasing grid, checks the model "
             "against the property (incl. idempotence) and emits each (grid, sample count); the compiled function is run on all "
             "of them plus seed-chosen grids of up to 64 markers, and TLC validates result, rejection and fixed point.",
        design="§7 C20",
        note="only grids with integer-valued tempi are compared (exact double arithmetic); rounding for other tempi is outside "
             "TLA+; " + TRUST,
        technique="TLA+ spec + TLC enumeration of all small grids + replay + TLC trace validation of results"),
})

CHECKS.update({
    "C01": dict(
        category="model_checking",
        text="TrackFields.tla gives, per snapshot field, the normal form a stored value must read back as (padding to eight slots, "
             "whole-second durations and timestamps, clamped ratings, the 0 / -1 sentinels) and the snapshots a schema cannot hold; "
             "MCTrackFields enumerates the value classes of every field and checks on the model that normal forms are fixed points; every "
             "class is written through create_track and update (all ordered pairs of base snapshots, seed-chosen arbitrary snapshots) on "
             "the real library and TLC validates every read-back snapshot (SnapOK), the fixed-point step (identical snapshot after writing "
             "the read-back one) and rejection without effect.",
        design="§7 C01, §13",
        note="values are opaque tokens (text / bit patterns / digests); the 2.x waveform (1024-point overview) is judged by the fixed "
             "point only; a rejected write is always acceptable; " + TRUST,
        technique="TLA+ spec (TrackFields.tla) + TLC enumeration of value classes + replay + relational TLC trace validation"),
    "C06": dict(
        category="model_checking",
        text="TraceTrackFields is a relational state machine over the snapshots of all tracks: a setter call must make the addressed "
             "field read back as set (FieldOK) and leave every other field of that track and every field of every other track unchanged; "
             "all 25 getters, the per-slot getters and snapshot() must agree, filename()/file_extension() must follow the path. Every "
             "setter with every value class, seed-chosen pairs and 40-step random setter sequences over three tracks are executed.",
        design="§7 C06, §13",
        note="a setter that throws must change nothing; no getter exists for file_bytes; " + TRUST,
        technique="TLA+ spec + TLC-enumerated setter sequences + replay + relational TLC trace validation after every call"),
    "C02": dict(
        category="model_checking",
        text="EngineFormat.tla is an independent implementation of the eleven blob layouts (field order, widths, endianness, count "
             "fields, frame); every value of MCEngineFormat and seed-chosen values are encoded by the library and TLC compares the "
             "un-framed payload and the 4-byte prefix with the specification's encoder; conversely payloads produced by the specification's "
             "encoder are decoded by the library and TLC compares the decoded value.",
        design="§7 C02",
        note="the layouts were written once against the pinned encoders (no format documentation exists in the repository); framing in the "
             "harness uses plain zlib; " + TRUST,
        technique="TLA+ spec of the binary layouts + TLC enumeration + differential TLC trace validation in both directions"),
    "C03": dict(
        category="model_checking",
        text="EngineFormat!Encodable states which values each format can hold; for every enumerated and seed-chosen value (arbitrary double "
             "bit patterns, labels of 0..300 bytes, 0..12 entries, larger grids / waveforms, payload lengths on and next to multiples of "
             "the 16 KiB chunk of the compression loop) TLC requires: encodable => encode and decode succeed and give the value back (-1 "
             "offsets of 1.x being the only values that read back absent); not encodable => the encoder throws. DeflateLoop.tla models "
             "the chunk loop of zlib_compress (Z_FINISH only after all input was handed over, termination).",
        design="§7 C03",
        note="1.x overview waveforms are generated with opacity 255 (the format stores none); " + TRUST,
        technique="TLA+ spec (Encodable / Norm) + TLC enumeration + TLC trace validation of encode-decode round trips"),
    "C04": dict(
        category="model_checking",
        text="Foreign payloads for the five 2.x blob types are produced by the specification's encoder with contents the library never "
             "writes (odd counts, flag bytes 0..255, unknown fields, different grids, trailing bytes) and by seed-chosen mutation; the "
             "library decodes and re-encodes them and TLC requires byte-for-byte equality, the boolean main-cue-adjusted byte alone being "
             "normalised. Setter part (TraceTrackBlobs): such blobs are stored into 2.x tracks behind the library's back, single-field "
             "setters are called, and TLC requires untouched blob columns to stay byte-identical on all tracks and the addressed column "
             "to equal Enc(kind, value with only the addressed field changed).",
        design="§7 C04, §13.7",
        note="for key, sample count, beat grid and waveform setters only the bytes outside the field are compared; " + TRUST,
        technique="TLA+ spec of the layouts + spec-generated foreign blobs + TLC trace validation of decode/re-encode and of setters on "
                  "tracks holding foreign blobs"),
    "C05": dict(
        category="exploration",
        text="InflateLoop.tla models the chunk loop of zlib_uncompress against an abstract inflate; TLC proves hand-off safety and "
             "termination under fairness on small instances; DecoderInputs.tla enumerates truncations, boundary classes of every embedded "
             "count field and byte corruptions per decoder; all are fed to the decoders in the ASan+UBSan build; TLC validates outcomes and "
             "recorded zlib hand-offs (no stall, regions addressable); crashes and sanitizer reports are reported directly.",
        design="§7 C05, §9",
        note="memory safety is observed by sanitizers, not decided by TLA+; libz itself is uninstrumented (the shim checks the regions); "
             "no coverage-guided fuzzing; " + TRUST,
        technique="TLA+ loop model (TLC, liveness) + spec-derived input classes + sanitizer replay + TLC trace validation of hand-offs"),
    "C15": dict(
        category="exploration",
        text="The histories of the Library and TrackFields models are replayed in the ASan+UBSan+_GLIBCXX_ASSERTIONS build, each "
             "followed by a probe battery outside the modelled domain (stale handles, nonexistent ids, foreign crates, indices -1..9 and "
             "+-2^31, 12-slot lists, 300-byte labels, extreme numbers, waveform without rate); TLC (TProbe) validates outcome classes and "
             "the stale-handle contract; any death, sanitizer report or hang is reported.",
        design="§7 C15, §9",
        note="UB that neither crashes nor trips a sanitizer is invisible; " + TRUST,
        technique="TLA+ call-domain model + sanitizer replay of model histories and probe batteries + TLC trace validation"),
    "C17": dict(
        category="model_checking",
        text="SchemaVerify.tla defines every single-element mutation of a schema inventory and that each is a deviation; for every "
             "supported schema TLC enumerates the mutations of the inventory of a freshly created library, each mutant is materialised "
             "with an independent SQLite binding, load_database + verify() runs on it, and TLC requires database_inconsistency; created, "
             "copied and all 57 reference libraries must be accepted.",
        design="§7 C17",
        note="mutations SQLite cannot express on a schema are counted, not judged; a mutant that cannot be loaded counts as reported; " + TRUST
             + "; Python's sqlite3 module",
        technique="TLA+ mutation model + TLC enumeration + materialised mutants + TLC trace validation of verify() verdicts"),
    "C18": dict(
        category="model_checking",
        text="TableApi.tla states the row-store contract (RowOK, SetColOK, database-maintained columns, errors for missing rows); every "
             "column of the Track table is written alone and through whole rows whose columns hold pairwise distinct values, with every "
             "optional present and absent, plus all short operation sequences from MCTableApi, on all seven 2.x schemas; TLC validates "
             "rows and per-column accessors after every call. playlist_table / playlist_entity_table: every transition of MCV2Table "
             "(add / update at every legal parent and position, remove, add_back, remove, clear) is executed and TraceV2Table requires "
             "outcome, stored rows and every read function to be what the storage-layer model V2Rows predicts (the two boolean "
             "columns as written). change_log_table / information_table: every transition of ChangeLog.tla (track writes feeding the log "
             "through the schema's triggers, add, played-indicator update) and TraceChangeLog requires outcome, rows and all / after(k) / "
             "last / get to be what ChangeLog!Apply predicts. The stores the table API builds are also read through the high-level API "
             "(crates(), root_crates(), every crate's name / parent / children / descendants / tracks; tracks() and snapshot() of every "
             "row), which must be the same view of the predicted rows. An edge variant writes zero, the Unix epoch, the empty string and "
             "false into every column.",
        design="§7 C18, §13.9, §13.10, §13.15",
        note="time points at whole-second resolution; blob columns compared by digest; columns a schema lacks are unconstrained; " + TRUST,
        technique="TLA+ row-store spec + TLC-enumerated operation sequences + replay + relational TLC trace validation"),
})

CHECKS.update({
    "C12": dict(
        category="translation_validation",
        text="SchemaRef.tla defines a schema as an inventory (every table, index, view and trigger of every database file with its "
             "definition as a token sequence: whitespace, comments and identifier quoting dropped) and what a difference is; the "
             "specification of a schema creator is `Create(v) = Reference(v)`. Every one of the 57 reference dumps is hydrated, a library "
             "of the version it loads as is created on disk and as a temporary database, both inventories and the version rows are read "
             "through the plain SQLite C API, and TLC (TraceSchemaRef) requires equal inventories, equal version numbers, verify() = ok, "
             "equal version_name(), reload = the version requested, and agreement of all creations of one version. There are no "
             "transitions to explore here - TLC is the oracle of a translation validation, which is the honest level for a static "
             "artefact comparison.",
        design="§7 C12, §13.13",
        note="versions without a reference dump are listed, not judged; SQLite's own objects (sqlite_sequence, automatic indices) are "
             "not part of an inventory; the tokeniser (the abstraction function) lives in tools/schemaref.py; " + TRUST,
        technique="TLA+ inventory spec + trace validation of created-vs-reference schemas by TLC"),
})

NOT_YET = "check not built yet (work in progress)"
NA = {}

# round 4 (DESIGN.md 13.20): what each check gained, appended to its level text
ROUND4 = {
    "C01": " Round 4: the edges of the two unsigned 64-bit snapshot fields (2^63 - 1, 2^63, 2^64 - 1) are value classes.",
    "C05": " Round 4: all repeated count fields of a payload set to the same boundary class; signed boundary classes of the 1.x beat-index "
           "fields alone and in adjacent pairs.",
    "C07": " Round 4: after every probe call (handles to removed crates, crates of another library, ids of nothing) the forest invariants are "
           "evaluated on the observation alone (TraceLibrary!SelfForestOK).",
    "C09": " Round 4: V2Store!SpecInd - from EVERY store within the id bounds that satisfies RowsInv (reachable or not) one call with every "
           "injected failure keeps RowsInv, implies the Library invariants and is a Library step: the bound on the number of calls is gone.",
    "C10": " Round 4: track level - every base snapshot, every value class of every field and seed-chosen snapshots with a reload after every "
           "call (TraceTrackFields!TReopen).",
    "C11": " Round 4: foreign keys of every attached database checked by name; V1Store!SpecInd (induction step as for 2.x); the re-parenting "
           "graph over 4 crates with exact row prediction.",
    "C13": " Round 4: legacy layout without its companion p.db (64 directories).",
    "C15": " Round 4: INT64_MIN / -1 and rates beyond the 64-bit range in the probe battery; the re-parenting graph over 4 crates in the "
           "sanitizer build; forest invariants on the observation after every probe.",
    "C16": " Round 4: lookups by path with near-miss arguments (other separator, other case, padding, empty) are observers; stored paths with "
           "Windows separators and mixed case.",
    "C17": " Round 4: index terms that are expressions (appended / prepended) are mutation kinds.",
    "C18": " Round 4: the last-edit time of playlist rows on both sides of the epoch is written by add / update and read back through get().",
    "C20": " Round 4: extreme inputs (beat indices at the edges of int32, sample counts up to 2^63 - 1) in the sanitizer build, judged by "
           "TraceBeatgrid!ExtremeOK.",
}

# round 5 (DESIGN.md 13.21)
ROUND5 = {
    "C03": " Round 5: 1.x beat indices at the edges of int32 on both sides of the 32-bit gap field (EngineFormat!FitsGap); twin values "
           "(+0.0 against -0.0 in corresponding places of two parts of one value).",
    "C02": " Round 5: the same edge and twin classes as C03.",
    "C07": " Round 5: names that are SQL LIKE patterns or case variants of each other (driver flag nameset=like).",
    "C08": " Round 5: the bulk entry point add_tracks(first, last) as action Library!AddTracks; replayed histories with their runs of "
           "single adds folded into bulk calls whose ranges repeat tracks.",
    "C10": " Round 5: a one-hour track with its 378 000-entry high-resolution waveform (rows above 1 MB) across reloads.",
    "C11": " Round 5: calls through handles to removed tracks (every setter, whole-snapshot writes) judged by the stored rows "
           "(TraceTrackFields!RawSane in TProbe: no per-track row that names no stored track).",
    "C14": " Round 5: no call - completed, refused or failed - returns with a transaction open on its connection (autocommit state "
           "after every call).",
    "C15": " Round 5: the track-level probe battery carries raw rows (RawSane); the drivers' watchdog counts CPU time.",
    "C16": " Round 5: libraries whose database files another client switched to WAL journal mode; files compared between closed "
           "states around load + close.",
}


def main():
    props = [json.loads(l) for l in open(os.path.join(VERIF, "properties.jsonl"))]
    checks = []
    for pid, c in CHECKS.items():
        checks.append({
            "property_id": pid,
            "quick_cmd": "tools/check %s --tier quick" % pid,
            "thorough_cmd": "tools/check %s --tier thorough" % pid,
            "evidence_file": "/verif/evidence/%s.json" % pid,
            "replay_cmd_template": "tools/check %s --replay {path}" % pid,
            "engine": "tlc",
            "level_claimed": {"category": c["category"], "text": c["text"] + ROUND4.get(pid, "") + ROUND5.get(pid, ""),
                              "design_ref": c["design"] + (", §13.20" if pid in ROUND4 else "") + (", §13.21" if pid in ROUND5 else "")},
            "level_note": c["note"],
            "technique": c["technique"],
        })
    na = []
    for p in props:
        if p["id"] in CHECKS:
            continue
        na.append({"property_id": p["id"], "reason": NA.get(p["id"], NOT_YET)})
    m = {
        "version": 1,
        "setup_cmd": "tools/setup",
        "hooks": {
            "guard": "XSCO_LIBDJINTEROP_VERIF",
            "enable": "tools/vbuild.py compiles /repo/src/**/*.cpp from the working tree with -DXSCO_LIBDJINTEROP_VERIF and links "
                      "them statically with harness/shim.cpp using -Wl,--wrap=sqlite3_prepare_v2,--wrap=sqlite3_step,"
                      "--wrap=sqlite3_open_v2,--wrap=inflate,--wrap=deflate (no source hooks are needed at present)",
            "baseline_off_cmd": "cmake -G Ninja -B /repo/_build -S /repo && cmake --build /repo/_build -j16 && ctest --test-dir /repo/_build -j8 --timeout 900",
            "source_commits": [],
            "add_only": True,
        },
        "engines": [
            {"name": "tlc", "path": "/opt/veriftools/tla/tla2tools.jar", "serves_properties": sorted(CHECKS),
             "kind_free_text": "explicit-state model checker for TLA+; used for bounded model checking of the specs, for generating "
                               "every transition as a replayable script, and for trace validation of executions of the real library"},
            {"name": "tlapm", "path": "/opt/veriftools/tlapm/bin/tlapm", "serves_properties": ["C19"],
             "kind_free_text": "TLA+ proof system; checks spec/WaveformProofs.tla (the waveform-extent arithmetic for all naturals)"},
            {"name": "apalache", "path": "/opt/veriftools/apalache/bin/apalache-mc", "serves_properties": ["C19"],
             "kind_free_text": "symbolic model checker; validates waveform-extent results beyond TLC's 31-bit integers"},
        ],
        "checks": checks,
        "notes": "All checks: tools/check <ID> [--tier quick|thorough]; specs in spec/, harness in harness/, known findings in "
                 "known_findings.jsonl; see DESIGN.md.",
        "not_applicable": na,
    }
    with open(os.path.join(VERIF, "MANIFEST.json"), "w") as fh:
        json.dump(m, fh, indent=1)
    print("wrote MANIFEST.json with", len(checks), "checks,", len(na), "not applicable")


if __name__ == "__main__":
    main()
