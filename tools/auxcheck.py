#!/usr/bin/env python3
"""Change log and information row of the schema-2.x table API (spec/ChangeLog.tla): TLC checks the append-only /
completeness / read-consistency properties on the bounded instance (with and without a ChangeLog table) and prints every
transition; the sequences are executed by harness/auxdriver on every 2.x schema and TLC (TraceChangeLog) validates outcome,
stored rows, every read function and the no-write bookkeeping of the observation phase.  Used by C18 (rows written read back)
and C16 (table-API observers never modify the library)."""
import os
import random

import libcheck
import paths
import vbuild
import vlib
from vlib import log

VER = {s: [int(x) for x in s.split(".")] for s in vlib.V2}


def model(wd, tier, has):
    consts = {"HasLog": has, "MaxT": 2, "MaxOps": 4 if tier == "quick" else 5, "Values": {7}}
    cfg = vlib.cfg_text("MCSpec", consts, invariants=["LogInv", "Complete", "ReadsInv"], properties=["AppendOnly"], view="MCView",
                        action_constraints=["Emit"])
    tag = "mcchangelog_%s" % ("log" if has else "nolog")
    rc, outp = vlib.run_tlc("ChangeLog", cfg, wd, tag, workers=8, timeout=1500, xmx="12g")
    res = vlib.parse_tlc(outp)
    if not res["ok"]:
        raise vlib.ToolFailure("ChangeLog model failed: %s (see %s)" % (res["errors"][:2] or res["fatal"], outp))
    edges, stats = paths.read_edges(outp)
    scripts = paths.scripts_from_edges(edges, conv=lambda a: dict(a))
    return scripts, stats, consts


def random_scripts(rnd, n, length):
    """Longer seed-chosen sequences over more tracks, all columns the driver knows, wide indicator values."""
    out = []
    for _ in range(n):
        ops = []
        nt = 0
        for _ in range(length):
            k = rnd.random()
            ident = rnd.randint(1, nt + 1)
            base = {"id": 0, "col": "", "variant": 0, "mask": 0, "t": 0, "v": 0}
            if k < 0.2 and nt < 6:
                ops.append(dict(base, op="t_add", variant=rnd.choice([1, 2, 3, 4, 5, 6]), mask=rnd.choice([0, 1, 2, 3])))
                nt += 1
            elif k < 0.35:
                ops.append(dict(base, op="t_update", id=ident, variant=rnd.choice([1, 2, 3, 4, 5, 6]), mask=rnd.choice([0, 1, 2, 3])))
            elif k < 0.6:
                ops.append(dict(base, op="t_set", id=ident, col=rnd.choice(["title", "origin_track_id", "origin_database_uuid", "rating", "track_data"]),
                                variant=rnd.choice([1, 2, 3, 4, 5, 6])))
            elif k < 0.7:
                ops.append(dict(base, op="t_remove", id=ident))
            elif k < 0.9:
                ops.append(dict(base, op="cl_add", t=rnd.choice([ident, 0, 77, -1])))
            else:
                ops.append(dict(base, op="info_set", v=rnd.choice([0, 1, -1, 7, 2147483647, -2147483647])))
        out.append(ops)
    return out


def aux_cfg():
    return vlib.cfg_text("TSpec", {"HasLog": True, "MaxT": 2, "MaxOps": 0, "Values": {7}}, postcondition="Accepted")


def build_aux(wd, mc_stats, tier, seed, nmax=None, nrand=None):
    """Workloads for harness/auxdriver (used directly by C18 and as a further pipeline of C16)."""
    rnd = random.Random(seed)
    by_has = {}
    for has in (True, False):
        scripts, stats, consts = model(wd, tier, has)
        by_has[has] = scripts
        mc_stats.append({"instance": "ChangeLog HasLog=%s MaxT=2 MaxOps=%d" % (has, consts["MaxOps"]), "states": stats.get("states") or 0,
                         "transitions": stats.get("transitions") or 0, "scripts": len(scripts)})
    nmax = nmax or (1200 if tier == "quick" else 10 ** 9)
    nr0, lrand = (60, 12) if tier == "quick" else (400, 20)
    nrand = nrand or nr0
    ws = []
    for s in vlib.V2:
        has = VER[s] < [2, 20, 3]
        sc = by_has[has]
        pick = sc if len(sc) <= nmax else rnd.sample(sc, nmax)
        ws.append(libcheck.Workload(s, pick + random_scripts(rnd, nrand, lrand), [], flags={"ver": VER[s]}, tag="x", origin="mcchangelog + seed"))
    return ws


def run_proofs(wd):
    """ChangeLogProofs.tla (TLAPS): appending and nulling preserve the log invariants for logs of any length."""
    import re
    import subprocess
    out = os.path.join(wd, "tlapm_changelog.out")
    with open(out, "w") as fh:
        try:
            subprocess.run(["tlapm", "--cleanfp", "--cache-dir", os.path.join(wd, "tlapm_cache"), "ChangeLogProofs.tla"], cwd=vlib.SPEC,
                           stdout=fh, stderr=subprocess.STDOUT, timeout=900)
        except subprocess.TimeoutExpired:
            raise vlib.ToolFailure("tlapm timed out on ChangeLogProofs.tla")
    txt = open(out, errors="replace").read()
    m = re.search(r"All (\d+) obligations? proved", txt)
    if not m:
        raise vlib.ToolFailure("tlapm did not prove ChangeLogProofs.tla (see %s)" % out)
    return int(m.group(1))


def aux_part(wd, tier, seed, label="change log / information tables"):
    """Returns (violations, coverage, accepted, (states, transitions))."""
    wd2 = os.path.join(wd, "aux")
    os.makedirs(wd2, exist_ok=True)
    binary = vbuild.build_bin("auxdriver", "plain", extra_src=["shim.cpp"])
    mc_stats = []
    ws = build_aux(wd2, mc_stats, tier, seed)
    tcfg = aux_cfg()
    shards, summary = libcheck.run_and_validate(binary, ws, wd2, module="TraceChangeLog", cfg=tcfg)
    violations = []
    n = 0
    for sh in shards:
        for rej in sh["val"]["rejected"]:
            n += 1
            if len(violations) >= 5:
                continue
            payload = libcheck.confirm_rejection(binary, sh, rej, wd2, n, "TraceChangeLog", tcfg)
            if payload is None:
                log("note: rejection in %s did not repeat on re-run; not reported" % sh["base"])
                continue
            rec = payload.get("offending_record") or {}
            payload["offending_record"] = {k: rec.get(k) for k in ("op", "id", "col", "variant", "t", "v", "out", "ex", "new", "o16")}
            payload["reason"] = label + ": " + str(payload.get("reason"))
            violations.append(payload)
        for ev in sh["events"]:
            violations.append({"reason": "aux table driver %s" % ev["kind"], "record": ev})
    mstates = sum(m["states"] for m in mc_stats)
    mtrans = sum(m["transitions"] for m in mc_stats)
    nobl = run_proofs(wd2)
    cov = {"change_log_information": {"model_instances": mc_stats, "tlaps_obligations_proved": nobl, "executions": summary["executions"], "accepted": summary["accepted"],
                                      "records": summary["records"],
                                      "bounds": "<= 2 tracks, %d operations, ids live / removed / never handed out; plus seed-chosen longer "
                                                "sequences over <= 6 tracks" % (4 if tier == "quick" else 5)}}
    return violations, cov, summary["accepted"], (mstates, mtrans)


if __name__ == "__main__":
    import sys
    import json
    tier = sys.argv[1] if len(sys.argv) > 1 else "quick"
    wd = vlib.workdir("aux_" + tier)
    v, cov, acc, st = aux_part(wd, tier, 1)
    print(json.dumps(cov, indent=1))
    for x in v[:5]:
        print("violation:", x.get("reason"), "|", json.dumps(x.get("offending_record") or x.get("record"))[:600])
    print("violations", len(v), "accepted", acc, st)
