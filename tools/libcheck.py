#!/usr/bin/env python3
"""Checks that drive operation histories through the real library and validate the recorded
traces against Library.tla (C07, C08, C09, C10, C11, C14, C16 and the history part of C15)."""
import json
import math
import os
import random
import time
from concurrent.futures import ThreadPoolExecutor

import vbuild
import vlib
from vlib import log

NAMES4 = ["a", "b", "", "x;y"]


class Workload:
    def __init__(self, schema, scripts, names, mode="mem", flags=None, tag="g", origin="", also=(), per_shard=None):
        self.schema = schema
        self.also = list(also)   # further (module, cfg) trace specifications the same traces must satisfy
        self.scripts = scripts
        self.names = names
        self.mode = mode
        self.flags = flags or {}
        self.tag = tag
        self.origin = origin  # which model instance the scripts came from
        self.per_shard = per_shard   # calls per shard (None = default); smaller for workloads whose records are costly to validate

    @property
    def calls(self):
        return sum(len(s) for s in self.scripts)


def make_shards(workloads, wd, per_shard=2500):
    shards = []
    for wi, w in enumerate(workloads):
        n = max(1, min(len(w.scripts), math.ceil(w.calls / (w.per_shard or per_shard))))
        parts = vlib.split_scripts(w.scripts, n)
        for i, p in enumerate(parts):
            base = "%s_%d_%s_%s_%d" % (w.tag, wi, w.schema, w.mode, i)
            sp = os.path.join(wd, base + ".script.ndjson")
            tp = os.path.join(wd, base + ".trace.ndjson")
            vlib.write_script_file(sp, p, w.schema, w.names, w.mode, sid0=i * 100000, flags=w.flags)
            shards.append({"script": sp, "trace": tp, "scripts": p, "w": w, "base": base})
    return shards


def script_of_exec(shard, exec_index):
    """The script (header + ops) of the exec_index-th execution of a shard."""
    w = shard["w"]
    hdr = {"op": "reset", "schema": w.schema, "mode": w.mode, "names": w.names, "sid": "replay"}
    hdr.update(w.flags)
    return [hdr] + shard["scripts"][exec_index]


def run_and_validate(binary, workloads, wd, module="TraceLibrary", cfg=None, watchdog=10, jobs=vlib.NCPU,
                     max_rejections=3):
    """Drives all workloads, validates all traces.  Returns (shards, summary)."""
    cfg = cfg or vlib.trace_cfg()
    shards = make_shards(workloads, wd)
    t0 = time.time()

    def drive(sh):
        sh["events"] = vlib.run_driver(binary, sh["script"], sh["trace"], watchdog=watchdog)
        return sh

    with ThreadPoolExecutor(jobs) as ex:
        shards = list(ex.map(drive, shards))
    t1 = time.time()

    def val(sh):
        sh["val"] = vlib.validate_trace(module, cfg, sh["trace"], wd, sh["base"], max_rejections=max_rejections)
        for (m2, c2) in sh["w"].also:
            v2 = vlib.validate_trace(m2, c2, sh["trace"], wd, sh["base"] + "." + m2, max_rejections=max_rejections)
            for rej in v2["rejected"]:
                rej["module"], rej["cfg"] = m2, c2
                rej["reason"] = "%s: %s" % (m2, rej.get("reason"))
            sh["val"]["rejected"] += v2["rejected"]
            sh["val"]["kf"] += v2["kf"]
            sh["val"]["tlc_states"] += v2["tlc_states"]
            sh["val"].setdefault("also_accepted", {})
            sh["val"]["also_accepted"][m2] = v2["accepted"]
        return sh

    with ThreadPoolExecutor(jobs) as ex:
        shards = list(ex.map(val, shards))
    t2 = time.time()
    summary = {"drive_s": round(t1 - t0, 1), "validate_s": round(t2 - t1, 1),
               "executions": sum(s["val"]["executions"] for s in shards),
               "accepted": sum(s["val"]["accepted"] for s in shards),
               "records": sum(s["val"]["records"] for s in shards),
               "tlc_states": sum(s["val"]["tlc_states"] for s in shards)}
    return shards, summary


def confirm_rejection(binary, shard, rej, wd, n, module, cfg, watchdog=10):
    """Re-runs the rejected execution alone (driver + TLC).  Returns the replay payload if the
    rejection repeats, None if it does not (flaky => not reported)."""
    script = script_of_exec(shard, rej["exec_index"])
    sp = os.path.join(wd, "confirm%d.script.ndjson" % n)
    tp = os.path.join(wd, "confirm%d.trace.ndjson" % n)
    with open(sp, "w") as fh:
        for op in script:
            fh.write(json.dumps(op) + "\n")
    events = vlib.run_driver(binary, sp, tp, watchdog=watchdog)
    v = vlib.validate_trace(module, cfg, tp, wd, "confirm%d" % n, max_rejections=1)
    if not v["rejected"] and not events and rej["exec_index"] > 0:
        # Alone it is accepted.  State that outlives a library object (a process-wide cache filled by the first library a process
        # opens) only shows in the process that ran the earlier executions of the shard: re-run the execution in that context -
        # the (at most 40) executions before it, then itself, in one process.  A rejection that repeats there is deterministic
        # and is reported with the whole script.
        first = max(0, rej["exec_index"] - 40)
        script = []
        for k in range(first, rej["exec_index"] + 1):
            script += script_of_exec(shard, k)
        with open(sp, "w") as fh:
            for op in script:
                fh.write(json.dumps(op) + "\n")
        events = vlib.run_driver(binary, sp, tp, watchdog=watchdog)
        v = vlib.validate_trace(module, cfg, tp, wd, "confirm%dctx" % n, max_rejections=1)
    if not v["rejected"] and not events:
        return None
    recs = vlib.load_trace(tp)
    payload = {"schema": shard["w"].schema, "mode": shard["w"].mode, "flavour": os.path.basename(os.path.dirname(os.path.dirname(binary))),
               "script": script, "origin": shard["w"].origin, "driver": os.path.basename(binary), "module": module, "cfg": cfg}
    if v["rejected"]:
        r = v["rejected"][0]
        payload["reason"] = r["reason"]
        payload["offending_record_index"] = r["record_index"]
        payload["offending_record"] = r["record"]
        payload["history"] = [{k: x.get(k) for k in ("e", "op", "c", "p", "n", "t", "after", "new", "out", "ex", "fault") if k in x}
                              for x in recs[:r["record_index"] + 1]]
        payload["tlc_out"] = r["tlc_out"]
    if events:
        payload["events"] = events
    return payload


def with_via(scripts, rnd, p=0.5):
    """Copies of the scripts in which a seed-chosen share of the operations goes through the second connection."""
    out = []
    for sc in scripts:
        out.append([dict(op, via=2) if op.get("op") != "reopen" and rnd.random() < p else dict(op) for op in sc])
    return out


def model_check_multiconn(wd, mc_stats, max_calls=4):
    """MultiConn.tla: Coherent on the bounded instance; the per-connection-cache variant must be reported."""
    consts = {"ValidNames": {"a"}, "InvalidNames": {""}, "DupPolicy": "reject", "PosPolicy": "tail", "Conns": {1, 2},
              "Caching": "none", "MaxId": 3, "MaxCalls": max_calls}
    cfg = vlib.cfg_text(None, consts, invariants=["TypeOK", "ForestInv", "MemInv", "Coherent"], init_next=("MInit", "MNext"))
    rc, outp = vlib.run_tlc("MultiConn", cfg, wd, "multiconn", workers=4, timeout=1800)
    res = vlib.parse_tlc(outp)
    if not res["ok"]:
        raise vlib.ToolFailure("MultiConn: rc=%s %s (see %s)" % (rc, res["errors"][:2] or res["fatal"], outp))
    mc_stats.append({"instance": "MultiConn(2 connections, ids<=3, calls<=%d)" % max_calls, "states": res["states"] or 0,
                     "transitions": res["generated"] or 0})
    cfg2 = vlib.cfg_text(None, dict(consts, Caching="own-writes"), invariants=["Coherent"], init_next=("MInit", "MNext"))
    rc2, outp2 = vlib.run_tlc("MultiConn", cfg2, wd, "multiconn_cache", workers=2, timeout=900)
    r2 = vlib.parse_tlc(outp2)
    if not (r2["errors"] and not r2["fatal"]):
        raise vlib.ToolFailure("MultiConn is insensitive: Caching = own-writes was not reported (see %s)" % outp2)


def describe(rec):
    if not rec:
        return "?"
    keys = ("op", "c", "p", "n", "t", "after", "new", "out", "ex")
    return " ".join("%s=%s" % (k, rec[k]) for k in keys if k in rec)


def chain_mem_scripts(scripts, pre_len, crates=(2, 3), group=25):
    """Scripts of a membership-only graph (Pre = "rich") share their preamble; after each script the
    abstract state is brought back to the preamble state by clear_tracks on every crate, so many
    scripts can be chained into one execution (membership-row ids keep growing, which only adds
    diversity).  Validation stays exact: TLC tracks the abstract state through the whole chain."""
    out = []
    cur = None
    n = 0
    for sc in scripts:
        pre, suf = sc[:pre_len], sc[pre_len:]
        if cur is None:
            cur = list(pre)
            n = 0
        cur.extend(suf)
        cur.extend({"op": "clear_tracks", "c": c, "exp": "ok"} for c in crates)
        n += 1
        if n >= group:
            out.append(cur)
            cur = None
    if cur:
        out.append(cur)
    return out


def bulkify(scripts, r):
    """The same histories through the bulk entry point crate::add_tracks(first, last): every maximal run of consecutive successful
    add_track calls on one crate becomes ONE add_tracks call whose range names those tracks in order - and, seed-chosen, some of them
    a second time (Library!AddTracks: an id that occurs twice is added once and keeps its first place).  Scripts without any
    add_track are dropped."""
    out = []
    for sc in scripts:
        new, i, changed = [], 0, False
        while i < len(sc):
            o = sc[i]
            if o.get("op") == "add_track" and o.get("exp", "ok") == "ok" and not o.get("probe"):
                j = i
                ts = []
                while j < len(sc) and sc[j].get("op") == "add_track" and sc[j].get("c") == o.get("c") and sc[j].get("exp", "ok") == "ok" \
                        and not sc[j].get("probe"):
                    ts.append(sc[j]["t"])
                    j += 1
                shape = r.randrange(4)
                if shape == 0:
                    ts = ts + [ts[0]]                       # the first one again at the end
                elif shape == 1:
                    ts = [ts[-1]] + ts                      # the last one already in front (takes the front place)
                elif shape == 2:
                    ts = [t for t in ts for _ in (0, 1)]    # every one twice in a row
                b = {"op": "add_tracks", "c": o["c"], "ts": ts, "exp": "ok"}
                new.append(b)
                changed = True
                i = j
            else:
                new.append(o)
                i += 1
        if changed:
            out.append(new)
    return out
