#!/usr/bin/env python3
"""Crash points below the statement level (DESIGN.md 13.17): helpers for the syscall-level crash sweep of harness/libdriver.

* also(): TraceCommit as a further specification of syscrash traces;
* model_check(): spec/CommitProtocol.tla on two and three files, with and without a master journal: PerFileAtomic and
  OutcomeOK must hold, every predicted outcome must be reached, AtomicAcrossFiles must hold with a master journal and must be
  reported without one (which is the library's situation: its main database is ":memory:");
* observations(): what the recorded executions showed - calls committed in one database file and not in the other."""
import re

import vlib
from vlib import log


def commit_cfg():
    return vlib.cfg_text("TSpec", {}, postcondition="Accepted").replace("CONSTANTS\n", "")


def also():
    return [("TraceCommit", commit_cfg())]


def _cfg(files, use_master, invariants):
    return ("SPECIFICATION Spec\nCONSTANTS\n  Files <- %s\n  UseMaster = %s\nINVARIANTS %s\nACTION_CONSTRAINT EmitOutcome\nCHECK_DEADLOCK FALSE\n"
            % (files, "TRUE" if use_master else "FALSE", " ".join(invariants)))


def model_check(wd, mc_stats):
    for files, n in (("MCFiles", 2), ("MCFiles3", 3)):
        for um in (True, False):
            tag = "commit_%s_%s" % (files, um)
            rc, outp = vlib.run_tlc("MCCommitProtocol", _cfg(files, um, ["PerFileAtomic", "OutcomeOK"] + (["AtomicAcrossFiles"] if um else [])),
                                    wd, tag, workers=2, timeout=900)
            res = vlib.parse_tlc(outp)
            if not res["ok"]:
                raise vlib.ToolFailure("CommitProtocol(%s, master=%s): rc=%s %s (see %s)" % (files, um, rc, res["errors"][:2] or res["fatal"], outp))
            outcomes = set(re.findall(r'<<"OUTCOME", (\{[^}]*\})>>', open(outp, errors="replace").read()))
            want = 2 if um else n + 1
            if len(outcomes) != want:
                raise vlib.ToolFailure("CommitProtocol(%s, master=%s): %d distinct outcomes reached, %d predicted (see %s)" % (files, um, len(outcomes), want, outp))
            mc_stats.append({"instance": "CommitProtocol(%d files, master journal=%s): outcomes %s" % (n, um, sorted(outcomes)),
                             "states": res["states"] or 0, "transitions": res["generated"] or 0})
        # sensitivity: without a master journal the transaction is NOT atomic across files - TLC must say so
        rc, outp = vlib.run_tlc("MCCommitProtocol", _cfg(files, False, ["AtomicAcrossFiles"]), wd, "commit_%s_sens" % files, workers=2, timeout=900)
        r2 = vlib.parse_tlc(outp)
        if not (r2["errors"] and not r2["fatal"]):
            raise vlib.ToolFailure("CommitProtocol is insensitive: AtomicAcrossFiles without a master journal was not reported (see %s)" % outp)


def observations(shards):
    """(attempts with per-file classification, outcomes in which a strict non-empty subset of the touched files changed)"""
    n = 0
    partial = {}
    for sh in shards:
        if not sh["w"].flags.get("syscrash"):
            continue
        for r in vlib.load_trace(sh["trace"]):
            fl = r.get("files")
            if not fl or "crash" not in r:
                continue
            n += 1
            touched = [x["db"] for x in fl if x["touched"]]
            changed = [x["db"] for x in fl if x["is"] != "old"]
            if changed and len(changed) < len(touched):
                key = (sh["w"].schema, r.get("op"), tuple(changed), tuple(touched))
                partial[key] = partial.get(key, 0) + 1
    return n, partial


def post(shards, wd, mc_stats):
    if not any(sh["w"].flags.get("syscrash") for sh in shards):
        return []
    model_check(wd, mc_stats)
    n, partial = observations(shards)
    log("syscall-level crash points: %d attempts classified per file; cross-file partial outcomes: %s"
        % (n, "; ".join("%s %s committed in %s only (of %s) x%d" % (k[0], k[1], "+".join(k[2]), "+".join(k[3]), v) for k, v in sorted(partial.items())) or "none"))
    mc_stats.append({"instance": "syscall-level crash sweep: %d attempts; calls seen committed in one file only: %s"
                                 % (n, sorted({"%s %s" % (k[0], k[1]) for k in partial}) or "none"), "states": 0, "transitions": 0})
    return []
