#!/usr/bin/env python3
"""Debug aid: for track-driver traces, print per call the fields whose read-back differs from what was written."""
import json, sys
for path in sys.argv[1:]:
    print("==", path)
    schema = None
    prev = {}
    for i, line in enumerate(open(path, errors="replace")):
        line = line.strip()
        if not line:
            continue
        r = json.loads(line)
        if r.get("e") == "reset":
            schema = r.get("schema"); prev = {}
            continue
        op = r.get("op")
        obs = r.get("obs", {})
        tks = {x["id"]: x for x in obs.get("tk", [])}
        tid = r.get("new") if op == "create" else r.get("t")
        x = tks.get(tid)
        msg = []
        if op == "fixpoint" and "s1" in r:
            d = [f for f in r["s1"] if r["s1"][f] != r["s2"].get(f)]
            for f in d:
                msg.append("FIX %s: s1=%s s2=%s" % (f, json.dumps(r["s1"][f])[:200], json.dumps(r["s2"].get(f))[:200]))
        if x and "v" in x.get("snap", {}):
            snap = x["snap"]["v"]
            if op == "set":
                fld = {"hot_cue_at": "hot_cues", "loop_at": "loops"}.get(r.get("f"), r.get("f"))
                old = prev.get(tid, {})
                for f in snap:
                    if f != fld and f in old and old[f] != snap[f]:
                        msg.append("FRAME %s: old=%s new=%s" % (f, json.dumps(old[f])[:160], json.dumps(snap[f])[:160]))
                msg.append("SET %s in=%s new=%s" % (r.get("f"), json.dumps(r.get("in"))[:300], json.dumps(snap.get(fld))[:300]))
            if op in ("create", "update", "fixpoint") and isinstance(r.get("in"), dict):
                for f, v in r["in"].items():
                    if snap.get(f) != v:
                        msg.append("%s: in=%s snap=%s" % (f, json.dumps(v)[:160], json.dumps(snap.get(f))[:160]))
            for f, g in x.get("get", {}).items():
                if f in snap and "v" in g and g["v"] != snap[f]:
                    msg.append("GETTER %s: get=%s snap=%s" % (f, json.dumps(g["v"])[:120], json.dumps(snap[f])[:120]))
                if "throw" in g:
                    msg.append("GETTER %s throws %s" % (f, g["throw"]))
        elif x:
            msg.append("snap: %s" % json.dumps(x.get("snap"))[:200])
        for y in obs.get("tk", []):
            if "v" in y.get("snap", {}):
                prev[y["id"]] = y["snap"]["v"]
        print(i, schema, op, "t=%s" % tid, r.get("out"), r.get("ex", ""), ("field=%s" % r.get("field")) if r.get("field") else "", "| " + " ; ".join(msg) if msg else "")
