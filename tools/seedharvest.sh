#!/bin/sh
# seedharvest.sh <name>: after tools/seedtest.sh confirmed /tmp/wt/<name>, keep it as seeded/<name>/ and remove the scratch worktree.
n="$1"; wt=/tmp/wt/$n; d="$(dirname "$0")/../seeded/$n"
[ -f "$wt/SEED/patch.diff" ] || { echo "no SEED in $wt"; exit 1; }
mkdir -p "$d"
cp "$wt/SEED/patch.diff" "$wt/SEED/demo.cpp" "$wt/SEED/demo_build.sh" "$wt/SEED/meta.json" "$d/" 
git -C /repo worktree remove --force "$wt"; rm -rf "$wt"
ls "$d"
