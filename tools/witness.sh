#!/bin/sh
# witness.sh <name>: builds harness/<name>.cpp against the library objects of /repo's working tree (plain flavour) and runs it.
cd "$(dirname "$0")/.." || exit 2
bin=$(python3 - "$1" <<'PY'
import sys
sys.path.insert(0, "tools")
import vbuild
print(vbuild.build_bin(sys.argv[1], "plain", extra_src=["shim.cpp"]))
PY
) || exit 2
timeout 600 "$bin"
