#!/usr/bin/env python3
"""seedpar.py [-j N] [--tier quick|thorough] [NAME[:ID,ID..] ...]

Judges seeded changes without touching /repo: for every seeded/<NAME> a scratch worktree of /repo's HEAD is created
under /tmp/wt, the patch is applied there, and the planned checks run with VERIF_REPO=<worktree> and
VERIF_OUT=<worktree>/_out (build products, run directories, replay and evidence files all go there).  The log of
each check is kept as seeded/<NAME>/run_<ID>.log, the worktree is removed afterwards.  N seeds run in parallel.

A seed is CAUGHT by a check when the check exits 1 with at least one VIOLATION line."""
import json
import os
import shutil
import subprocess
import sys
import time
from concurrent.futures import ThreadPoolExecutor

VERIF = os.path.dirname(os.path.dirname(os.path.abspath(__file__)))
PLAN = {
    "C01a": "C01", "C01b": "C01", "C02a": "C02", "C02b": "C02", "C03a": "C03", "C03b": "C03", "C04a": "C04", "C04b": "C04",
    "C05a": "C05", "C05b": "C05", "C06a": "C06", "C06b": "C06", "C07a": "C07", "C07b": "C07", "C08a": "C08 C09", "C08b": "C08 C11",
    "C09a": "C09 C08", "C09b": "C09 C07 C18", "C10a": "C10", "C10b": "C13 C10", "C11a": "C11", "C11b": "C11", "C13a": "C13", "C13b": "C13",
    "C14a": "C14", "C14b": "C14", "C15a": "C15", "C15b": "C15 C06", "C16a": "C16", "C16b": "C16 C04", "C17a": "C17", "C17b": "C17 C12", "C12a": "C12 C17",
    "C18a": "C18", "C18b": "C18", "C19a": "C19", "C19b": "C19", "C20a": "C20", "C20b": "C20",
    "C01c": "C01", "C02c": "C02 C03", "C03c": "C03", "C04c": "C04", "C05c": "C05", "C06c": "C06", "C07c": "C07 C11", "C08c": "C08 C11",
    "C09c": "C09 C08", "C10c": "C10 C14", "C11c": "C11", "C12c": "C12", "C13c": "C13", "C14c": "C14", "C15c": "C15 C03", "C16c": "C16",
    "C17c": "C17", "C18c": "C18", "C19c": "C19", "C20c": "C20",
    "C01d": "C01", "C04d": "C04", "C06d": "C06", "C07d": "C07 C11", "C08d": "C08 C09", "C09d": "C09 C18", "C10d": "C10 C12", "C11d": "C11",
    "C14d": "C14", "C15d": "C15", "C16d": "C16 C10", "C18d": "C18",
    "C02e": "C02", "C03e": "C03", "C05e": "C05", "C12e": "C12", "C13e": "C13", "C17e": "C17", "C19e": "C19", "C20e": "C20",
    "C04e": "C04", "C09e": "C09 C07", "C07f": "C07", "C14f": "C14", "C16f": "C16", "C10f": "C10", "C08f": "C08", "C06f": "C06",
    "C13f": "C13 C10", "C15f": "C15", "C17f": "C17", "C18f": "C18", "C19f": "C19", "C20f": "C20",
    "C01g": "C01", "C06g": "C06 C02", "C08g": "C08", "C11g": "C11", "C14g": "C14", "C16g": "C16 C10",
    "C01f": "C01", "C11f": "C11 C08", "C02f": "C02 C04", "C03f": "C03 C01", "C04f": "C04", "C05f": "C05", "C07g": "C07 C14", "C09f": "C09 C08", "C12f": "C12",
    "C01h": "C01", "C03h": "C03", "C04h": "C04", "C05h": "C05", "C06h": "C06", "C07h": "C07", "C08h": "C08", "C09h": "C09 C07", "C10h": "C10",
    "C11h": "C11 C08", "C14h": "C14", "C15h": "C15 C09", "C16h": "C16", "C18h": "C18",
    "C01e": "C01", "C06e": "C06", "C07e": "C07 C11", "C10e": "C10", "C14e": "C14", "C16e": "C16",
}


def sh(cmd, **kw):
    return subprocess.run(cmd, stdout=subprocess.PIPE, stderr=subprocess.STDOUT, **kw)


def judge(item, tier):
    name, ids = item
    sd = os.path.join(VERIF, "seeded", name)
    wt = "/tmp/wt/sp_" + name
    out = os.path.join(wt, "_out")
    res = {"seed": name, "checks": {}}
    sh(["git", "-C", "/repo", "worktree", "remove", "--force", wt])
    shutil.rmtree(wt, ignore_errors=True)
    r = sh(["git", "-C", "/repo", "worktree", "add", "--detach", wt, "HEAD"])
    if r.returncode != 0:
        res["error"] = "worktree: " + r.stdout.decode()[-300:]
        return res
    try:
        r = sh(["git", "-C", wt, "apply", os.path.join(sd, "patch.diff")])
        if r.returncode != 0:
            res["error"] = "patch does not apply: " + r.stdout.decode()[-300:]
            return res
        # warm object cache: objects are keyed by content hash, so the unchanged sources need not be recompiled
        for fl in ("plain", "san"):
            src = os.path.join(VERIF, "build", fl, "obj")
            if os.path.isdir(src):
                os.makedirs(os.path.join(out, "build", fl), exist_ok=True)
                sh(["cp", "-al", src, os.path.join(out, "build", fl, "obj")])
        env = dict(os.environ, VERIF_REPO=wt, VERIF_OUT=out)
        for cid in ids:
            t0 = time.time()
            logp = os.path.join(sd, "run_%s.log" % cid)
            with open(logp, "w") as fh:
                try:
                    rc = subprocess.run([os.path.join(VERIF, "tools", "check"), cid, "--tier", tier], stdout=fh, stderr=subprocess.STDOUT,
                                        env=env, cwd=VERIF, timeout=7200).returncode
                except subprocess.TimeoutExpired:
                    rc = 124
            txt = open(logp, errors="replace").read()
            nv = sum(1 for line in txt.splitlines() if line.startswith("VIOLATION"))
            first = next((line for line in txt.splitlines() if line.startswith("violation")), "")
            res["checks"][cid] = {"rc": rc, "violations": nv, "caught": rc == 1 and nv > 0, "first": first[:300], "wall_s": round(time.time() - t0)}
            print("%s %s rc=%d VIOLATION lines=%d %s  | %s" % (name, cid, rc, nv, "CAUGHT" if rc == 1 and nv > 0 else ("TOOL-FAIL" if rc not in (0, 1) else "missed"),
                                                            first[:160]), flush=True)
    finally:
        sh(["git", "-C", "/repo", "worktree", "remove", "--force", wt])
        shutil.rmtree(wt, ignore_errors=True)
    return res


def main():
    args = sys.argv[1:]
    jobs, tier = 3, "quick"
    items = []
    while args:
        a = args.pop(0)
        if a == "-j":
            jobs = int(args.pop(0))
        elif a == "--tier":
            tier = args.pop(0)
        else:
            if ":" in a:
                n, ids = a.split(":")
                items.append((n, ids.split(",")))
            else:
                items.append((a, PLAN.get(a, a[:3]).split()))
    if not items:
        items = [(n, PLAN.get(n, n[:3]).split()) for n in sorted(os.listdir(os.path.join(VERIF, "seeded"))) if os.path.exists(os.path.join(VERIF, "seeded", n, "patch.diff"))]
    with ThreadPoolExecutor(jobs) as ex:
        results = list(ex.map(lambda it: judge(it, tier), items))
    outp = os.path.join(VERIF, "seeded", "matrix_%s.json" % tier)
    old = {}
    if os.path.exists(outp):
        old = {r["seed"]: r for r in json.load(open(outp))}
    for r in results:
        if r["seed"] in old and "checks" in old[r["seed"]] and "checks" in r:
            merged = dict(old[r["seed"]]["checks"])
            merged.update(r["checks"])
            r["checks"] = merged
        old[r["seed"]] = r
    json.dump([old[k] for k in sorted(old)], open(outp, "w"), indent=1)
    bad = [r for r in results if r.get("error")]
    for r in bad:
        print("ERROR", r["seed"], r["error"])
    return 0


if __name__ == "__main__":
    sys.exit(main())
