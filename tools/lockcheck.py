#!/usr/bin/env python3
"""Lock contention (C14 beyond injected statement failures): helpers for the lock sweep of harness/libdriver.

* also(): the trace specification TraceContention as a further specification of lock-sweep traces;
* model_check_programs(): the statement programs the library was seen to run (classes + "changes rows" per statement,
  from the attempts in which nothing was refused) are written to a file and explored by TLC (spec/MCContention.tla) under
  ALL schedules of the other connection - take / release SHARED, RESERVED, EXCLUSIVE at any statement boundary - with the
  invariants AllOrNothing, AtRest, Usable, LockCompat and termination; two deliberately broken instances (a transaction
  scope that does not roll back; a program with two autocommitted writes) must be reported (sensitivity of the model)."""
import json
import os

import vlib
from vlib import log


KF_SETTERS = ("bpm", "key", "sample_count", "sample_rate")


def contention_cfg():
    return vlib.cfg_text("TSpec", {}, postcondition="Accepted").replace("CONSTANTS\n", "")


def also():
    return [("TraceContention", contention_cfg())]


def _cls(x):
    if x["c"] in ("begin", "commit", "rollback") or not x["x"]:
        return x["c"]
    return "write" if x["fw"] else "read" if x["fr"] else "free"


def programs_of(shards):
    progs = {}
    attempts = refused = 0
    for sh in shards:
        if not sh["w"].flags.get("locks"):
            continue
        for r in vlib.load_trace(sh["trace"]):
            lk = r.get("lk")
            if not lk:
                continue
            attempts += 1
            if any(x["r"] != "ok" for x in lk["st"]):
                refused += 1 if any(x["r"] == "busy" for x in lk["st"]) else 0
                continue
            p = [{"c": _cls(x), "e": x["chg"] > 0} for x in lk["st"]]
            if r.get("op") == "set" and r.get("f") in KF_SETTERS and vlib.family(sh["w"].schema) == "v2":
                continue   # known finding v2-setter-not-atomic: flagged by TraceContention on the trace; not part of the model's claim
            key = json.dumps(p)
            progs.setdefault(key, {"p": p, "op": r.get("op"), "schema": sh["w"].schema, "n": 0})
            progs[key]["n"] += 1
    return progs, attempts, refused


def _mc_cfg(guard):
    return ("SPECIFICATION Spec\nCONSTANTS\n  Progs <- MCProgs\n  Guard = \"%s\"\n"
            "INVARIANTS LockCompat AllOrNothing AtRest Usable\nPROPERTIES Ends\nCHECK_DEADLOCK FALSE\n" % guard)


def _run(wd, tag, progs_path, guard):
    rc, outp = vlib.run_tlc("MCContention", _mc_cfg(guard), wd, tag, workers=4, timeout=1800, env={"PROGS": progs_path})
    res = vlib.parse_tlc(outp)
    res["out"] = outp
    res["rc"] = rc
    return res


def model_check_programs(shards, wd, mc_stats, tier):
    progs, attempts, refused = programs_of(shards)
    if not progs:
        if any(sh["w"].flags.get("locks") for sh in shards):
            raise vlib.ToolFailure("lock sweep produced no complete statement program")
        return []
    pp = os.path.join(wd, "progs.ndjson")
    plist = sorted(progs.values(), key=lambda x: json.dumps(x["p"]))
    with open(pp, "w") as fh:
        for x in plist:
            fh.write(json.dumps({"p": x["p"]}) + "\n")
    violations = []
    res = _run(wd, "mccontention", pp, "rollback")
    mc_stats.append({"instance": "MCContention(%d statement programs seen in %d lock-sweep attempts, %d refused)" % (len(plist), attempts, refused),
                     "states": res["states"] or 0, "transitions": res["generated"] or 0, "ok": res["ok"]})
    if res["fatal"] or (not res["ok"] and not res["errors"]):
        raise vlib.ToolFailure("MCContention: rc=%s %s (see %s)" % (res["rc"], res["fatal"], res["out"]))
    if not res["ok"]:
        # which program?  TLC's counterexample names pi
        pi = None
        for line in open(res["out"], errors="replace"):
            if line.startswith("/\\ pi = "):
                pi = int(line.split("=")[1])
        prog = plist[pi - 1] if pi and pi <= len(plist) else None
        violations.append({"reason": "a statement program of the library is not atomic / not recoverable under lock contention: %s" % res["errors"][:2],
                           "program": prog, "tlc_out": res["out"], "progs": pp})
    # sensitivity: the model must report a scope that forgets to roll back, and a call made of two autocommitted writes
    r2 = _run(wd, "mccontention_leak", pp, "leak")
    has_txn = any(any(s["c"] == "begin" for s in x["p"]) for x in plist)
    if has_txn and not (r2["errors"] and not r2["fatal"]):
        raise vlib.ToolFailure("MCContention is insensitive: Guard = leak was not reported (see %s)" % r2["out"])
    p3 = os.path.join(wd, "progs_two_units.ndjson")
    with open(p3, "w") as fh:
        fh.write(json.dumps({"p": [{"c": "write", "e": True}, {"c": "write", "e": True}]}) + "\n")
    r3 = _run(wd, "mccontention_two_units", p3, "rollback")
    if not (r3["errors"] and not r3["fatal"]):
        raise vlib.ToolFailure("MCContention is insensitive: a call of two autocommitted writes was not reported (see %s)" % r3["out"])
    log("lock contention: %d attempts, %d refused, %d distinct statement programs; MCContention %s states; leak and two-unit variants reported"
        % (attempts, refused, len(plist), res["states"]))
    return violations
