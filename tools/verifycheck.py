#!/usr/bin/env python3
"""C17: verify() reports every single structural deviation.  TLC enumerates all single-element
mutations of the inventory of a library the code has just created (SchemaVerify.tla), each mutant is
materialised with an independent SQLite binding, load_database + verify() is run on it, and TLC
validates the verdicts."""
import glob
import json
import os
import random
import shutil
import subprocess
import time
from concurrent.futures import ThreadPoolExecutor

import ddlmut
import purechecks
import vbuild
import vlib
from vlib import log


def check_C17(tier, seed):
    t0 = time.time()
    wd = vlib.workdir("C17_" + tier)
    binary = vbuild.build_bin("verifydriver", "plain", extra_src=["shim.cpp"])
    shm = "/dev/shm/verif.c17.%d" % os.getpid()
    shutil.rmtree(shm, ignore_errors=True)
    os.makedirs(shm)
    try:
        return _run(tier, seed, wd, binary, shm, t0)
    finally:
        shutil.rmtree(shm, ignore_errors=True)


def _run(tier, seed, wd, binary, shm, t0):
    full = ["1.6.0", "1.18.0o", "2.21.2"] if tier == "quick" else vlib.ALL
    sample_n = 120 if tier == "quick" else 0
    rnd = random.Random(seed)
    violations = []
    mc_states = mc_trans = 0
    total_mutants = built = accepted = 0
    samples = []
    per_schema = {}
    jobs = []
    def prep(s):
        sdir = os.path.join(shm, "orig_" + s)
        r = subprocess.run([binary, "create", s, sdir], stdout=subprocess.PIPE, stderr=subprocess.PIPE, timeout=120)
        if r.returncode != 0:
            raise vlib.ToolFailure("cannot create a %s library: %s" % (s, r.stderr.decode()[-300:]))
        inv = ddlmut.inventory(sdir)
        invp = os.path.join(wd, "inv_%s.json" % s)
        json.dump(inv, open(invp, "w"))
        cfg = vlib.cfg_text("Spec", {}, invariants=["DeviatesInv"], constraints=["EmitMutant"]).replace("CONSTANTS\n", "")
        rc, outp = vlib.run_tlc("MCSchemaVerify", cfg, wd, "mcverify_" + s, workers=2, timeout=600, env={"INVENTORY": invp})
        res = vlib.parse_tlc(outp)
        if not res["ok"]:
            raise vlib.ToolFailure("MCSchemaVerify(%s) failed: %s (see %s)" % (s, res["errors"][:2], outp))
        muts = []
        with open(outp, errors="replace") as fh:
            for line in fh:
                if line.startswith('"MUT '):
                    muts.append(json.loads(json.loads(line)[4:]))
        muts.sort(key=lambda m: json.dumps(m, sort_keys=True))
        return s, res, {"inventory": invp, "orig": sdir, "mutants": muts, "inv": inv}

    with ThreadPoolExecutor(8) as ex:
        preps = list(ex.map(prep, vlib.ALL))
    for s, res, info in preps:
        mc_states += res["states"] or 0
        mc_trans += res["generated"] or 0
        if s not in full:
            info["mutants"] = rnd.sample(info["mutants"], min(sample_n, len(info["mutants"])))
        per_schema[s] = info
        total_mutants += len(info["mutants"])

    def build_and_list(s):
        info = per_schema[s]
        lst = os.path.join(wd, "list_%s.ndjson" % s)
        n_built = 0
        with open(lst, "w") as fh:
            # controls: the created library itself and a copy made the way mutants are made
            fh.write(json.dumps({"dir": info["orig"], "kind": "control", "schema": s, "what": "created"}) + "\n")
            cdir = os.path.join(shm, "ctl_" + s)
            ddlmut.copy_library(info["orig"], cdir)
            fh.write(json.dumps({"dir": cdir, "kind": "control", "schema": s, "what": "copied"}) + "\n")
            for k, m in enumerate(info["mutants"]):
                mdir = os.path.join(shm, "mut_%s_%d" % (s, k))
                ok = ddlmut.materialise(m, info["orig"], mdir)
                if not ok:
                    shutil.rmtree(mdir, ignore_errors=True)
                    continue
                changed = ddlmut.inventory(mdir) != info["inv"]
                if not changed:
                    shutil.rmtree(mdir, ignore_errors=True)
                    continue
                n_built += 1
                fh.write(json.dumps({"dir": mdir, "kind": "mutant", "schema": s, "m": m, "changed": changed}) + "\n")
        out = os.path.join(wd, "verdicts_%s.ndjson" % s)
        r = subprocess.run([binary, "verify", lst, out], stdout=subprocess.PIPE, stderr=subprocess.PIPE, timeout=1200)
        for d in glob.glob(os.path.join(shm, "mut_%s_*" % s)):
            shutil.rmtree(d, ignore_errors=True)
        return s, out, n_built, r.returncode

    with ThreadPoolExecutor(vlib.NCPU) as ex:
        runs = list(ex.map(build_and_list, list(per_schema)))
    cfgt = purechecks.pure_cfg()

    def val(x):
        s, out, nb, rc = x
        if rc != 0:
            return None
        return purechecks.validate_records("TraceVerify", cfgt, out, wd, "tv_" + s, timeout=900,
                                           env={"INVENTORY": per_schema[s]["inventory"]})

    with ThreadPoolExecutor(vlib.NCPU) as ex:
        vres = list(ex.map(val, runs))
    vals = []
    for x, v in zip(runs, vres):
        s, out, nb, rc = x
        built += nb
        if rc != 0 or v is None:
            violations.append({"reason": "verifydriver died (rc=%s) on schema %s" % (rc, s), "record": {"schema": s}})
            continue
        vals.append(v)
        accepted += v["accepted"]
        for rej in v["rejected"]:
            rec = rej["record"]
            violations.append({"reason": "verify() did not report this deviation" if rec.get("kind") == "mutant" else
                               "verify() rejected an unmutated library", "record": {k: rec.get(k) for k in ("schema", "kind", "what", "m", "load", "load_ex", "out", "ex", "msg")}})
        if per_schema[s]["mutants"]:
            samples.append({"schema": s, "mutation": per_schema[s]["mutants"][0]})
    # reference libraries (dumps of real Engine libraries): must be accepted
    refs = sorted(glob.glob(os.path.join(vbuild.REPO, "testdata", "ref", "engine", "*", "*")))
    lst = os.path.join(wd, "list_ref.ndjson")
    with open(lst, "w") as fh:
        for k, d in enumerate(refs):
            fh.write(json.dumps({"scripts": d, "dir": os.path.join(shm, "ref_%d" % k), "kind": "control", "schema": "ref", "what": os.path.basename(d)}) + "\n")
    out = os.path.join(wd, "verdicts_ref.ndjson")
    r = subprocess.run([binary, "fromscripts", lst, out], stdout=subprocess.PIPE, stderr=subprocess.PIPE, timeout=1200)
    if r.returncode != 0:
        violations.append({"reason": "verifydriver died on the reference libraries (rc=%s)" % r.returncode, "record": {}})
    else:
        v = purechecks.validate_records("TraceVerify", cfgt, out, wd, "tv_ref", timeout=900,
                                        env={"INVENTORY": per_schema["2.21.2"]["inventory"]})
        accepted += v["accepted"]
        for rej in v["rejected"]:
            rec = rej["record"]
            violations.append({"reason": "verify() rejected a reference library", "record": {k: rec.get(k) for k in ("what", "load", "load_ex", "out", "ex", "msg")}})
    cov = {"states": mc_states, "transitions": mc_trans, "traces_validated_against_impl": accepted,
           "evaluations": built + 2 * len(per_schema) + len(refs), "distinct_nontrivial": built,
           "mutations_enumerated": total_mutants, "mutants_built": built, "reference_libraries": len(refs),
           "schemas_complete": full, "schemas_sampled": [s for s in vlib.ALL if s not in full],
           "rule": "for every supported schema the inventory (tables with column name/type/notnull/default/pk, indices with uniqueness "
                   "and columns, views) of a freshly created library is read with an independent SQLite binding; TLC enumerates every "
                   "single-element mutation (drop/add/rename table, view, column, index; change column type, nullability, default, "
                   "primary-key membership; change index uniqueness or columns) and checks on the model that each is a deviation; each "
                   "mutant is materialised (ALTER TABLE / DROP / CREATE, or an in-place edit of the one column definition), loaded and "
                   "verified, and TLC requires database_inconsistency; created, copied and all reference libraries must be accepted. "
                   "distinct_nontrivial = mutants SQLite could express and whose re-read inventory differs from the original",
           "samples": samples[:3], "checker_cmd": "tlc MCSchemaVerify.tla; tlc TraceVerify.tla (POSTCONDITION Accepted)",
           "exhaustive": tier != "quick"}
    return purechecks.finish("C17", tier, seed, "model_checking", cov, t0, violations, None, {},
                             ["a mutation that SQLite cannot express on this schema (e.g. dropping a PRIMARY KEY column) is skipped and counted, "
                              "not judged", "a mutant that cannot even be loaded counts as reported"])
