#!/usr/bin/env python3
"""C05: decoders are safe and terminate on arbitrary bytes.  TLC (a) model-checks the chunk loop of
zlib_uncompress against an abstract inflate (InflateLoop: hand-off safety and termination under
fairness) and (b) enumerates input classes from the layouts (DecoderInputs); the harness feeds each
input to the decoder in the sanitizer flavour; TLC validates the recorded outcomes and zlib hand-offs
(TraceDecoders).  A death, sanitizer report or watchdog expiry is reported directly."""
import json
import os
import random
import subprocess
import time
import zlib
from concurrent.futures import ThreadPoolExecutor

import formatchecks
import purechecks
import vbuild
import vlib
from vlib import log


def frame(kind, payload):
    b = bytes(payload)
    if kind in ("loops1", "loops2"):
        return list(b)
    return list(len(b).to_bytes(4, "big") + zlib.compress(b, 6))


def check_C05(tier, seed):
    t0 = time.time()
    wd = vlib.workdir("C05_" + tier)
    binary = vbuild.build_bin("codecdriver", "san", extra_src=["shim.cpp"])
    # (a) the loop model: safety + termination for every behaviour of the abstract inflate
    mstates = mtrans = 0
    for (n, s0, p0) in [(5, 5, 7), (5, 9, 3), (5, 2, 9), (0, 0, 0), (7, 7, 0)]:
        cfg = vlib.cfg_text("FairSpec", {"N": n, "Chunk": 3, "S0": s0, "P0": p0}, invariants=["HandoffInBuffer"], properties=["Terminates"])
        rc, outp = vlib.run_tlc("InflateLoop", cfg, wd, "inflate_%d_%d_%d" % (n, s0, p0), workers=4, timeout=600)
        r = vlib.parse_tlc(outp)
        if not r["ok"]:
            raise vlib.ToolFailure("InflateLoop(N=%d,S=%d,P=%d): %s (see %s)" % (n, s0, p0, r["errors"][:2], outp))
        mstates += r["states"] or 0
        mtrans += r["generated"] or 0
    # (b) input classes from the layouts
    cfg = vlib.cfg_text("Spec", {"Kinds": set(formatchecks.KINDS)}, invariants=["TypeInv"], constraints=["EmitInput"])
    rc, outp = vlib.run_tlc("DecoderInputs", cfg, wd, "decinputs", workers=8, timeout=900, xmx="8g")
    r = vlib.parse_tlc(outp)
    if not r["ok"]:
        raise vlib.ToolFailure("DecoderInputs failed: %s (see %s)" % (r["errors"][:2], outp))
    mstates += r["states"] or 0
    mtrans += r["generated"] or 0
    inputs = []
    with open(outp, errors="replace") as fh:
        for line in fh:
            if line.startswith('"INP '):
                inputs.append(json.loads(json.loads(line)[4:]))
    rnd = random.Random(seed)
    lines = []
    seen = set()

    def add(kind, blob):
        key = (kind, bytes(blob))
        if key in seen or len(blob) > 65536:
            return
        seen.add(key)
        lines.append(json.dumps({"kind": kind, "blob": list(blob)}) + "\n")

    for i in inputs:
        add(i["kind"], frame(i["kind"], i["bytes"]))
    # compressed-stream level: exhaustive short inputs, every truncation and single-byte corruption of valid
    # blobs, wrong length prefixes, garbled streams
    for n in range(0, 3):
        for v in range(256 ** n if n < 3 else 0):
            add("zlib", list(v.to_bytes(n, "big")) if n else [])
    valid = {}
    for i in inputs:
        valid.setdefault(i["kind"], i["bytes"])
    kinds = sorted(valid)
    for k in kinds:
        if k in ("loops1", "loops2"):
            continue
        full = frame(k, max((i["bytes"] for i in inputs if i["kind"] == k), key=len))
        for cut in range(len(full) + 1):
            add(k, full[:cut])
            add("zlib", full[:cut])
        for pos in range(len(full)):
            for val in (0, 255, full[pos] ^ 1, full[pos] ^ 0x80):
                b = list(full)
                b[pos] = val
                add(k, b)
        for pre in ([0, 0, 0, 0], [0, 0, 0, 1], [255, 255, 255, 255], [127, 255, 255, 255], [128, 0, 0, 0], [0, 1, 0, 0]):
            add(k, pre + full[4:])
            add("zlib", pre + full[4:])
    # larger streams crossing the 16 KiB chunk size, truncated
    big = bytes(rnd.randrange(256) for _ in range(40000))
    bf = list(len(big).to_bytes(4, "big") + zlib.compress(big, 1))
    for cut in (len(bf), len(bf) - 1, len(bf) - 5, 16384 + 4, 16384 + 3, 16385 + 4, 2 * 16384 + 4, 100):
        add("zlib", bf[:cut])
    nrand = 2000 if tier == "quick" else 30000
    for _ in range(nrand):
        k = rnd.choice(kinds + ["zlib"])
        base = frame(k, valid[k]) if k != "zlib" else frame("track_data2", valid["track_data2"])
        b = formatchecks.mutate(base, rnd)
        add(k, b)
    ins = purechecks.shard_lines(lines, wd, "raw", vlib.NCPU)
    runs = purechecks.run_pure(binary, "raw", ins, wd, "raw", timeout=1500)
    violations = []
    outs = []
    for (p, out, ev) in runs:
        if ev:
            for e in ev["all"]:
                culprit = json.loads(e["input"]) if e.get("input") and e["input"].rstrip().endswith("}") else None
                violations.append({"reason": "decoder crashed / sanitizer report / hang (driver rc=%s)" % e["rc"],
                                   "record": {"kind": culprit and culprit["kind"], "blob": culprit and culprit["blob"][:200],
                                              "len": culprit and len(culprit["blob"]), "stderr": e["stderr"][-1500:]}})
        outs.append(out)
    cfgt = purechecks.pure_cfg()

    def val(f):
        return purechecks.validate_records("TraceDecoders", cfgt, f, wd, os.path.basename(f).replace(".ndjson", ""), timeout=1500)

    with ThreadPoolExecutor(vlib.NCPU) as ex:
        vres = list(ex.map(val, [o for o in outs if os.path.exists(o)]))
    for v in vres:
        for rej in v["rejected"]:
            rec = rej["record"]
            violations.append({"reason": "outcome or zlib hand-off outside the InflateLoop step relation", "record": {k: rec.get(k) for k in ("kind", "n", "out", "ex", "std", "z")}})
    cov = {"evaluations": len(lines), "distinct_nontrivial": len(seen),
           "states": mstates, "transitions": mtrans, "traces_validated_against_impl": sum(v["accepted"] for v in vres),
           "rule": "InflateLoop.tla is model-checked (hand-off inside the buffer, termination under weak fairness for every answer sequence of the "
                   "abstract inflate incl. truncated streams and trailing garbage); DecoderInputs.tla enumerates, per decoder, every truncation of a "
                   "valid payload, every boundary class (-1, most negative, 0, 1, fit-1, fit, fit+1, fit+100, 2^31, 2^61, 2^63-1) of every embedded "
                   "count / length field (also truncated around the guard positions), ALL 8-byte count fields of a payload set to the same boundary class "
                   "(the waveform layouts repeat their count and compare the two first), the signed boundary classes (2^31-1, -2^31, 2^31, -2, 2^63-1, "
                   "-2^63) of the 1.x beat-index fields alone and in adjacent pairs, and 0x00 / 0xFF at every byte; added are all byte strings of "
                   "length <= 2, every truncation and single-byte corruption of valid compressed blobs, wrong length prefixes, streams crossing the "
                   "16 KiB chunk size, and seed-chosen mutations; every input runs in the ASan+UBSan build under a watchdog; distinct = distinct "
                   "(decoder, byte string) pairs",
           "samples": [json.loads(lines[10]), json.loads(lines[-1])],
           "explanation": "memory safety and undefined behaviour are observed by sanitizer instrumentation of the traced build, not decided by TLA+; "
                          "TLC decides the loop model, enumerates the input classes and validates outcomes and zlib hand-offs",
           "exhaustive": False}
    return purechecks.finish("C05", tier, seed, "exploration", cov, t0, violations, None, {},
                             ["libz itself is not instrumented: the shim checks the regions handed to inflate/deflate with __asan_region_is_poisoned",
                              "coverage-guided fuzzing is deliberately not used (outside this technique family)"])
