#!/bin/sh
# seedrun.sh <seeded/NAME> <ID> [<ID>...] : apply a seeded change to /repo, run the quick checks, undo it.
S="$(cd "$1" && pwd)"; shift
git -C /repo status --short | grep -v '^??' && { echo "/repo not clean"; exit 2; }
git -C /repo apply "$S/patch.diff" || exit 2
for id in "$@"; do
  echo "--- $id on $S"
  /verif/tools/check "$id" --tier "${TIER:-quick}" > "$S/run_$id.log" 2>&1; rc=$?
  echo "rc=$rc"; grep -c '^VIOLATION' "$S/run_$id.log"; grep '^violation' "$S/run_$id.log" | head -3; tail -1 "$S/run_$id.log"
done
git -C /repo checkout -- .
git -C /repo status --short | grep -v '^??'
