// puredriver: feeds inputs to the library's pure functions and records what they return.
//
//   puredriver waveform <in.ndjson> <out.ndjson>     {"n":"<u64>","rate":"<double, decimal>"}
//   puredriver beatgrid <in.ndjson> <out.ndjson>     {"g":[{"i":int,"o":int},...],"sc":int}
//
// The driver asserts nothing; TLC judges the records (TraceWaveform.tla, TraceBeatgrid.tla).
#include <djinterop/djinterop.hpp>

#include <cmath>
#include <fstream>
#include <iostream>

#include "common.hpp"

namespace dj = djinterop;
using vh::json;

namespace
{
json num(unsigned long long v)
{
    if (v <= 2147483647ULL)  // fits TLC's 32-bit integers
        return (int64_t)v;
    return std::to_string(v);
}

// integer-valued double in a range that the unsigned conversion represents exactly
bool as_u64(double d, unsigned long long& out)
{
    if (!std::isfinite(d) || d < 0 || d >= 18446744073709551616.0 || std::floor(d) != d)
        return false;
    out = (unsigned long long)d;
    return true;
}

int run_waveform(std::istream& in)
{
    std::string line;
    while (std::getline(in, line))
    {
        if (line.empty())
            continue;
        json p = json::parse(line);
        unsigned long long n = std::stoull(p.at("n").get<std::string>());
        double rate = std::stod(p.at("rate").get<std::string>());
        json r;
        r["n"] = num(n);
        r["rate"] = p.at("rate");
        // floor of the rate, as the integer the specification works with (inputs only)
        r["rf"] = num((unsigned long long)std::floor(rate));
        dj::waveform_extents hi{}, ov{};
        auto oc = vh::guarded("waveform_extents", [&] {
            hi = dj::engine::calculate_high_resolution_waveform_extents(n, rate);
            ov = dj::engine::calculate_overview_waveform_extents(n, rate);
        });
        r["out"] = oc.ok ? "ok" : "throw";
        unsigned long long hq = 0, ospan = 0;
        bool exact = oc.ok && as_u64(hi.samples_per_entry, hq) && as_u64(ov.samples_per_entry * 1024.0, ospan);
        r["hs"] = num(hi.size);
        r["hq"] = num(hq);
        r["os"] = num(ov.size);
        r["ospan"] = num(ospan);
        r["exact"] = exact;
        r["wide"] = n >= (1ULL << 30) || rate >= 2147483648.0 || hi.size >= (1ULL << 30);
        vh::emit(r);
    }
    return 0;
}

json grid_json(const std::vector<dj::beatgrid_marker>& g, bool& exact)
{
    json a = json::array();
    for (auto& m : g)
    {
        double o = m.sample_offset;
        if (!std::isfinite(o) || std::floor(o) != o || std::fabs(o) > 1e9)
        {
            exact = false;
            a.push_back({{"i", m.index}, {"o", 0}});
        }
        else
            a.push_back({{"i", m.index}, {"o", (int64_t)o}});
    }
    return a;
}

int run_beatgrid(std::istream& in)
{
    std::string line;
    while (std::getline(in, line))
    {
        if (line.empty())
            continue;
        json p = json::parse(line);
        std::vector<dj::beatgrid_marker> g;
        for (auto& m : p.at("g"))
            g.push_back(dj::beatgrid_marker{m.at("i").get<int>(), (double)m.at("o").get<int64_t>()});
        int64_t sc = p.at("sc").get<int64_t>();
        json r;
        r["g"] = p.at("g");
        r["sc"] = sc;
        if (p.contains("v"))
            r["v"] = p["v"];
        std::vector<dj::beatgrid_marker> res, res2;
        auto oc = vh::guarded("normalize_beatgrid", [&] { res = dj::engine::normalize_beatgrid(g, sc); });
        bool exact = true;
        r["out"] = oc.ok ? "ok" : "throw";
        r["ex"] = oc.ex;
        r["std"] = oc.std_exc;
        r["r"] = grid_json(res, exact);
        r["out2"] = "none";
        r["r2"] = json::array();
        if (oc.ok && exact && res.size() >= 2)
        {
            auto oc2 = vh::guarded("normalize_beatgrid(2)", [&] { res2 = dj::engine::normalize_beatgrid(res, sc); });
            r["out2"] = oc2.ok ? "ok" : "throw";
            bool e2 = true;
            r["r2"] = grid_json(res2, e2);
            if (!e2)
                r["out2"] = "inexact";
        }
        r["exact"] = exact;
        vh::emit(r);
    }
    return 0;
}
// Extreme inputs of normalize_beatgrid (indices at the edges of int32, sample counts up to 2^63 - 1): numbers too wide for
// TLC are passed as decimal strings; the record carries the outcome and a summary of the result (C20: rejected with
// invalid_argument or a grid starting at beat -4; C15: no undefined behaviour - this mode runs in the sanitizer flavour).
int run_beatgrid_extreme(std::istream& in)
{
    std::string line;
    while (std::getline(in, line))
    {
        if (line.empty())
            continue;
        json p = json::parse(line);
        std::vector<dj::beatgrid_marker> g;
        for (auto& m : p.at("g"))
            g.push_back(dj::beatgrid_marker{m.at("i").get<int>(), std::stod(m.at("o").get<std::string>())});
        int64_t sc = std::stoll(p.at("sc").get<std::string>());
        json r = {{"x", true}, {"g", p.at("g")}, {"sc", p.at("sc")}};
        std::vector<dj::beatgrid_marker> res;
        auto oc = vh::guarded("normalize_beatgrid", [&] { res = dj::engine::normalize_beatgrid(g, sc); });
        r["out"] = oc.ok ? "ok" : "throw";
        r["ex"] = oc.ex;
        r["std"] = oc.std_exc;
        r["n"] = (int64_t)res.size();
        r["first"] = res.empty() ? 0 : res.front().index;
        bool inc = true, fin = true;
        for (size_t k = 0; k < res.size(); ++k)
        {
            fin = fin && std::isfinite(res[k].sample_offset);
            if (k > 0)
                inc = inc && res[k].index > res[k - 1].index && res[k].sample_offset > res[k - 1].sample_offset;
        }
        r["inc"] = inc;
        r["finite"] = fin;
        // (tempi here are not integer-valued: "at or beyond the end" up to floating-point rounding, as the property says)
        r["last_ge_end"] = !res.empty() && res.back().sample_offset >= (double)sc - std::max(1e-6, std::fabs((double)sc) * 1e-12);
        vh::emit(r);
    }
    return 0;
}
}  // namespace

int main(int argc, char** argv)
{
    if (argc < 4)
    {
        fprintf(stderr, "usage: puredriver waveform|beatgrid <in> <out>\n");
        return 2;
    }
    std::ifstream in(argv[2]);
    FILE* out = fopen(argv[3], "w");
    if (!in || !out)
        return 2;
    vh::g_trace_fd = fileno(out);
    vh::install_handlers();
    vh::g_watchdog_s = 5;
    std::string mode = argv[1];
    int rc = mode == "waveform" ? run_waveform(in) : mode == "beatgrid" ? run_beatgrid(in) : mode == "beatgridx" ? run_beatgrid_extreme(in) : 2;
    fclose(out);
    return rc;
}
