// codecdriver: runs the eleven performance-data codecs on values / payloads / raw blobs and records
// what they produce (C02, C03, C04, C05).  Doubles and wide integers travel as big-endian byte arrays,
// so nothing is lost or re-interpreted on the way to TLC.
//
//   codecdriver enc <in> <out>   {"kind":K,"v":{...}}          encode, un-frame with plain zlib, decode again
//   codecdriver dec <in> <out>   {"kind":K,"payload":[bytes]}  frame with plain zlib, decode, re-encode
//   codecdriver raw <in> <out>   {"kind":K|"zlib","blob":[bytes]} feed bytes to the decoder as they are
//
// The driver asserts nothing; TLC judges the records (TraceFormat.tla).
#include <djinterop/djinterop.hpp>
#include <djinterop/engine/v2/beat_data_blob.hpp>
#include <djinterop/engine/v2/loops_blob.hpp>
#include <djinterop/engine/v2/overview_waveform_data_blob.hpp>
#include <djinterop/engine/v2/quick_cues_blob.hpp>
#include <djinterop/engine/v2/track_data_blob.hpp>
#include <zlib.h>

#include <fstream>

#include "common.hpp"
#include "djinterop/engine/encode_decode_utils.hpp"
#include "djinterop/engine/v1/performance_data_format.hpp"

namespace dj = djinterop;
namespace v1 = djinterop::engine::v1;
namespace v2 = djinterop::engine::v2;
using vh::json;
using bytes = std::vector<std::byte>;

namespace
{
// ------------------------------------------------------------------ scalar <-> byte arrays
double f64(const json& a)
{
    uint64_t u = 0;
    for (int i = 0; i < 8; ++i)
        u = (u << 8) | (uint64_t)a.at(i).get<int>();
    double d;
    memcpy(&d, &u, 8);
    return d;
}
json jf64(double d)
{
    uint64_t u;
    memcpy(&u, &d, 8);
    json a = json::array();
    for (int i = 7; i >= 0; --i)
        a.push_back((int)((u >> (8 * i)) & 0xFF));
    return a;
}
int64_t i64(const json& a)
{
    uint64_t u = 0;
    for (int i = 0; i < 8; ++i)
        u = (u << 8) | (uint64_t)a.at(i).get<int>();
    return (int64_t)u;
}
json ji64(int64_t v)
{
    uint64_t u = (uint64_t)v;
    json a = json::array();
    for (int i = 7; i >= 0; --i)
        a.push_back((int)((u >> (8 * i)) & 0xFF));
    return a;
}
int32_t i32(const json& a)
{
    uint32_t u = 0;
    for (int i = 0; i < 4; ++i)
        u = (u << 8) | (uint32_t)a.at(i).get<int>();
    return (int32_t)u;
}
json ji32(int32_t v)
{
    uint32_t u = (uint32_t)v;
    json a = json::array();
    for (int i = 3; i >= 0; --i)
        a.push_back((int)((u >> (8 * i)) & 0xFF));
    return a;
}
std::string str(const json& a)
{
    std::string s;
    for (auto& b : a)
        s.push_back((char)b.get<int>());
    return s;
}
json jstr(const std::string& s)
{
    json a = json::array();
    for (unsigned char c : s)
        a.push_back((int)c);
    return a;
}
bytes blob(const json& a)
{
    // allocated to the exact size: a decoder that reads one byte beyond its input must land in the allocator's red zone, not in
    // spare capacity a growing vector happens to have (seeded change C05h: a one-byte over-read of the uncompressed loops blob)
    bytes b;
    b.reserve(a.size());
    for (auto& x : a)
        b.push_back((std::byte)x.get<int>());
    return b;
}
json jblob(const bytes& b)
{
    json a = json::array();
    for (auto x : b)
        a.push_back((int)x);
    return a;
}
dj::pad_color color(const json& c) { return dj::pad_color{(uint8_t)c.at("r").get<int>(), (uint8_t)c.at("g").get<int>(), (uint8_t)c.at("b").get<int>(), (uint8_t)c.at("a").get<int>()}; }

// ------------------------------------------------------------------ v2 structs
v2::track_data_blob td2(const json& v)
{
    v2::track_data_blob b{};
    b.sample_rate = f64(v.at("rate"));
    b.samples = i64(v.at("samples"));
    b.key = i32(v.at("key"));
    b.average_loudness_low = f64(v.at("low"));
    b.average_loudness_mid = f64(v.at("mid"));
    b.average_loudness_high = f64(v.at("high"));
    b.extra_data = blob(v.at("extra"));
    return b;
}
json jtd2(const v2::track_data_blob& b)
{
    return {{"rate", jf64(b.sample_rate)}, {"samples", ji64(b.samples)}, {"key", ji32(b.key)}, {"low", jf64(b.average_loudness_low)},
            {"mid", jf64(b.average_loudness_mid)}, {"high", jf64(b.average_loudness_high)}, {"extra", jblob(b.extra_data)}};
}
std::vector<v2::beat_grid_marker_blob> grid2(const json& g)
{
    std::vector<v2::beat_grid_marker_blob> r;
    for (auto& m : g)
    {
        v2::beat_grid_marker_blob x{};
        x.sample_offset = f64(m.at("off"));
        x.beat_number = i64(m.at("beat"));
        x.number_of_beats = i32(m.at("nbeats"));
        x.unknown_value_1 = i32(m.at("unk"));
        r.push_back(x);
    }
    return r;
}
json jgrid2(const std::vector<v2::beat_grid_marker_blob>& g)
{
    json a = json::array();
    for (auto& m : g)
        a.push_back({{"off", jf64(m.sample_offset)}, {"beat", ji64(m.beat_number)}, {"nbeats", ji32(m.number_of_beats)}, {"unk", ji32(m.unknown_value_1)}});
    return a;
}
v2::beat_data_blob bd2(const json& v)
{
    v2::beat_data_blob b{};
    b.sample_rate = f64(v.at("rate"));
    b.samples = f64(v.at("samples"));
    b.is_beatgrid_set = (uint8_t)v.at("isset").get<int>();
    b.default_beat_grid = grid2(v.at("dflt"));
    b.adjusted_beat_grid = grid2(v.at("adj"));
    b.extra_data = blob(v.at("extra"));
    return b;
}
json jbd2(const v2::beat_data_blob& b)
{
    return {{"rate", jf64(b.sample_rate)}, {"samples", jf64(b.samples)}, {"isset", (int)b.is_beatgrid_set}, {"dflt", jgrid2(b.default_beat_grid)},
            {"adj", jgrid2(b.adjusted_beat_grid)}, {"extra", jblob(b.extra_data)}};
}
v2::quick_cues_blob qc2(const json& v)
{
    v2::quick_cues_blob b{};
    for (auto& c : v.at("cues"))
    {
        v2::quick_cue_blob q{};
        q.label = str(c.at("label"));
        q.sample_offset = f64(c.at("off"));
        q.color = color(c);
        b.quick_cues.push_back(q);
    }
    b.adjusted_main_cue = f64(v.at("adj"));
    b.is_main_cue_adjusted = v.at("isadj").get<int>() != 0;
    b.default_main_cue = f64(v.at("dflt"));
    b.extra_data = blob(v.at("extra"));
    return b;
}
json jqc2(const v2::quick_cues_blob& b)
{
    json cues = json::array();
    for (auto& q : b.quick_cues)
        cues.push_back({{"label", jstr(q.label)}, {"off", jf64(q.sample_offset)}, {"a", q.color.a}, {"r", q.color.r}, {"g", q.color.g}, {"b", q.color.b}});
    return {{"cues", cues}, {"adj", jf64(b.adjusted_main_cue)}, {"isadj", b.is_main_cue_adjusted ? 1 : 0}, {"dflt", jf64(b.default_main_cue)}, {"extra", jblob(b.extra_data)}};
}
v2::loops_blob lp2(const json& v)
{
    v2::loops_blob b{};
    for (auto& c : v.at("loops"))
    {
        v2::loop_blob l{};
        l.label = str(c.at("label"));
        l.start_sample_offset = f64(c.at("start"));
        l.end_sample_offset = f64(c.at("end"));
        l.is_start_set = (uint8_t)c.at("ss").get<int>();
        l.is_end_set = (uint8_t)c.at("es").get<int>();
        l.color = color(c);
        b.loops.push_back(l);
    }
    b.extra_data = blob(v.at("extra"));
    return b;
}
json jlp2(const v2::loops_blob& b)
{
    json ls = json::array();
    for (auto& l : b.loops)
        ls.push_back({{"label", jstr(l.label)}, {"start", jf64(l.start_sample_offset)}, {"end", jf64(l.end_sample_offset)}, {"ss", (int)l.is_start_set},
                      {"es", (int)l.is_end_set}, {"a", l.color.a}, {"r", l.color.r}, {"g", l.color.g}, {"b", l.color.b}});
    return {{"loops", ls}, {"extra", jblob(b.extra_data)}};
}
v2::overview_waveform_data_blob ov2(const json& v)
{
    v2::overview_waveform_data_blob b{};
    for (auto& p : v.at("pts"))
        b.waveform_points.push_back(v2::overview_waveform_point{(uint8_t)p.at("l").get<int>(), (uint8_t)p.at("m").get<int>(), (uint8_t)p.at("h").get<int>()});
    b.samples_per_waveform_point = f64(v.at("spp"));
    auto& m = v.at("max");
    b.maximum_point = v2::overview_waveform_point{(uint8_t)m.at("l").get<int>(), (uint8_t)m.at("m").get<int>(), (uint8_t)m.at("h").get<int>()};
    b.extra_data = blob(v.at("extra"));
    return b;
}
json jov2(const v2::overview_waveform_data_blob& b)
{
    json pts = json::array();
    for (auto& p : b.waveform_points)
        pts.push_back({{"l", p.low_value}, {"m", p.mid_value}, {"h", p.high_value}});
    return {{"pts", pts}, {"spp", jf64(b.samples_per_waveform_point)},
            {"max", {{"l", b.maximum_point.low_value}, {"m", b.maximum_point.mid_value}, {"h", b.maximum_point.high_value}}}, {"extra", jblob(b.extra_data)}};
}

// ------------------------------------------------------------------ v1 structs (optionals as arrays of length <= 1)
template <typename T, typename F>
std::optional<T> opt(const json& a, F f)
{
    if (a.empty())
        return std::nullopt;
    return f(a.at(0));
}
v1::track_data td1(const json& v)
{
    v1::track_data t;
    t.sample_rate = opt<double>(v.at("rate"), f64);
    t.sample_count = opt<int64_t>(v.at("count"), i64);
    t.average_loudness = opt<double>(v.at("loud"), f64);
    if (!v.at("key").empty())
        t.key = static_cast<dj::musical_key>(v.at("key").at(0).get<int>());
    return t;
}
json jtd1(const v1::track_data& t)
{
    return {{"rate", t.sample_rate ? json::array({jf64(*t.sample_rate)}) : json::array()},
            {"count", t.sample_count ? json::array({ji64(*t.sample_count)}) : json::array()},
            {"loud", t.average_loudness ? json::array({jf64(*t.average_loudness)}) : json::array()},
            {"key", t.key ? json::array({(int)*t.key}) : json::array()}};
}
std::vector<dj::beatgrid_marker> grid1(const json& g)
{
    std::vector<dj::beatgrid_marker> r;
    for (auto& m : g)
        r.push_back(dj::beatgrid_marker{m.at("idx").get<int>(), f64(m.at("off"))});
    return r;
}
json jgrid1(const std::vector<dj::beatgrid_marker>& g)
{
    json a = json::array();
    for (auto& m : g)
        a.push_back({{"idx", m.index}, {"off", jf64(m.sample_offset)}});
    return a;
}
bool sorted1(const std::vector<dj::beatgrid_marker>& g)
{
    for (size_t i = 1; i < g.size(); ++i)
        if (!(g[i].index > g[i - 1].index && g[i].sample_offset > g[i - 1].sample_offset))
            return false;
    return true;
}
v1::beat_data bd1(const json& v)
{
    v1::beat_data b;
    b.sample_rate = opt<double>(v.at("rate"), f64);
    b.sample_count = opt<double>(v.at("count"), f64);
    b.default_beatgrid = grid1(v.at("dflt"));
    b.adjusted_beatgrid = grid1(v.at("adj"));
    return b;
}
json jbd1(const v1::beat_data& b)
{
    return {{"rate", b.sample_rate ? json::array({jf64(*b.sample_rate)}) : json::array()},
            {"count", b.sample_count ? json::array({jf64(*b.sample_count)}) : json::array()},
            {"dflt", jgrid1(b.default_beatgrid)}, {"adj", jgrid1(b.adjusted_beatgrid)}};
}
std::vector<dj::waveform_entry> wf(const json& pts)
{
    std::vector<dj::waveform_entry> w;
    for (auto& p : pts)
    {
        dj::waveform_entry e;
        e.low = {(uint8_t)p.at("l").get<int>(), (uint8_t)p.at("lo").get<int>()};
        e.mid = {(uint8_t)p.at("m").get<int>(), (uint8_t)p.at("mo").get<int>()};
        e.high = {(uint8_t)p.at("h").get<int>(), (uint8_t)p.at("ho").get<int>()};
        w.push_back(e);
    }
    return w;
}
json jwf(const std::vector<dj::waveform_entry>& w)
{
    json a = json::array();
    for (auto& e : w)
        a.push_back({{"l", e.low.value}, {"m", e.mid.value}, {"h", e.high.value}, {"lo", e.low.opacity}, {"mo", e.mid.opacity}, {"ho", e.high.opacity}});
    return a;
}
v1::loops_data lp1(const json& v)
{
    v1::loops_data d;
    for (auto& o : v.at("loops"))
    {
        if (o.empty())
        {
            d.loops.push_back(std::nullopt);
            continue;
        }
        auto& c = o.at(0);
        d.loops.push_back(dj::loop{str(c.at("label")), f64(c.at("start")), f64(c.at("end")), color(c)});
    }
    return d;
}
json jlp1(const v1::loops_data& d)
{
    json ls = json::array();
    for (auto& o : d.loops)
        ls.push_back(o ? json::array({{{"label", jstr(o->label)}, {"start", jf64(o->start_sample_offset)}, {"end", jf64(o->end_sample_offset)},
                                       {"a", o->color.a}, {"r", o->color.r}, {"g", o->color.g}, {"b", o->color.b}}})
                       : json::array());
    return {{"loops", ls}};
}
v1::quick_cues_data qc1(const json& v)
{
    v1::quick_cues_data d;
    for (auto& o : v.at("cues"))
    {
        if (o.empty())
        {
            d.hot_cues.push_back(std::nullopt);
            continue;
        }
        auto& c = o.at(0);
        d.hot_cues.push_back(dj::hot_cue{str(c.at("label")), f64(c.at("off")), color(c)});
    }
    d.adjusted_main_cue = f64(v.at("adj"));
    d.default_main_cue = f64(v.at("dflt"));
    return d;
}
json jqc1(const v1::quick_cues_data& d)
{
    json cs = json::array();
    for (auto& o : d.hot_cues)
        cs.push_back(o ? json::array({{{"label", jstr(o->label)}, {"off", jf64(o->sample_offset)}, {"a", o->color.a}, {"r", o->color.r},
                                       {"g", o->color.g}, {"b", o->color.b}}})
                       : json::array());
    return {{"cues", cs}, {"adj", jf64(d.adjusted_main_cue)}, {"dflt", jf64(d.default_main_cue)}};
}

// ------------------------------------------------------------------ generic dispatch
bytes encode(const std::string& k, const json& v, json& aux)
{
    if (k == "track_data2") return td2(v).to_blob();
    if (k == "beat_data2") return bd2(v).to_blob();
    if (k == "quick_cues2") return qc2(v).to_blob();
    if (k == "loops2") return lp2(v).to_blob();
    if (k == "overview2") return ov2(v).to_blob();
    if (k == "track_data1") return td1(v).encode();
    if (k == "beat_data1")
    {
        auto b = bd1(v);
        aux["dflt_sorted"] = sorted1(b.default_beatgrid);
        aux["adj_sorted"] = sorted1(b.adjusted_beatgrid);
        return b.encode();
    }
    if (k == "hires1") return v1::high_res_waveform_data{f64(v.at("spe")), wf(v.at("pts"))}.encode();
    if (k == "overview1") return v1::overview_waveform_data{f64(v.at("spe")), wf(v.at("pts"))}.encode();
    if (k == "loops1") return lp1(v).encode();
    if (k == "quick_cues1") return qc1(v).encode();
    throw std::runtime_error("unknown kind " + k);
}
json decode(const std::string& k, const bytes& b)
{
    if (k == "track_data2") return jtd2(v2::track_data_blob::from_blob(b));
    if (k == "beat_data2") return jbd2(v2::beat_data_blob::from_blob(b));
    if (k == "quick_cues2") return jqc2(v2::quick_cues_blob::from_blob(b));
    if (k == "loops2") return jlp2(v2::loops_blob::from_blob(b));
    if (k == "overview2") return jov2(v2::overview_waveform_data_blob::from_blob(b));
    if (k == "track_data1") return jtd1(v1::track_data::decode(b));
    if (k == "beat_data1") return jbd1(v1::beat_data::decode(b));
    if (k == "hires1")
    {
        auto d = v1::high_res_waveform_data::decode(b);
        return {{"spe", jf64(d.samples_per_entry)}, {"pts", jwf(d.waveform)}};
    }
    if (k == "overview1")
    {
        auto d = v1::overview_waveform_data::decode(b);
        return {{"spe", jf64(d.samples_per_entry)}, {"pts", jwf(d.waveform)}};
    }
    if (k == "loops1") return jlp1(v1::loops_data::decode(b));
    if (k == "quick_cues1") return jqc1(v1::quick_cues_data::decode(b));
    if (k == "zlib")
    {
        auto r = dj::engine::zlib_uncompress(b);
        return {{"len", (int64_t)r.size()}};
    }
    throw std::runtime_error("unknown kind " + k);
}
bool compressed(const std::string& k) { return k != "loops1" && k != "loops2"; }

// un-frame with plain zlib (not the library's zlib_uncompress)
bool unframe(const std::string& k, const bytes& b, bytes& payload, json& prefix)
{
    prefix = json::array();
    if (!compressed(k))
    {
        payload = b;
        return true;
    }
    if (b.size() < 4)
        return false;
    for (int i = 0; i < 4; ++i)
        prefix.push_back((int)b[i]);
    uLongf cap = ((uLongf)b[0] << 24 | (uLongf)b[1] << 16 | (uLongf)b[2] << 8 | (uLongf)b[3]) + 64;
    for (int attempt = 0; attempt < 6; ++attempt)
    {
        payload.resize(cap);
        uLongf n = cap;
        int rc = uncompress((Bytef*)payload.data(), &n, (const Bytef*)b.data() + 4, (uLong)b.size() - 4);
        if (rc == Z_OK)
        {
            payload.resize(n);
            return true;
        }
        if (rc != Z_BUF_ERROR)
            return false;
        cap *= 4;
    }
    return false;
}
bytes frame(const std::string& k, const bytes& payload)
{
    if (!compressed(k))
        return payload;
    uLongf n = compressBound((uLong)payload.size());
    bytes out(4 + n);
    compress2((Bytef*)out.data() + 4, &n, (const Bytef*)payload.data(), (uLong)payload.size(), 6);
    out.resize(4 + n);
    out[0] = (std::byte)((payload.size() >> 24) & 0xFF);
    out[1] = (std::byte)((payload.size() >> 16) & 0xFF);
    out[2] = (std::byte)((payload.size() >> 8) & 0xFF);
    out[3] = (std::byte)(payload.size() & 0xFF);
    return out;
}

json zsummary()
{
    json z;
    long calls = 0, bad = 0, stalled = 0;
    bool prev_stall = false;
    for (auto& r : shim::zlog())
    {
        ++calls;
        if (!r.in_ok || !r.out_ok)
            ++bad;
        bool stall = r.used == 0 && r.made == 0 && r.ret != 1 /*Z_STREAM_END*/;
        if (stall && prev_stall)
            ++stalled;
        prev_stall = stall;
    }
    json lg = json::array();
    for (auto& r : shim::zlog())
    {
        if (lg.size() >= 48)
            break;
        lg.push_back({{"ai", r.avail_in}, {"ao", r.avail_out}, {"used", r.used}, {"made", r.made}, {"ret", r.ret}, {"inok", r.in_ok}, {"outok", r.out_ok}});
    }
    z["log"] = lg;   // the hand-offs themselves (first 48): judged by TLC against InflateLoop!CallOK / Stalled
    z["calls"] = calls;
    z["bad_handoff"] = bad;        // a region handed to zlib was not addressable (sanitizer flavour)
    z["stalled"] = stalled;        // two consecutive calls that neither consumed, produced nor ended
    z["over"] = shim::z_over_limit();
    return z;
}
}  // namespace

int main(int argc, char** argv)
{
    if (argc < 4)
        return 2;
    std::string mode = argv[1];
    std::ifstream in(argv[2]);
    FILE* out = fopen(argv[3], "w");
    if (!in || !out)
        return 2;
    vh::g_trace_fd = fileno(out);
    vh::install_handlers();
    vh::g_watchdog_s = 5;
    shim::z_set_limit(100000);
    std::string line;
    while (std::getline(in, line))
    {
        if (line.empty())
            continue;
        json p = json::parse(line);
        std::string k = p.at("kind");
        json r;
        r["kind"] = k;
        if (p.contains("tag"))
            r["tag"] = p["tag"];
        if (mode == "enc")
        {
            r["v"] = p.at("v");
            json aux = json::object();
            aux["dflt_sorted"] = true;
            aux["adj_sorted"] = true;
            bytes b;
            auto oc = vh::guarded("encode", [&] { b = encode(k, p.at("v"), aux); });
            r["aux"] = aux;
            json e = {{"out", oc.ok ? "ok" : "throw"}, {"ex", oc.ex}, {"std", oc.std_exc}, {"payload", json::array()}, {"prefix", json::array()}, {"framed", true}};
            json d = {{"out", "none"}, {"ex", ""}, {"std", true}, {"v", json::object()}};
            if (oc.ok)
            {
                bytes payload;
                json prefix;
                bool ok = unframe(k, b, payload, prefix);
                e["framed"] = ok;
                e["payload"] = jblob(payload);
                e["prefix"] = prefix;
                json dv;
                auto od = vh::guarded("decode", [&] { dv = decode(k, b); });
                d["out"] = od.ok ? "ok" : "throw";
                d["ex"] = od.ex;
                d["std"] = od.std_exc;
                if (od.ok)
                    d["v"] = dv;
            }
            if (p.value("big", false))
            {
                // a value at a corner of the domain (tens of thousands of markers / points): bytes and values are too large
                // for TLC to compare, so the record carries sizes and the harness's own verdict on the round trip
                r["big"] = true;
                r["same"] = d["out"] == "ok" && d["v"] == p.at("v");
                r["plen"] = e["payload"].size();
                json pf = e["prefix"];
                size_t n = e["payload"].size();
                r["prefix_ok"] = pf.is_array() && pf.size() == 4 && pf[0] == (int)((n >> 24) & 255) && pf[1] == (int)((n >> 16) & 255) &&
                                 pf[2] == (int)((n >> 8) & 255) && pf[3] == (int)(n & 255);
                json sizes = json::object();
                for (auto& [key, val] : p.at("v").items())
                    if (val.is_array())
                        sizes[key] = val.size();
                r["n"] = sizes;
                r.erase("v");
                e.erase("payload");
                d.erase("v");
            }
            r["enc"] = e;
            r["dec"] = d;
        }
        else if (mode == "dec")
        {
            r["payload"] = p.at("payload");
            bytes payload = blob(p.at("payload"));
            bytes b = frame(k, payload);
            json dv;
            auto od = vh::guarded("decode", [&] { dv = decode(k, b); });
            json d = {{"out", od.ok ? "ok" : "throw"}, {"ex", od.ex}, {"std", od.std_exc}, {"v", od.ok ? dv : json::object()}};
            json re = {{"out", "none"}, {"payload", json::array()}, {"prefix", json::array()}, {"framed", true}};
            if (od.ok)
            {
                json aux = json::object();
                bytes b2;
                auto oe = vh::guarded("re-encode", [&] { b2 = encode(k, dv, aux); });
                re["out"] = oe.ok ? "ok" : "throw";
                if (oe.ok)
                {
                    bytes p2;
                    json prefix;
                    re["framed"] = unframe(k, b2, p2, prefix);
                    re["payload"] = jblob(p2);
                    re["prefix"] = prefix;
                }
            }
            r["dec"] = d;
            r["re"] = re;
        }
        else
        {
            bytes b = blob(p.at("blob"));
            r["n"] = (int64_t)b.size();
            shim::z_begin();
            auto od = vh::guarded("decode-raw", [&] { decode(k, b); });
            r["out"] = od.ok ? "ok" : "throw";
            r["ex"] = od.ex;
            r["std"] = od.std_exc;
            r["z"] = zsummary();
        }
        vh::emit(r);
    }
    fclose(out);
    return 0;
}
