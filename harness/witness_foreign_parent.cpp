// Witness: crate::set_parent() with a crate handle that belongs to ANOTHER database object whose ids coincide with ours.
#include <djinterop/djinterop.hpp>
#include <cstdio>
#include <unistd.h>
#include <sys/wait.h>
namespace dj = djinterop;
int main()
{
    int bad = 0;
    for (auto sch : {dj::engine::engine_schema::schema_1_18_0_os, dj::engine::engine_schema::schema_2_21_2})
    {
        fflush(nullptr);
        pid_t pid = fork();
        if (pid == 0)
        {
            alarm(10);
            auto a = dj::engine::create_temporary_database(sch);
            auto b = dj::engine::create_temporary_database(sch);
            // ours: 1 -> 2 (2 is a child of 1);  theirs: 1 and 2 are both roots
            auto a1 = a.create_root_crate("one");
            auto a2 = a1.create_sub_crate("two");
            auto b1 = b.create_root_crate("one");
            auto b2 = b.create_root_crate("two");
            try
            {
                a1.set_parent(b2);   // in OUR library crate 2 is a descendant of crate 1
                printf("accepted\n");
            }
            catch (const std::exception& e)
            {
                printf("threw %s\n", e.what());
                _exit(0);
            }
            // if it was accepted: do the queries still terminate?
            auto d = a1.descendants();
            printf("descendants: %zu\n", d.size());
            auto all = a.crates();
            for (auto& c : all)
            {
                auto p = c.parent();
                printf("crate %lld parent %lld\n", (long long)c.id(), p ? (long long)p->id() : 0LL);
            }
            a.remove_crate(a1);
            printf("removed\n");
            _exit(0);
        }
        int st = 0;
        waitpid(pid, &st, 0);
        if (WIFSIGNALED(st))
        {
            printf("schema %d: child killed by signal %d\n", (int)sch, WTERMSIG(st));
            bad = 1;
        }
        else
            printf("schema %d: exit %d\n", (int)sch, WEXITSTATUS(st));
    }
    return bad ? 3 : 0;
}
