// trackrow.hpp: generator of schema-2.x track_row values in which every column holds a value that no other
// same-typed column holds, and their JSON rendering (shared by tabledriver and auxdriver).
#pragma once
#include <djinterop/djinterop.hpp>
#include <djinterop/engine/v2/engine_library.hpp>

#include "common.hpp"
#include "snapjson.hpp"

namespace trow
{
namespace dj = djinterop;
namespace v2 = djinterop::engine::v2;
using vh::json;
using tp = std::chrono::system_clock::time_point;

// ---- column table of track_row: kind, field ----
#define TRACK_COLUMNS(X)                                                                                              \
    X(OI, play_order) X(I, length) X(OI, bpm) X(OI, year) X(S, path) X(S, filename) X(OI, bitrate) X(OD, bpm_analyzed)   \
    X(I, album_art_id) X(OI, file_bytes) X(OS, title) X(OS, artist) X(OS, album) X(OS, genre) X(OS, comment)          \
    X(OS, label) X(OS, composer) X(OS, remixer) X(OK, key) X(I, rating) X(OS, album_art) X(OT, time_last_played)      \
    X(B, is_played) X(S, file_type) X(B, is_analyzed) X(TT, date_created) X(TT, date_added) X(B, is_available)        \
    X(B, is_metadata_of_packed_track_changed) X(B, is_performance_data_of_packed_track_changed)                       \
    X(OI, played_indicator) X(B, is_metadata_imported) X(I, pdb_import_key) X(OS, streaming_source) X(OS, uri)        \
    X(B, is_beat_grid_locked) X(S, origin_database_uuid) X(I, origin_track_id) X(BL, track_data)                      \
    X(BL, overview_waveform_data) X(BL, beat_data) X(BL, quick_cues) X(BL, loops) X(OI, third_party_source_id)        \
    X(I, streaming_flags) X(B, explicit_lyrics) X(OI, active_on_load_loops) X(T, last_edit_time)

inline json jI(int64_t v) { return sj::jint(v); }
inline json jOI(const std::optional<int64_t>& v) { return v ? json::array({sj::jint(*v)}) : json::array(); }
inline json jOK(const std::optional<int32_t>& v) { return v ? json::array({(int)*v}) : json::array(); }
inline json jS(const std::string& s) { return sj::tok(s); }
inline json jOS(const std::optional<std::string>& s) { return s ? json::array({sj::tok(*s)}) : json::array(); }
inline json jOD(const std::optional<double>& d) { return d ? json::array({sj::dbits(*d)}) : json::array(); }
inline json jB(bool b) { return b; }
inline json jT(tp t) { return sj::jtime(t); }
inline json jTT(tp t) { return sj::jtime(t); }
inline json jOT(const std::optional<tp>& t) { return t ? json::array({sj::jtime(*t)}) : json::array(); }
template <typename Blob>
inline json jBL(const Blob& b)
{
    auto bytes = b.to_blob();
    return "#" + std::to_string(bytes.size()) + ":" + sj::hex16(sj::fnv(bytes.data(), bytes.size()));
}

inline json row_json(const v2::track_row& r)
{
    json j;
    j["id"] = r.id;
#define X(kind, f) j[#f] = j##kind(r.f);
    TRACK_COLUMNS(X)
#undef X
    return j;
}

inline tp mk_time(int ci, int v, bool frac) { return tp{std::chrono::duration_cast<tp::duration>(std::chrono::milliseconds{(1600000000LL + ci * 1000LL + v) * 1000LL + (frac ? 500 : 0)})}; }

// value generator: variant v, mask m (which optionals are absent), serial s (unique path)
// (variant 13 is the EDGE variant: zero, the Unix epoch, the empty string, false - the values a conversion is most likely to
//  confuse with "absent")
struct gen
{
    int v, m, serial, ci = 0;
    bool edge() const { return v == 13; }
    bool absent() const { return m == 1 || (m == 2 && ci % 2 == 0) || (m == 3 && ci % 2 == 1); }
    int64_t I() { return 1000LL * v + ci; }
    void operator()(const char* name, int64_t& x)
    {
        ++ci;
        std::string n = name;
        if (n == "album_art_id")
            x = 1;
        else if (n == "rating")
            x = (v * 7 + ci) % 100 + 1;
        else if (n == "length")
            x = 100 + 10 * v + ci;
        else if (n == "origin_track_id")
            x = v % 3 == 0 ? 0 : I();
        else
            x = edge() ? 0 : I();
    }
    void operator()(const char*, std::optional<int64_t>& x) { ++ci; x = absent() ? std::nullopt : std::make_optional<int64_t>(edge() ? 0 : I()); }
    void operator()(const char*, std::optional<int32_t>& x) { ++ci; x = absent() ? std::nullopt : std::make_optional<int32_t>(edge() ? 0 : (v + ci) % 24); }
    void operator()(const char* name, std::string& x)
    {
        ++ci;
        std::string n = name;
        if (n == "path")
            x = "music/c" + std::to_string(ci) + "v" + std::to_string(v) + "_" + std::to_string(serial) + ".mp3";
        else if (n == "origin_database_uuid")
            x = v % 3 == 0 ? std::string() : "uuid-c" + std::to_string(ci) + "v" + std::to_string(v);
        else
            x = std::string(name) + "-c" + std::to_string(ci) + "v" + std::to_string(v);
    }
    void operator()(const char* name, std::optional<std::string>& x)
    {
        ++ci;
        if (absent())
            x = std::nullopt;
        else if (edge() || (v % 5 == 4 && ci % 4 == 0))
            x = std::string();   // present but empty
        else
            x = std::string(name) + "-c" + std::to_string(ci) + "v" + std::to_string(v);
    }
    void operator()(const char*, std::optional<double>& x) { ++ci; x = absent() ? std::nullopt : std::make_optional(edge() ? 0.0 : ci + v * 0.5); }
    void operator()(const char*, bool& x) { ++ci; x = edge() ? false : (ci + v) % 2 == 0; }
    void operator()(const char*, tp& x) { ++ci; x = edge() ? tp{} : mk_time(ci, v, v % 4 == 3); }
    void operator()(const char*, std::optional<tp>& x) { ++ci; x = absent() ? std::nullopt : std::make_optional(edge() ? tp{} : mk_time(ci, v, v % 4 == 3)); }
    void operator()(const char*, v2::track_data_blob& b) { ++ci; b = v2::track_data_blob{44100.0 + v, 1000 * v + 7, v % 24, 0.5 + v, 0.25 + v, 0.125 + v}; }
    void operator()(const char*, v2::overview_waveform_data_blob& b)
    {
        ++ci;
        b = v2::overview_waveform_data_blob{};
        for (int i = 0; i < v % 4; ++i)
            b.waveform_points.push_back(v2::overview_waveform_point{(uint8_t)(i + v), (uint8_t)(2 * i + v), (uint8_t)(3 * i + v)});
        b.samples_per_waveform_point = 10.0 * v;
        b.maximum_point = v2::overview_waveform_point{(uint8_t)v, (uint8_t)(v + 1), (uint8_t)(v + 2)};
    }
    void operator()(const char*, v2::beat_data_blob& b)
    {
        ++ci;
        b = v2::beat_data_blob{};
        b.sample_rate = 48000.0 + v;
        b.samples = 2000.0 * v;
        b.is_beatgrid_set = 1;
        for (int i = 0; i < 1 + v % 3; ++i)
            b.default_beat_grid.push_back(v2::beat_grid_marker_blob{100.0 * i + v, 4 * i, 4, 0});
        b.adjusted_beat_grid = b.default_beat_grid;
        b.extra_data = std::vector<std::byte>(9, std::byte{0});
    }
    void operator()(const char*, v2::quick_cues_blob& b)
    {
        ++ci;
        b = v2::quick_cues_blob{};
        for (int i = 0; i < 8; ++i)
            b.quick_cues.push_back(i == v % 8 ? v2::quick_cue_blob{"cue" + std::to_string(v), 123.0 + v, dj::pad_color{1, 2, 3, 255}} : v2::quick_cue_blob::empty());
        b.adjusted_main_cue = 5.0 + v;
        b.is_main_cue_adjusted = true;
        b.default_main_cue = 4.0 + v;
    }
    void operator()(const char*, v2::loops_blob& b)
    {
        ++ci;
        b = v2::loops_blob{};
        for (int i = 0; i < 8; ++i)
            b.loops.push_back(i == v % 8 ? v2::loop_blob{"loop" + std::to_string(v), 10.0 + v, 20.0 + v, 1, 1, dj::pad_color{4, 5, 6, 255}} : v2::loop_blob::empty());
    }
};

inline v2::track_row make_row(int v, int m, int serial)
{
    v2::track_row r{};
    r.id = 0;
    gen g{v, m, serial};
#define X(kind, f) g(#f, r.f);
    TRACK_COLUMNS(X)
#undef X
    r.last_edit_time = tp{};
    return r;
}
}  // namespace trow
