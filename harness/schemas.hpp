#pragma once
#include <djinterop/engine/engine_schema.hpp>

#include <stdexcept>
#include <string>

namespace vh
{
using djinterop::engine::engine_schema;

struct schema_name
{
    const char* name;
    engine_schema schema;
};

inline const schema_name all_schemas[] = {
    {"1.6.0", engine_schema::schema_1_6_0},    {"1.7.1", engine_schema::schema_1_7_1},
    {"1.9.1", engine_schema::schema_1_9_1},    {"1.11.1", engine_schema::schema_1_11_1},
    {"1.13.0", engine_schema::schema_1_13_0},  {"1.13.1", engine_schema::schema_1_13_1},
    {"1.13.2", engine_schema::schema_1_13_2},  {"1.15.0", engine_schema::schema_1_15_0},
    {"1.17.0", engine_schema::schema_1_17_0},  {"1.18.0d", engine_schema::schema_1_18_0_desktop},
    {"1.18.0o", engine_schema::schema_1_18_0_os}, {"2.18.0", engine_schema::schema_2_18_0},
    {"2.20.1", engine_schema::schema_2_20_1},  {"2.20.2", engine_schema::schema_2_20_2},
    {"2.20.3", engine_schema::schema_2_20_3},  {"2.21.0", engine_schema::schema_2_21_0},
    {"2.21.1", engine_schema::schema_2_21_1},  {"2.21.2", engine_schema::schema_2_21_2},
    {"3.0.0", engine_schema::schema_3_0_0},
};

inline engine_schema schema_by_name(const std::string& n)
{
    for (auto& s : all_schemas)
        if (n == s.name)
            return s.schema;
    throw std::runtime_error("unknown schema name " + n);
}

inline std::string name_of(engine_schema s)
{
    for (auto& e : all_schemas)
        if (e.schema == s)
            return e.name;
    return "ordinal" + std::to_string((int)s);
}

inline bool is_v2(engine_schema s) { return s >= engine_schema::schema_2_18_0; }
}  // namespace vh
