// Shared pieces of the harness programs: trace output that survives crashes, watchdog,
// exception classification, independent raw reader (plain SQLite C API, bypassing the shims).
#pragma once
#include <cxxabi.h>
#include <signal.h>
#include <sys/time.h>
#include <sqlite3.h>
#include <unistd.h>

#include <cstdint>
#include <cstdio>
#include <cstring>
#include <exception>
#include <functional>
#include <nlohmann/json.hpp>
#include <string>
#include <typeinfo>
#include <vector>

#include "shim.hpp"

extern "C"
{
    int __real_sqlite3_prepare_v2(sqlite3*, const char*, int, sqlite3_stmt**, const char**);
    int __real_sqlite3_step(sqlite3_stmt*);
}

namespace vh
{
using json = nlohmann::json;

// ---------------------------------------------------------------- trace output
inline int g_trace_fd = 1;
inline const char* g_current_op = "";
inline long g_records = 0;
inline int g_watchdog_s = 10;

inline void emit(const json& j)
{
    std::string s = j.dump(-1, ' ', false, json::error_handler_t::replace);
    s.push_back('\n');
    size_t off = 0;
    while (off < s.size())
    {
        ssize_t n = ::write(g_trace_fd, s.data() + off, s.size() - off);
        if (n <= 0)
            break;
        off += (size_t)n;
    }
    ++g_records;
}

inline void raw_line(const char* s)
{
    ssize_t r = ::write(g_trace_fd, s, strlen(s));
    (void)r;
}

inline void on_signal(int sig)
{
    char buf[256];
    const bool hang = sig == SIGALRM || sig == SIGPROF;
    const char* what = hang ? "hang" : "died";
    snprintf(buf, sizeof buf, "{\"e\":\"%s\",\"sig\":%d,\"in\":\"%s\",\"after\":%ld}\n", what, sig, g_current_op, g_records);
    raw_line(buf);
    _exit(hang ? 97 : 98);
}

inline void on_terminate()
{
    char buf[256];
    snprintf(buf, sizeof buf, "{\"e\":\"died\",\"sig\":0,\"in\":\"%s\",\"after\":%ld,\"why\":\"terminate\"}\n", g_current_op, g_records);
    raw_line(buf);
    _exit(98);
}

inline void install_handlers()
{
    struct sigaction sa;
    memset(&sa, 0, sizeof sa);
    sa.sa_handler = on_signal;
    for (int s : {SIGSEGV, SIGBUS, SIGFPE, SIGILL, SIGABRT, SIGALRM, SIGPROF})
        sigaction(s, &sa, nullptr);
    std::set_terminate(on_terminate);
}

struct call_guard
{
    // The watchdog counts the CPU time of this process (a call that does not terminate burns it), so that a verdict does not depend
    // on how busy the machine is; a wall-clock alarm thirty times as long is the backstop for a call that blocks without computing.
    static void arm(int secs)
    {
        struct itimerval it;
        memset(&it, 0, sizeof it);
        it.it_value.tv_sec = secs;
        setitimer(ITIMER_PROF, &it, nullptr);
        alarm(secs > 0 ? (unsigned)secs * 30u : 0u);
    }
    explicit call_guard(const char* op) { g_current_op = op; arm(g_watchdog_s); }
    ~call_guard() { arm(0); }
};

// ---------------------------------------------------------------- exceptions
inline std::string demangle(const char* n)
{
    int st = 0;
    char* d = abi::__cxa_demangle(n, nullptr, nullptr, &st);
    std::string r = (st == 0 && d) ? d : n;
    free(d);
    auto p = r.rfind("::");
    return p == std::string::npos ? r : r.substr(p + 2);
}

struct outcome
{
    bool ok = true;
    bool std_exc = true;
    std::string ex;   // class name (last component)
    std::string msg;
};

// Runs f, classifies what it throws.
template <typename F>
outcome guarded(const char* opname, F&& f)
{
    outcome o;
    call_guard g{opname};
    try
    {
        f();
    }
    catch (const std::exception& e)
    {
        o.ok = false;
        o.ex = demangle(typeid(e).name());
        o.msg = e.what();
    }
    catch (...)
    {
        o.ok = false;
        o.std_exc = false;
        o.ex = "non-std";
    }
    return o;
}

// ---------------------------------------------------------------- independent reader
// Plain C API on the library's own connection (needed for :memory: libraries), through the
// *real* entry points so that these statements are neither counted nor faulted by the shim.
struct raw_reader
{
    sqlite3* db;
    explicit raw_reader(sqlite3* d) : db(d) {}

    // Calls row(stmt) for every result row; returns false if the statement cannot be prepared.
    bool query(const std::string& sql, const std::function<void(sqlite3_stmt*)>& row) const
    {
        sqlite3_stmt* st = nullptr;
        if (__real_sqlite3_prepare_v2(db, sql.c_str(), -1, &st, nullptr) != SQLITE_OK || !st)
            return false;
        int rc;
        while ((rc = __real_sqlite3_step(st)) == SQLITE_ROW)
            row(st);
        sqlite3_finalize(st);
        return rc == SQLITE_DONE;
    }

    // PRAGMA foreign_key_check inspects ONE schema ("main" unless qualified).  A 1.x library keeps its tables in attached
    // databases (main is an empty in-memory database), so every attached database is checked by name.  A foreign key whose
    // parent table lives in another file (1.x PerformanceData -> Track) cannot be judged by SQLite and is left out.
    std::vector<std::string> fk_violations() const
    {
        std::vector<std::string> dbs, out;
        query("PRAGMA database_list", [&](sqlite3_stmt* st) {
            const unsigned char* p = sqlite3_column_text(st, 1);
            if (p && std::string((const char*)p) != "temp")
                dbs.push_back((const char*)p);
        });
        for (auto& d : dbs)
        {
            std::vector<std::pair<std::string, std::string>> found;
            query("PRAGMA \"" + d + "\".foreign_key_check", [&](sqlite3_stmt* st) {
                const unsigned char* c = sqlite3_column_text(st, 0);
                const unsigned char* p = sqlite3_column_text(st, 2);
                found.emplace_back(c ? (const char*)c : "", p ? (const char*)p : "");
            });
            for (auto& f : found)
            {
                bool parent_here = false;
                query("SELECT 1 FROM \"" + d + "\".sqlite_master WHERE type = 'table' AND lower(name) = lower('" + f.second + "')",
                      [&](sqlite3_stmt*) { parent_here = true; });
                if (parent_here)
                    out.push_back(d + "." + f.first + "->" + f.second);
            }
        }
        return out;
    }

    // Rows as arrays; integers that fit 31 bits as numbers, wider ones as decimal strings,
    // NULL as the typed sentinels -999999 / "<NULL>" chosen by `types` ('i' or 't' per column).
    json rows(const std::string& sql, const std::string& types) const
    {
        json out = json::array();
        bool ok = query(sql, [&](sqlite3_stmt* st) {
            json r = json::array();
            int n = sqlite3_column_count(st);
            for (int i = 0; i < n; ++i)
            {
                char t = i < (int)types.size() ? types[i] : 't';
                int ct = sqlite3_column_type(st, i);
                if (t == 'i')
                {
                    if (ct == SQLITE_NULL)
                        r.push_back(-999999);
                    else
                    {
                        sqlite3_int64 v = sqlite3_column_int64(st, i);
                        if (v > -1000000000LL && v < 1000000000LL)
                            r.push_back((int64_t)v);
                        else
                            r.push_back(std::to_string(v));
                    }
                }
                else
                {
                    if (ct == SQLITE_NULL)
                        r.push_back("<NULL>");
                    else
                    {
                        const unsigned char* p = sqlite3_column_text(st, i);
                        r.push_back(std::string(p ? (const char*)p : ""));
                    }
                }
            }
            out.push_back(std::move(r));
        });
        if (!ok)
            return json("<query failed>");
        return out;
    }

    int64_t scalar(const std::string& sql, int64_t dflt = -1) const
    {
        int64_t v = dflt;
        query(sql, [&](sqlite3_stmt* st) { v = sqlite3_column_int64(st, 0); });
        return v;
    }

    std::string text(const std::string& sql) const
    {
        std::string v;
        query(sql, [&](sqlite3_stmt* st) {
            const unsigned char* p = sqlite3_column_text(st, 0);
            v = p ? (const char*)p : "<NULL>";
        });
        return v;
    }

    static void fnv(uint64_t& h, const void* p, size_t n)
    {
        const unsigned char* c = (const unsigned char*)p;
        for (size_t i = 0; i < n; ++i)
        {
            h ^= c[i];
            h *= 1099511628211ULL;
        }
    }

    // Digest of every row of every table (and sqlite_sequence) of every attached database.
    std::string digest() const { return digest_of(""); }
    // names of the attached databases that are backed by a file
    std::vector<std::string> file_schemas() const
    {
        std::vector<std::string> out;
        query("PRAGMA database_list", [&](sqlite3_stmt* st) {
            const unsigned char* f = sqlite3_column_text(st, 2);
            if (f && *f)
                out.push_back((const char*)sqlite3_column_text(st, 1));
        });
        return out;
    }
    // digest of one attached database ("" = all of them)
    std::string digest_of(const std::string& only) const
    {
        uint64_t h = 1469598103934665603ULL;
        std::vector<std::string> schemas;
        query("PRAGMA database_list", [&](sqlite3_stmt* st) {
            std::string n = (const char*)sqlite3_column_text(st, 1);
            if (only.empty() || n == only)
                schemas.push_back(n);
        });
        for (auto& sc : schemas)
        {
            std::vector<std::string> tables;
            query("SELECT name FROM \"" + sc + "\".sqlite_master WHERE type='table' ORDER BY name", [&](sqlite3_stmt* st) {
                tables.push_back((const char*)sqlite3_column_text(st, 0));
            });
            for (auto& t : tables)
            {
                fnv(h, sc.data(), sc.size());
                fnv(h, t.data(), t.size());
                int ncol = 0;
                query("SELECT * FROM \"" + sc + "\".\"" + t + "\" LIMIT 0", [&](sqlite3_stmt*) {});
                sqlite3_stmt* st = nullptr;
                std::string sql = "SELECT * FROM \"" + sc + "\".\"" + t + "\"";
                if (__real_sqlite3_prepare_v2(db, sql.c_str(), -1, &st, nullptr) != SQLITE_OK)
                    continue;
                ncol = sqlite3_column_count(st);
                sqlite3_finalize(st);
                std::string order;
                for (int i = 1; i <= ncol; ++i)
                    order += (i > 1 ? "," : "") + std::to_string(i);
                query(sql + (ncol ? " ORDER BY " + order : ""), [&](sqlite3_stmt* s2) {
                    for (int i = 0; i < ncol; ++i)
                    {
                        int ct = sqlite3_column_type(s2, i);
                        fnv(h, &ct, sizeof ct);
                        if (ct == SQLITE_NULL)
                            continue;
                        const void* b = sqlite3_column_blob(s2, i);
                        int n = sqlite3_column_bytes(s2, i);
                        fnv(h, &n, sizeof n);
                        if (b && n)
                            fnv(h, b, (size_t)n);
                    }
                });
            }
        }
        char buf[32];
        snprintf(buf, sizeof buf, "%016llx", (unsigned long long)h);
        return buf;
    }
};

inline std::string hex16(uint64_t v)
{
    char buf[32];
    snprintf(buf, sizeof buf, "%016llx", (unsigned long long)v);
    return buf;
}

}  // namespace vh
