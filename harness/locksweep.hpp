// Lock sweep: another connection that takes SHARED / RESERVED / EXCLUSIVE locks on the database files of the library's
// connection while a call runs (see DESIGN.md 13.14, spec/Contention.tla).  Shared by libdriver and trackdriver.
#pragma once
#include <sqlite3.h>
#include <unistd.h>

#include <algorithm>
#include <cstring>
#include <functional>
#include <set>
#include <string>
#include <vector>

#include "common.hpp"
#include "shim.hpp"

extern "C" int __real_sqlite3_open_v2(const char*, sqlite3**, int, const char*);

namespace vh
{
// Another connection (same process, its own sqlite3 handles - one per database file of the library) that takes a
// SHARED (1), RESERVED (2) or EXCLUSIVE (4) lock on every file, all or nothing, and holds it until released.
struct foreign_locks
{
    std::vector<sqlite3*> conns;
    static bool exec(sqlite3* c, const char* sql) { return sqlite3_exec(c, sql, nullptr, nullptr, nullptr) == SQLITE_OK; }
    bool acquire(const std::vector<std::string>& files, int lvl)
    {
        for (auto& f : files)
        {
            sqlite3* c = nullptr;
            if (__real_sqlite3_open_v2(f.c_str(), &c, SQLITE_OPEN_READWRITE, nullptr) != SQLITE_OK || !c)
            {
                if (c)
                    sqlite3_close(c);
                release();
                return false;
            }
            conns.push_back(c);
            bool ok = lvl == 4 ? exec(c, "BEGIN EXCLUSIVE") : lvl == 2 ? exec(c, "BEGIN IMMEDIATE")
                                                                    : exec(c, "BEGIN") && exec(c, "SELECT count(*) FROM sqlite_master");
            if (!ok)
            {
                release();
                return false;
            }
        }
        return true;
    }
    void release()
    {
        for (auto c : conns)
        {
            exec(c, "ROLLBACK");
            sqlite3_close(c);
        }
        conns.clear();
    }
};

// the database files behind the library's connection, and which database indices they are
inline void db_files(sqlite3* conn, std::vector<std::string>& files, std::set<int>& idx)
{
    raw_reader{conn}.query("PRAGMA database_list", [&](sqlite3_stmt* st) {
        const unsigned char* f = sqlite3_column_text(st, 2);
        if (f && *f)
        {
            files.emplace_back((const char*)f);
            idx.insert(sqlite3_column_int(st, 0));
        }
    });
}


// One attempt of a call under contention: right before the call's k-th statement is first stepped the other connection
// takes the strongest lock <= `want` that the library's own locks allow on every file, and holds it until the call has
// returned or thrown.  Returns the "lk" record (level held, per-statement class / lock needs / result in step order,
// autocommit flag at the end); any_busy: a statement was refused because of the lock; next_want: the strongest level
// below the one just held (0: none left for this k).
struct lock_attempt_result
{
    json lk;
    bool any_busy = false;
    int fail_k = 0;      // position (prepare order) of the first refused statement
    int next_want = 0;
    outcome oc;
};
inline lock_attempt_result lock_attempt(sqlite3* conn, int k, int want, const char* name, const std::function<void()>& f)
{
    std::vector<std::string> files;
    std::set<int> fidx;
    db_files(conn, files, fidx);
    lock_attempt_result res;
    int lvl = 0;
    foreign_locks fl;
    bool got = false;
    shim::begin_call();
    shim::set_logging(true);
    shim::set_explain(true);
    shim::set_hook(k, [&] {
        for (int x = want; x >= 1 && !got; x = x == 4 ? 2 : x == 2 ? 1 : 0)
            if ((got = fl.acquire(files, x)))
                lvl = x;
    });
    res.oc = guarded(name, f);
    bool hooked = shim::hook_fired();
    shim::set_hook(0, nullptr);
    shim::set_explain(false);
    int ac = sqlite3_get_autocommit(conn);
    fl.release();
    json st = json::array();
    std::vector<const shim::stmt_rec*> order;
    for (auto& x : shim::stmts())
        if (x.seq > 0)
            order.push_back(&x);
    std::sort(order.begin(), order.end(), [](auto a, auto b) { return a->seq < b->seq; });
    for (auto x : order)
    {
        bool fw = false, fr = false;
        for (auto& nd : x->needs)
            if (fidx.count(nd.first))
                (nd.second ? fw : fr) = true;
        const char* r = (x->rc == SQLITE_ROW || x->rc == SQLITE_DONE) ? "ok" : x->rc == SQLITE_BUSY ? "busy" : "err";
        if (strcmp(r, "busy") == 0)
        {
            if (!res.any_busy)
                res.fail_k = x->k;
            res.any_busy = true;
        }
        st.push_back({{"c", x->cls}, {"fw", fw}, {"fr", fr && !fw}, {"x", x->explained}, {"r", r}, {"rc", x->rc},
                      {"h", x->after_hook}, {"chg", x->chg}, {"sql", x->sql.substr(0, 60)}});
    }
    res.lk = {{"lvl", lvl}, {"want", want}, {"k", k}, {"got", got}, {"hook", hooked}, {"ac", ac}, {"st", st}};
    res.next_want = lvl == 4 ? 2 : lvl == 2 ? 1 : 0;
    return res;
}

// ---------------------------------------------------------------------------------------------------------------
// Crash points below the statement level: the process dies right before the n-th file-modifying system call that
// SQLite's unix VFS issues (pwrite / write / ftruncate / unlink - journal creation, page writes, journal deletion =
// the commit point), installed through the VFS's own xSetSystemCall interface.  Only meaningful in a forked child.
namespace syscrash
{
inline int& countdown()
{
    static int n = 0;
    return n;
}
inline void tick()
{
    int& n = countdown();
    if (n > 0 && --n == 0)
        _exit(shim::CRASH_EXIT);
}
typedef ssize_t (*pwrite_fn)(int, const void*, size_t, off_t);
typedef ssize_t (*write_fn)(int, const void*, size_t);
typedef int (*ftruncate_fn)(int, off_t);
typedef int (*unlink_fn)(const char*);
inline pwrite_fn& real_pwrite() { static pwrite_fn f = nullptr; return f; }
inline pwrite_fn& real_pwrite64() { static pwrite_fn f = nullptr; return f; }
inline write_fn& real_write() { static write_fn f = nullptr; return f; }
inline ftruncate_fn& real_ftruncate() { static ftruncate_fn f = nullptr; return f; }
inline unlink_fn& real_unlink() { static unlink_fn f = nullptr; return f; }
inline ssize_t my_pwrite(int fd, const void* b, size_t n, off_t o) { tick(); return real_pwrite()(fd, b, n, o); }
inline ssize_t my_pwrite64(int fd, const void* b, size_t n, off_t o) { tick(); return real_pwrite64()(fd, b, n, o); }
inline ssize_t my_write(int fd, const void* b, size_t n) { tick(); return real_write()(fd, b, n); }
inline int my_ftruncate(int fd, off_t o) { tick(); return real_ftruncate()(fd, o); }
inline int my_unlink(const char* p) { tick(); return real_unlink()(p); }
// die right before the n-th modifying system call from now on (0 = never)
inline void arm(int n)
{
    sqlite3_vfs* v = sqlite3_vfs_find(nullptr);
    if (!real_unlink() && v && v->xGetSystemCall && v->xSetSystemCall)
    {
        real_pwrite() = (pwrite_fn)v->xGetSystemCall(v, "pwrite");
        real_pwrite64() = (pwrite_fn)v->xGetSystemCall(v, "pwrite64");
        real_write() = (write_fn)v->xGetSystemCall(v, "write");
        real_ftruncate() = (ftruncate_fn)v->xGetSystemCall(v, "ftruncate");
        real_unlink() = (unlink_fn)v->xGetSystemCall(v, "unlink");
        if (real_pwrite())
            v->xSetSystemCall(v, "pwrite", (sqlite3_syscall_ptr)my_pwrite);
        if (real_pwrite64())
            v->xSetSystemCall(v, "pwrite64", (sqlite3_syscall_ptr)my_pwrite64);
        if (real_write())
            v->xSetSystemCall(v, "write", (sqlite3_syscall_ptr)my_write);
        if (real_ftruncate())
            v->xSetSystemCall(v, "ftruncate", (sqlite3_syscall_ptr)my_ftruncate);
        if (real_unlink())
            v->xSetSystemCall(v, "unlink", (sqlite3_syscall_ptr)my_unlink);
    }
    countdown() = n;
}
}  // namespace syscrash
}  // namespace vh
