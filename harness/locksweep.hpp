// Lock sweep: another connection that takes SHARED / RESERVED / EXCLUSIVE locks on the database files of the library's
// connection while a call runs (see DESIGN.md 13.14, spec/Contention.tla).  Shared by libdriver and trackdriver.
#pragma once
#include <sqlite3.h>

#include <algorithm>
#include <cstring>
#include <functional>
#include <set>
#include <string>
#include <vector>

#include "common.hpp"
#include "shim.hpp"

extern "C" int __real_sqlite3_open_v2(const char*, sqlite3**, int, const char*);

namespace vh
{
// Another connection (same process, its own sqlite3 handles - one per database file of the library) that takes a
// SHARED (1), RESERVED (2) or EXCLUSIVE (4) lock on every file, all or nothing, and holds it until released.
struct foreign_locks
{
    std::vector<sqlite3*> conns;
    static bool exec(sqlite3* c, const char* sql) { return sqlite3_exec(c, sql, nullptr, nullptr, nullptr) == SQLITE_OK; }
    bool acquire(const std::vector<std::string>& files, int lvl)
    {
        for (auto& f : files)
        {
            sqlite3* c = nullptr;
            if (__real_sqlite3_open_v2(f.c_str(), &c, SQLITE_OPEN_READWRITE, nullptr) != SQLITE_OK || !c)
            {
                if (c)
                    sqlite3_close(c);
                release();
                return false;
            }
            conns.push_back(c);
            bool ok = lvl == 4 ? exec(c, "BEGIN EXCLUSIVE") : lvl == 2 ? exec(c, "BEGIN IMMEDIATE")
                                                                    : exec(c, "BEGIN") && exec(c, "SELECT count(*) FROM sqlite_master");
            if (!ok)
            {
                release();
                return false;
            }
        }
        return true;
    }
    void release()
    {
        for (auto c : conns)
        {
            exec(c, "ROLLBACK");
            sqlite3_close(c);
        }
        conns.clear();
    }
};

// the database files behind the library's connection, and which database indices they are
inline void db_files(sqlite3* conn, std::vector<std::string>& files, std::set<int>& idx)
{
    raw_reader{conn}.query("PRAGMA database_list", [&](sqlite3_stmt* st) {
        const unsigned char* f = sqlite3_column_text(st, 2);
        if (f && *f)
        {
            files.emplace_back((const char*)f);
            idx.insert(sqlite3_column_int(st, 0));
        }
    });
}


// One attempt of a call under contention: right before the call's k-th statement is first stepped the other connection
// takes the strongest lock <= `want` that the library's own locks allow on every file, and holds it until the call has
// returned or thrown.  Returns the "lk" record (level held, per-statement class / lock needs / result in step order,
// autocommit flag at the end); any_busy: a statement was refused because of the lock; next_want: the strongest level
// below the one just held (0: none left for this k).
struct lock_attempt_result
{
    json lk;
    bool any_busy = false;
    int fail_k = 0;      // position (prepare order) of the first refused statement
    int next_want = 0;
    outcome oc;
};
inline lock_attempt_result lock_attempt(sqlite3* conn, int k, int want, const char* name, const std::function<void()>& f)
{
    std::vector<std::string> files;
    std::set<int> fidx;
    db_files(conn, files, fidx);
    lock_attempt_result res;
    int lvl = 0;
    foreign_locks fl;
    bool got = false;
    shim::begin_call();
    shim::set_logging(true);
    shim::set_explain(true);
    shim::set_hook(k, [&] {
        for (int x = want; x >= 1 && !got; x = x == 4 ? 2 : x == 2 ? 1 : 0)
            if ((got = fl.acquire(files, x)))
                lvl = x;
    });
    res.oc = guarded(name, f);
    bool hooked = shim::hook_fired();
    shim::set_hook(0, nullptr);
    shim::set_explain(false);
    int ac = sqlite3_get_autocommit(conn);
    fl.release();
    json st = json::array();
    std::vector<const shim::stmt_rec*> order;
    for (auto& x : shim::stmts())
        if (x.seq > 0)
            order.push_back(&x);
    std::sort(order.begin(), order.end(), [](auto a, auto b) { return a->seq < b->seq; });
    for (auto x : order)
    {
        bool fw = false, fr = false;
        for (auto& nd : x->needs)
            if (fidx.count(nd.first))
                (nd.second ? fw : fr) = true;
        const char* r = (x->rc == SQLITE_ROW || x->rc == SQLITE_DONE) ? "ok" : x->rc == SQLITE_BUSY ? "busy" : "err";
        if (strcmp(r, "busy") == 0)
        {
            if (!res.any_busy)
                res.fail_k = x->k;
            res.any_busy = true;
        }
        st.push_back({{"c", x->cls}, {"fw", fw}, {"fr", fr && !fw}, {"x", x->explained}, {"r", r}, {"rc", x->rc},
                      {"h", x->after_hook}, {"chg", x->chg}, {"sql", x->sql.substr(0, 60)}});
    }
    res.lk = {{"lvl", lvl}, {"want", want}, {"k", k}, {"got", got}, {"hook", hooked}, {"ac", ac}, {"st", st}};
    res.next_want = lvl == 4 ? 2 : lvl == 2 ? 1 : 0;
    return res;
}
}  // namespace vh
