// detectdriver: arranges directories (layout x stored version triple x 1.18.0 variant marker) and
// records what load_database / database_exists / create_or_load_database do with them (C13, C10).
//
//   detectdriver <cases.ndjson> <out.ndjson>
//   case: {"maj":1,"min":18,"pat":0,"variant":"os"|"desktop","legacy":bool,"db2":bool}
//
// Template libraries are created by the library itself (1.18.0 OS / 1.18.0 Desktop for the legacy
// layout, 2.21.2 for Database2); the three version numbers are then rewritten through an independent
// SQLite connection.  The driver asserts nothing; TLC judges the records (TraceDetect.tla).
#include <djinterop/djinterop.hpp>

#include <filesystem>
#include <fstream>

#include "common.hpp"
#include "schemas.hpp"

namespace dj = djinterop;
namespace fs = std::filesystem;
using vh::json;

namespace
{
std::string root;

void set_version(const std::string& file, int maj, int min, int pat)
{
    sqlite3* db = nullptr;
    if (sqlite3_open(file.c_str(), &db) != SQLITE_OK)
        throw std::runtime_error("cannot open " + file);
    std::string sql = "UPDATE Information SET schemaVersionMajor = " + std::to_string(maj) +
                      ", schemaVersionMinor = " + std::to_string(min) + ", schemaVersionPatch = " + std::to_string(pat);
    char* err = nullptr;
    int rc = sqlite3_exec(db, sql.c_str(), nullptr, nullptr, &err);
    sqlite3_close(db);
    if (rc != SQLITE_OK)
        throw std::runtime_error("cannot rewrite version in " + file);
}

std::string name_by_version_name(const std::string& vn)
{
    for (auto& s : vh::all_schemas)
        if (to_string(s.schema) == vn)
            return s.name;
    return "?" + vn;
}

json do_load(const std::string& dir, dj::engine::engine_schema sentinel, std::string* ver)
{
    json r;
    dj::engine::engine_schema loaded = sentinel;
    auto oc = vh::guarded("load_database", [&] {
        auto db = dj::engine::load_database(dir, loaded);
        if (ver)
            *ver = name_by_version_name(db.version_name());
    });
    r["out"] = oc.ok ? "ok" : "throw";
    r["ex"] = oc.ex;
    r["std"] = oc.std_exc;
    r["loaded"] = oc.ok ? vh::name_of(loaded) : std::string();
    return r;
}
}  // namespace

int main(int argc, char** argv)
{
    if (argc < 3)
        return 2;
    std::ifstream in(argv[1]);
    FILE* out = fopen(argv[2], "w");
    if (!in || !out)
        return 2;
    vh::g_trace_fd = fileno(out);
    vh::install_handlers();
    root = "/dev/shm/verif.detect." + std::to_string(getpid());
    fs::remove_all(root);
    fs::create_directories(root);
    using es = dj::engine::engine_schema;
    {
        auto a = dj::engine::create_database(root + "/tpl_os", es::schema_1_18_0_os);
        auto b = dj::engine::create_database(root + "/tpl_desktop", es::schema_1_18_0_desktop);
        auto c = dj::engine::create_database(root + "/tpl_v2", es::schema_2_21_2);
    }
    std::string line;
    long k = 0;
    while (std::getline(in, line))
    {
        if (line.empty())
            continue;
        json c = json::parse(line);
        int maj = c.at("maj"), min = c.at("min"), pat = c.at("pat");
        std::string variant = c.at("variant");
        bool legacy = c.at("legacy"), db2 = c.at("db2");
        // (a database file that is present but has no content - what SQLite leaves behind when a file was opened and never written)
        bool legacy_empty = c.value("legacy_empty", false), db2_empty = c.value("db2_empty", false);
        std::string dir = root + "/case" + std::to_string(++k);
        fs::create_directories(dir);
        if (legacy && legacy_empty)
        {
            std::ofstream(dir + "/m.db", std::ios::binary).flush();
        }
        else if (legacy)
        {
            std::string tpl = root + (variant == "desktop" ? "/tpl_desktop" : "/tpl_os");
            fs::copy_file(tpl + "/m.db", dir + "/m.db");
            fs::copy_file(tpl + "/p.db", dir + "/p.db");
            set_version(dir + "/m.db", maj, min, pat);
            try
            {
                set_version(dir + "/p.db", maj, min, pat);
            }
            catch (const std::exception&)
            {
            }
            // (the legacy layout is told by m.db alone: a directory whose companion p.db is missing - m.db copied alone,
            //  written by other software - still holds a library of the stored version)
            if (c.value("nop", false))
                fs::remove(dir + "/p.db");
        }
        if (db2 && db2_empty)
        {
            fs::create_directories(dir + "/Database2");
            std::ofstream(dir + "/Database2/m.db", std::ios::binary).flush();
        }
        else if (db2)
        {
            fs::create_directories(dir + "/Database2");
            fs::copy_file(root + "/tpl_v2/Database2/m.db", dir + "/Database2/m.db");
            set_version(dir + "/Database2/m.db", maj, min, pat);
        }
        json r = c;
        bool is171 = maj == 1 && min == 7 && pat == 1, is191 = maj == 1 && min == 9 && pat == 1;
        std::string ver;
        json l1 = do_load(dir, is171 ? es::schema_1_6_0 : es::schema_1_7_1, &ver);
        json l2 = do_load(dir, is191 ? es::schema_1_6_0 : es::schema_1_9_1, nullptr);
        l1["loaded2"] = l2["loaded"];
        l1["out2"] = l2["out"];
        l1["ver"] = ver;
        r["load"] = l1;
        {
            bool val = false;
            auto oc = vh::guarded("database_exists", [&] { val = dj::engine::database_exists(dir); });
            r["exists"] = {{"out", oc.ok ? "ok" : "throw"}, {"ex", oc.ex}, {"val", val}};
        }
        {
            bool created = false;
            es loaded = es::schema_1_6_0;
            auto oc = vh::guarded("create_or_load_database", [&] {
                auto db = dj::engine::create_or_load_database(dir, es::schema_2_21_2, created, loaded);
                if (created)
                    loaded = vh::schema_by_name(name_by_version_name(db.version_name()));
            });
            r["col"] = {{"out", oc.ok ? "ok" : "throw"}, {"ex", oc.ex}, {"created", created},
                        {"loaded", oc.ok ? vh::name_of(loaded) : std::string()}, {"want", "2.21.2"}};
        }
        if (legacy || db2)
        {
            // the same with a requested schema of the other family (the request only matters when nothing exists)
            bool created = false;
            es loaded = es::schema_1_6_0;
            auto oc = vh::guarded("create_or_load_database", [&] {
                auto db = dj::engine::create_or_load_database(dir, es::schema_1_18_0_os, created, loaded);
                if (created)
                    loaded = vh::schema_by_name(name_by_version_name(db.version_name()));
            });
            r["col1"] = {{"out", oc.ok ? "ok" : "throw"}, {"ex", oc.ex}, {"created", created},
                         {"loaded", oc.ok ? vh::name_of(loaded) : std::string()}, {"want", "1.18.0o"}};
        }
        vh::emit(r);
        std::error_code ec;
        fs::remove_all(dir, ec);
    }
    std::error_code ec;
    fs::remove_all(root, ec);
    fclose(out);
    return 0;
}
