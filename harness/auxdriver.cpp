// auxdriver: the change log and the information row of a schema-2.x library (change_log_table, information_table)
// together with the track_table writes that feed the change log through the schema's triggers, driven along the
// operation sequences of spec/ChangeLog.tla.  After every operation it logs the rows an independent reader finds
// and everything the table API's read functions return, with the C16 bookkeeping of the observation phase
// (write statements issued, rows changed, digest of all tables, repeated observation).
//
//   auxdriver <script.ndjson> <trace.ndjson> [--skip N] [--watchdog S]
#include <djinterop/djinterop.hpp>
#include <djinterop/engine/v2/engine_library.hpp>

#include <cstring>
#include <fstream>
#include <optional>

#include "common.hpp"
#include "schemas.hpp"
#include "trackrow.hpp"

namespace dj = djinterop;
namespace v2 = djinterop::engine::v2;
using vh::json;

namespace
{
struct world
{
    std::optional<v2::engine_library> lib;
    sqlite3* conn = nullptr;
    int serial = 0;
    int64_t max_track = 0;
};

// a generated row; a present origin id is made unique per row (UNIQUE (originDatabaseUuid, originTrackId))
v2::track_row fresh_row(world& w, const json& op)
{
    auto row = trow::make_row(op.at("variant"), op.value("mask", 0), ++w.serial);
    if (row.origin_track_id != 0)
        row.origin_track_id = 500000 + w.serial;
    return row;
}

json cl_rows(const std::vector<v2::change_log_row>& rows)
{
    json a = json::array();
    for (auto& r : rows)
        a.push_back(json::array({r.id, r.track_id}));
    return a;
}

json raw_rows(world& w)
{
    vh::raw_reader rr{w.conn};
    json r;
    json cl = rr.rows("SELECT id, trackId FROM ChangeLog ORDER BY id", "ii");   // "<query failed>" where the table is gone
    r["clok"] = cl.is_array();
    r["cl"] = cl.is_array() ? cl : json::array();
    r["seq"] = rr.rows("SELECT name, seq FROM sqlite_sequence ORDER BY name", "ti");
    r["info"] = rr.rows("SELECT id, uuid, schemaVersionMajor, schemaVersionMinor, schemaVersionPatch, currentPlayedIndiciator, "
                        "lastRekordBoxLibraryImportReadCounter FROM Information ORDER BY id", "itiiiti");   // (indicator as decimal text)
    r["tracks"] = rr.rows("SELECT id, originTrackId, originDatabaseUuid FROM Track ORDER BY id", "iit");
    return r;
}

// everything the read side of the three tables returns
json observe(world& w, int64_t upto)
{
    json o;
    {
        json i;
        auto oc = vh::guarded("information.get", [&] {
            auto x = w.lib->information().get();
            i = {{"id", x.id}, {"uuid", x.uuid}, {"maj", x.schema_version_major}, {"min", x.schema_version_minor}, {"pat", x.schema_version_patch},
                 {"cpi", std::to_string(x.current_played_indicator)}, {"lrb", sj::jint(x.last_rekord_box_library_import_read_counter)}};
        });
        o["info"] = oc.ok ? json({{"ok", true}, {"v", i}}) : json({{"ok", false}, {"ex", oc.ex}, {"std", oc.std_exc}});
    }
    {
        json c;
        auto oc = vh::guarded("change_log", [&] {
            auto cl = w.lib->change_log();
            c["all"] = cl_rows(cl.all());
            auto last = cl.last();
            c["last"] = last ? json::array({json::array({last->id, last->track_id})}) : json::array();
            json after = json::array();
            for (int64_t k = -1; k <= upto + 1; ++k)
                after.push_back({{"k", k}, {"rows", cl_rows(cl.after(k))}});
            c["after"] = after;
        });
        o["cl"] = oc.ok ? json({{"ok", true}, {"v", c}}) : json({{"ok", false}, {"ex", oc.ex}, {"std", oc.std_exc}});
    }
    {
        auto t = w.lib->track();
        json ids = json::array();
        for (auto id : t.all_ids())
            ids.push_back(id);
        o["all_ids"] = ids;
        json ex = json::array();
        for (int64_t id = 1; id <= w.max_track + 1; ++id)
            ex.push_back({{"id", id}, {"exists", t.exists(id)}, {"got", (bool)t.get(id)}});
        o["tracks"] = ex;
    }
    return o;
}

void observation_phase(world& w, json& rec)
{
    vh::raw_reader rr{w.conn};
    json raw = raw_rows(w);
    int64_t upto = 0;
    if (raw["cl"].is_array())
        for (auto& r : raw["cl"])
            upto = std::max<int64_t>(upto, r[0].get<int64_t>());
    std::string d0 = rr.digest();
    int chg0 = sqlite3_total_changes(w.conn);
    shim::begin_call();
    json o = observe(w, upto);
    json o2 = observe(w, upto);
    json o16;
    o16["w"] = shim::n_writes();
    o16["chg"] = sqlite3_total_changes(w.conn) - chg0;
    o16["rep"] = o == o2;
    o16["same"] = rr.digest() == d0;
    rec["raw"] = std::move(raw);
    rec["obs"] = std::move(o);
    rec["o16"] = std::move(o16);
}
}  // namespace

int main(int argc, char** argv)
{
    if (argc < 3)
        return 2;
    long skip = 0;
    for (int i = 3; i + 1 < argc; i += 2)
    {
        if (!strcmp(argv[i], "--skip"))
            skip = atol(argv[i + 1]);
        else if (!strcmp(argv[i], "--watchdog"))
            vh::g_watchdog_s = atoi(argv[i + 1]);
    }
    std::ifstream in(argv[1]);
    FILE* out = fopen(argv[2], skip ? "a" : "w");
    if (!in || !out)
        return 2;
    vh::g_trace_fd = fileno(out);
    vh::install_handlers();
    world w;
    bool have = false, dead = false;
    std::string line;
    long exec_no = 0;
    while (std::getline(in, line))
    {
        if (line.empty())
            continue;
        json op = json::parse(line);
        std::string name = op.at("op");
        if (name == "reset")
        {
            ++exec_no;
            w = world{};
            dead = false;
            have = false;
            if (exec_no <= skip)
                continue;
            shim::reset_dbs();
            json r = {{"e", "reset"}, {"x", exec_no}, {"schema", op.at("schema")}, {"sid", op.value("sid", "")}, {"ver", op.value("ver", json::array())}};
            auto oc = vh::guarded("reset", [&] {
                w.lib = v2::engine_library::create_temporary(vh::schema_by_name(op.at("schema").get<std::string>()));
                w.conn = shim::last_db();
            });
            r["out"] = oc.ok ? "ok" : "throw";
            have = oc.ok;
            if (have)
            {
                auto o2 = vh::guarded("observe", [&] { observation_phase(w, r); });
                if (!o2.ok)
                {
                    r["obs_throw"] = o2.ex;
                    dead = true;
                }
            }
            vh::emit(r);
            continue;
        }
        if (!have || dead)
            continue;
        json rec = op;   // the operation with all its arguments, as the model named them
        rec["e"] = "call";
        rec.erase("out");
        int64_t newid = 0;
        std::function<void()> f;
        auto t = w.lib->track();
        int64_t id = op.value("id", 0);
        if (name == "t_add")
        {
            auto row = fresh_row(w, op);
            f = [&, row] { newid = t.add(row); w.max_track = std::max(w.max_track, newid); };
        }
        else if (name == "t_update")
        {
            auto row = fresh_row(w, op);
            row.id = id;
            f = [&, row] { t.update(row); };
        }
        else if (name == "t_set")
        {
            auto row = fresh_row(w, op);
            std::string col = op.at("col");
            f = [&, row, col, id] {
                if (col == "title")
                    t.set_title(id, row.title);
                else if (col == "origin_track_id")
                    t.set_origin_track_id(id, row.origin_track_id);
                else if (col == "origin_database_uuid")
                    t.set_origin_database_uuid(id, row.origin_database_uuid);
                else if (col == "rating")
                    t.set_rating(id, row.rating);
                else if (col == "track_data")
                    t.set_track_data(id, row.track_data);
                else
                    throw std::runtime_error("harness: unknown column " + col);
            };
        }
        else if (name == "t_remove")
            f = [&, id] { t.remove(id); };
        else if (name == "cl_add")
        {
            int tid = op.value("t", 0);
            f = [&, tid] { newid = w.lib->change_log().add(tid); };
        }
        else if (name == "info_set")
        {
            int64_t v = op.value("v", 0);
            f = [&, v] { w.lib->information().update_current_played_indicator(v); };
        }
        else
        {
            vh::emit({{"e", "skip"}, {"why", "unknown op " + name}});
            dead = true;
            continue;
        }
        shim::begin_call();
        auto oc = vh::guarded(name.c_str(), f);
        rec["out"] = oc.ok ? "ok" : "throw";
        rec["ex"] = oc.ex;
        rec["std"] = oc.std_exc;
        rec["new"] = newid;
        auto o2 = vh::guarded("observe", [&] { observation_phase(w, rec); });
        if (!o2.ok)
        {
            rec["obs_throw"] = o2.ex;
            dead = true;
        }
        vh::emit(rec);
    }
    fclose(out);
    return 0;
}
