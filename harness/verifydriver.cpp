// verifydriver: creates libraries and runs load_database + verify() on prepared directories (C17, C12-ish).
//
//   verifydriver create <schema-name> <dir>
//   verifydriver verify <list.ndjson> <out.ndjson>      line: {"dir": "...", ...any tag fields...}
//   verifydriver fromscripts <list.ndjson> <out.ndjson> line: {"scripts": "<dir with m.db.sql ...>", "dir": "<empty dir>", ...}
//   verifydriver dump <list.ndjson> <out.ndjson>        complete schema + version numbers of reference / created libraries (C12)
//
// The driver asserts nothing; TLC judges the records (TraceVerify.tla).
#include <djinterop/djinterop.hpp>

#include <filesystem>
#include <fstream>

#include "common.hpp"
#include "schemas.hpp"

namespace dj = djinterop;
namespace fs = std::filesystem;
using vh::json;

int main(int argc, char** argv)
{
    if (argc < 4)
        return 2;
    std::string mode = argv[1];
    vh::install_handlers();
    if (mode == "create")
    {
        auto oc = vh::guarded("create_database", [&] { dj::engine::create_database(argv[3], vh::schema_by_name(argv[2])); });
        if (!oc.ok)
            fprintf(stderr, "create failed: %s %s\n", oc.ex.c_str(), oc.msg.c_str());
        return oc.ok ? 0 : 1;
    }
    std::ifstream in(argv[2]);
    FILE* out = fopen(argv[3], "w");
    if (!in || !out)
        return 2;
    vh::g_trace_fd = fileno(out);
    std::string line;
    if (mode == "dump")
    {
        // C12: the complete schema (every row of sqlite_master of every attached database file, with its SQL text) and the
        // version numbers of a reference library (hydrated from its scripts) or of a freshly created one (on disk or
        // temporary), read through the plain SQLite C API on the library's own connection.
        //   line: {"kind": "ref", "scripts": "<dir>", "dir": "<empty dir>", ...} | {"kind": "created", "schema": "<name>", "form": "disk"|"mem", "dir": "<dir>", ...}
        while (std::getline(in, line))
        {
            if (line.empty())
                continue;
            json r = json::parse(line);
            std::string dir = r.value("dir", "");
            std::optional<dj::database> db;
            dj::engine::engine_schema loaded = dj::engine::engine_schema::schema_1_7_1;
            shim::reset_dbs();
            bool is_ref = r.at("kind") == "ref";
            auto oc = vh::guarded("make", [&] {
                if (is_ref)
                {
                    fs::create_directories(dir);
                    db = dj::engine::create_database_from_scripts(dir, r.at("scripts").get<std::string>(), loaded);
                }
                else if (r.at("form") == "disk")
                    db = dj::engine::create_database(dir, vh::schema_by_name(r.at("schema").get<std::string>()));
                else
                    db = dj::engine::create_temporary_database(vh::schema_by_name(r.at("schema").get<std::string>()));
            });
            r["load"] = oc.ok ? "ok" : "throw";
            r["load_ex"] = oc.ex;
            r["loaded"] = oc.ok && is_ref ? vh::name_of(loaded) : std::string();
            r["objs"] = json::array();
            r["info"] = json::array();
            r["verify"] = "none";
            r["version_name"] = "";
            r["reloaded"] = "";
            if (oc.ok)
            {
                vh::raw_reader rr{shim::last_db()};
                json dbs = rr.rows("PRAGMA database_list", "itt");
                json objs = json::array(), info = json::array();
                for (auto& d : dbs)
                {
                    std::string name = d[1].get<std::string>();
                    json rows = rr.rows("SELECT type, name, tbl_name, sql FROM \"" + name + "\".sqlite_master ORDER BY type, name", "tttt");
                    if (!rows.is_array())
                        continue;
                    for (auto& x : rows)
                        objs.push_back(json::array({name, x[0], x[1], x[2], x[3]}));
                    json iv = rr.rows("SELECT schemaVersionMajor, schemaVersionMinor, schemaVersionPatch FROM \"" + name + "\".Information", "iii");
                    if (iv.is_array())
                        for (auto& x : iv)
                            info.push_back(json::array({name, x[0], x[1], x[2]}));
                }
                r["objs"] = objs;
                r["info"] = info;
                auto ov = vh::guarded("verify", [&] { db->verify(); });
                r["verify"] = ov.ok ? "ok" : ov.ex;
                auto on = vh::guarded("version_name", [&] { r["version_name"] = db->version_name(); });
                (void)on;
                db.reset();
                if (!is_ref && r.at("form") == "disk")
                {
                    dj::engine::engine_schema l2 = dj::engine::engine_schema::schema_1_7_1;
                    if (r.at("schema") == "1.7.1")
                        l2 = dj::engine::engine_schema::schema_1_6_0;
                    auto ol = vh::guarded("load_database", [&] { db = dj::engine::load_database(dir, l2); });
                    r["reloaded"] = ol.ok ? vh::name_of(l2) : ("throw " + ol.ex);
                    db.reset();
                }
            }
            vh::emit(r);
        }
        fclose(out);
        return 0;
    }
    while (std::getline(in, line))
    {
        if (line.empty())
            continue;
        json r = json::parse(line);
        std::string dir = r.at("dir");
        std::optional<dj::database> db;
        dj::engine::engine_schema loaded = dj::engine::engine_schema::schema_1_7_1;
        auto oc = vh::guarded("load", [&] {
            if (mode == "fromscripts")
            {
                fs::create_directories(dir);
                db = dj::engine::create_database_from_scripts(dir, r.at("scripts").get<std::string>(), loaded);
            }
            else
                db = dj::engine::load_database(dir, loaded);
        });
        r["load"] = oc.ok ? "ok" : "throw";
        r["load_ex"] = oc.ex;
        r["loaded"] = oc.ok ? vh::name_of(loaded) : std::string();
        r["out"] = "none";
        r["ex"] = "";
        r["std"] = true;
        if (oc.ok)
        {
            auto ov = vh::guarded("verify", [&] { db->verify(); });
            r["out"] = ov.ok ? "ok" : "throw";
            r["ex"] = ov.ex;
            r["std"] = ov.std_exc;
            r["msg"] = ov.msg.substr(0, 200);
        }
        db.reset();
        vh::emit(r);
    }
    fclose(out);
    return 0;
}
