// verifydriver: creates libraries and runs load_database + verify() on prepared directories (C17, C12-ish).
//
//   verifydriver create <schema-name> <dir>
//   verifydriver verify <list.ndjson> <out.ndjson>      line: {"dir": "...", ...any tag fields...}
//   verifydriver fromscripts <list.ndjson> <out.ndjson> line: {"scripts": "<dir with m.db.sql ...>", "dir": "<empty dir>", ...}
//
// The driver asserts nothing; TLC judges the records (TraceVerify.tla).
#include <djinterop/djinterop.hpp>

#include <filesystem>
#include <fstream>

#include "common.hpp"
#include "schemas.hpp"

namespace dj = djinterop;
namespace fs = std::filesystem;
using vh::json;

int main(int argc, char** argv)
{
    if (argc < 4)
        return 2;
    std::string mode = argv[1];
    vh::install_handlers();
    if (mode == "create")
    {
        auto oc = vh::guarded("create_database", [&] { dj::engine::create_database(argv[3], vh::schema_by_name(argv[2])); });
        if (!oc.ok)
            fprintf(stderr, "create failed: %s %s\n", oc.ex.c_str(), oc.msg.c_str());
        return oc.ok ? 0 : 1;
    }
    std::ifstream in(argv[2]);
    FILE* out = fopen(argv[3], "w");
    if (!in || !out)
        return 2;
    vh::g_trace_fd = fileno(out);
    std::string line;
    while (std::getline(in, line))
    {
        if (line.empty())
            continue;
        json r = json::parse(line);
        std::string dir = r.at("dir");
        std::optional<dj::database> db;
        dj::engine::engine_schema loaded = dj::engine::engine_schema::schema_1_7_1;
        auto oc = vh::guarded("load", [&] {
            if (mode == "fromscripts")
            {
                fs::create_directories(dir);
                db = dj::engine::create_database_from_scripts(dir, r.at("scripts").get<std::string>(), loaded);
            }
            else
                db = dj::engine::load_database(dir, loaded);
        });
        r["load"] = oc.ok ? "ok" : "throw";
        r["load_ex"] = oc.ex;
        r["loaded"] = oc.ok ? vh::name_of(loaded) : std::string();
        r["out"] = "none";
        r["ex"] = "";
        r["std"] = true;
        if (oc.ok)
        {
            auto ov = vh::guarded("verify", [&] { db->verify(); });
            r["out"] = ov.ok ? "ok" : "throw";
            r["ex"] = ov.ex;
            r["std"] = ov.std_exc;
            r["msg"] = ov.msg.substr(0, 200);
        }
        db.reset();
        vh::emit(r);
    }
    fclose(out);
    return 0;
}
