// libdriver: executes operation scripts (ndjson) against the real library and records one trace
// record per public call at the call's return (the linearization point of a sequential library),
// also on the exception path.  `obs` is produced only through public accessors; `raw` only
// through the independent reader.  See DESIGN.md §4 and Appendix A.
//
//   libdriver <script.ndjson> <trace.ndjson> [--skip N] [--watchdog S]
//
// Script records:
//   {"op":"reset","schema":"2.21.2","mode":"mem"|"disk","names":[...],"sid":"...","raw":bool,"rep":bool,"reopen":bool}
//   {"op":"create_root","n":"a"[,"exp":"ok"|"throw"][,"fault":k]} ... (see exec_op)
// Handles are named by creation index (1-based, successful creations only); the trace logs ids.
#include <djinterop/djinterop.hpp>

#include <sys/wait.h>
#include <unistd.h>

#include <set>
#include <sys/stat.h>

#include <chrono>
#include <deque>
#include <filesystem>
#include <fstream>
#include <iostream>
#include <map>
#include <optional>
#include <set>

#include "common.hpp"
#include "locksweep.hpp"
#include "schemas.hpp"

namespace dj = djinterop;
namespace fs = std::filesystem;
using vh::json;

namespace
{
struct world
{
    std::string schema_name;
    dj::engine::engine_schema schema{};
    bool v2 = false;
    std::string mode = "mem";
    std::string dir;
    std::optional<dj::database> db;
    std::vector<std::optional<dj::crate>> ch{std::nullopt};  // [0] unused
    std::vector<std::optional<dj::track>> th{std::nullopt};
    std::vector<std::string> names;
    sqlite3* conn = nullptr;
    bool want_raw = false, want_rep = false, auto_reopen = false, want_stmts = false, sweep = false, noobs = false, crash = false;
    // flag "conn2" (library on disk): a second database object loaded from the same directory while the first stays open;
    // operations marked "via": 2 go through it (their handles are looked up by id in it), and it is observed after every call
    std::optional<dj::database> db2;
    sqlite3* conn2 = nullptr;
    bool want_conn2 = false;
    int via = 1;                         // connection of the operation being executed
    std::deque<dj::crate> scratch_c;     // handles looked up in the second connection for one operation
    std::deque<dj::track> scratch_t;
    bool syscrash = false;   // crash points are system calls of SQLite's VFS instead of statements (with flag crash)
    bool locks = false;   // lock sweep (library on disk): every call is first attempted while another connection holds a lock
    bool u8 = false;   // name tokens of the model are given to the library as names with multi-byte UTF-8 characters
    int wal_first_same = -1;   // (with wal) the first load + close of the converted files left them byte-identical
    bool wal = false;  // (library on disk) the database files were switched to WAL journal mode by another client before the history
    bool like = false; // (with u8) the names are LIKE patterns / case variants of each other instead
    bool dead = false;  // rest of this execution is skipped
    int64_t max_id_seen = 0, max_tid_seen = 0;
    int ntracks_created = 0;
};

std::string g_tmp_root;
int g_dir_counter = 0;

// Flag "u8": the model's name tokens ("a", "b", ...) reach the library as names holding 2-, 3- and 4-byte UTF-8
// sequences before and after an ASCII letter; everything read back (names, stored paths) is translated back to tokens
// before it is logged, so the specifications keep talking about tokens.  A name the library mangles is logged as found.
const std::vector<std::pair<std::string, std::string>>& u8_table()
{
    static const std::vector<std::pair<std::string, std::string>> t = {
        {"a", "\xc3\x84" "a"}, {"b", "b\xe2\x99\xaa"}, {"c", "\xf0\x9f\x8e\xb5" "c"}, {"d", "\xc3\xa9\xc3\xa9" "d"},
        {"e", "e\xc3\xb8"}, {"f", "\xe6\x97\xa5" "f"}, {"g", "g\xc3\x9f"}, {"h", "\xd0\x96h"}};
    return t;
}
// Flag "nameset": "like" - the same translation with names that are SQL LIKE patterns of each other (`_` and `%` are ordinary
// characters of a crate name) and names that differ in letter case only: look-ups and duplicate checks must compare names exactly.
// (No replacement text is part of another one, and none contains a token.)
const std::vector<std::pair<std::string, std::string>>& like_table()
{
    static const std::vector<std::pair<std::string, std::string>> t = {
        {"a", "x_z"}, {"b", "xyz"}, {"c", "%%"}, {"d", "xYz"}, {"e", "X_Z"}, {"f", "x%"}, {"g", "_yz"}, {"h", "XYZ"}};
    return t;
}
const std::vector<std::pair<std::string, std::string>>& name_table(const world& w)
{
    return w.like ? like_table() : u8_table();
}
std::string enc_name(const world& w, const std::string& tok)
{
    if (w.u8)
        for (auto& [t, r] : name_table(w))
            if (t == tok)
                return r;
    return tok;
}
std::string dec_text(const world& w, std::string s)
{
    if (!w.u8)
        return s;
    for (auto& [t, r] : name_table(w))
        for (size_t pos = 0; (pos = s.find(r, pos)) != std::string::npos; pos += t.size())
            s.replace(pos, r.size(), t);
    return s;
}

json ids_of(const std::vector<dj::crate>& v)
{
    json a = json::array();
    for (auto& c : v)
        a.push_back(c.id());
    return a;
}
json tids_of(const std::vector<dj::track>& v)
{
    json a = json::array();
    for (auto& t : v)
        a.push_back(t.id());
    return a;
}

// Everything the public crate / membership queries return in the current state.
json observe(world& w)
{
    json o;
    auto& db = *w.db;
    auto all = db.crates();
    o["all"] = ids_of(all);
    o["roots"] = ids_of(db.root_crates());
    std::map<int64_t, dj::crate> live;
    for (auto& c : all)
    {
        live.emplace(c.id(), c);
        w.max_id_seen = std::max(w.max_id_seen, c.id());
    }
    json stale = json::array();
    for (size_t i = 1; i < w.ch.size(); ++i)
    {
        if (!w.ch[i])
            continue;
        auto& h = *w.ch[i];
        bool v = h.is_valid();
        w.max_id_seen = std::max(w.max_id_seen, h.id());
        if (v)
            live.emplace(h.id(), h);
        else
            stale.push_back({{"id", h.id()}, {"v", false}});
    }
    json cr = json::array();
    for (auto& [id, c] : live)
    {
        json r;
        r["id"] = c.id();
        r["v"] = c.is_valid();
        r["nm"] = dec_text(w, c.name());
        auto p = c.parent();
        r["par"] = p ? json::array({p->id()}) : json::array();
        r["ch"] = ids_of(c.children());
        r["de"] = ids_of(c.descendants());
        r["tr"] = tids_of(c.tracks());
        json sub = json::array();
        for (auto& n : w.names)
        {
            auto s = c.sub_crate_by_name(enc_name(w, n));
            sub.push_back({{"n", n}, {"r", s ? json::array({s->id()}) : json::array()}});
        }
        r["sub"] = sub;
        cr.push_back(std::move(r));
    }
    o["cr"] = cr;
    o["stale"] = stale;
    json byid = json::array();
    for (int64_t i = 0; i <= w.max_id_seen + 1; ++i)
    {
        auto c = db.crate_by_id(i);
        byid.push_back({{"id", i}, {"r", (bool)c}, {"rid", c ? c->id() : 0}});
    }
    o["byid"] = byid;
    json byname = json::array(), rootby = json::array();
    for (auto& n : w.names)
    {
        byname.push_back({{"n", n}, {"r", ids_of(db.crates_by_name(enc_name(w, n)))}});
        auto r = db.root_crate_by_name(enc_name(w, n));
        rootby.push_back({{"n", n}, {"r", r ? json::array({r->id()}) : json::array()}});
    }
    o["byname"] = byname;
    o["rootby"] = rootby;

    // tracks
    auto tracks = db.tracks();
    o["tracks"] = tids_of(tracks);
    std::map<int64_t, dj::track> tlive;
    for (auto& t : tracks)
    {
        tlive.emplace(t.id(), t);
        w.max_tid_seen = std::max(w.max_tid_seen, t.id());
    }
    json tstale = json::array();
    for (size_t i = 1; i < w.th.size(); ++i)
    {
        if (!w.th[i])
            continue;
        auto& h = *w.th[i];
        w.max_tid_seen = std::max(w.max_tid_seen, h.id());
        if (h.is_valid())
            tlive.emplace(h.id(), h);
        else
            tstale.push_back({{"id", h.id()}, {"v", false}});
    }
    json tk = json::array();
    for (auto& [id, t] : tlive)
    {
        json r;
        r["id"] = t.id();
        r["v"] = t.is_valid();
        r["path"] = t.relative_path();
        if (w.v2)
            r["in"] = "unsupported";
        else
            r["in"] = ids_of(t.containing_crates());
        auto bp = db.tracks_by_relative_path(t.relative_path());
        r["bypath"] = tids_of(bp);
        tk.push_back(std::move(r));
    }
    o["tk"] = tk;
    o["tstale"] = tstale;
    json tbyid = json::array();
    for (int64_t i = 0; i <= w.max_tid_seen + 1; ++i)
    {
        auto t = db.track_by_id(i);
        tbyid.push_back({{"id", i}, {"r", (bool)t}});
    }
    o["tbyid"] = tbyid;
    // what identifies the library: must never change, whatever is done to it and however often it is closed and loaded
    o["ident"] = {{"uuid", db.uuid()}, {"ver", db.version_name()}, {"dir", db.directory()}};
    return o;
}

// The same state as the SECOND connection sees it: every structural query, through handles looked up afresh.
json observe2(world& w)
{
    json o;
    auto& db = *w.db2;
    auto all = db.crates();
    o["all"] = ids_of(all);
    o["roots"] = ids_of(db.root_crates());
    json cr = json::array();
    for (auto& c : all)
    {
        json r;
        r["id"] = c.id();
        r["v"] = c.is_valid();
        r["nm"] = dec_text(w, c.name());
        auto p = c.parent();
        r["par"] = p ? json::array({p->id()}) : json::array();
        r["ch"] = ids_of(c.children());
        r["de"] = ids_of(c.descendants());
        r["tr"] = tids_of(c.tracks());
        cr.push_back(std::move(r));
    }
    o["cr"] = cr;
    auto tracks = db.tracks();
    o["tracks"] = tids_of(tracks);
    json tk = json::array();
    for (auto& t : tracks)
    {
        json r;
        r["id"] = t.id();
        r["v"] = t.is_valid();
        if (w.v2)
            r["in"] = "unsupported";
        else
            r["in"] = ids_of(t.containing_crates());
        tk.push_back(std::move(r));
    }
    o["tk"] = tk;
    // handles of the first connection to entities removed through either connection
    json stale = json::array();
    for (size_t i = 1; i < w.ch.size(); ++i)
        if (w.ch[i] && !db.crate_by_id(w.ch[i]->id()))
            stale.push_back({{"id", w.ch[i]->id()}, {"v", w.ch[i]->is_valid()}});
    o["stale"] = stale;
    o["ident"] = {{"uuid", db.uuid()}, {"ver", db.version_name()}, {"dir", db.directory()}};
    return o;
}

// Raw table projection through the independent reader.
json raw_state(world& w)
{
    vh::raw_reader rr{w.conn};
    json r;
    if (w.v2)
    {
        r["pl"] = rr.rows("SELECT id, title, parentListId, nextListId, isPersisted FROM Playlist ORDER BY id", "itiii");
        r["pe"] = rr.rows("SELECT id, listId, trackId, nextEntityId, databaseUuid FROM PlaylistEntity ORDER BY id", "iiiit");
        r["tk"] = rr.rows("SELECT id, path, filename, fileType, originDatabaseUuid, originTrackId FROM Track ORDER BY id", "itttti");
        r["uuid"] = rr.text("SELECT uuid FROM Information");
        r["seq"] = rr.rows("SELECT name, seq FROM sqlite_sequence ORDER BY name", "ti");
        r["prep"] = rr.rows("SELECT id, trackId FROM PreparelistEntity ORDER BY id", "ii");
    }
    else
    {
        r["crate"] = rr.rows("SELECT id, title, path FROM Crate ORDER BY id", "itt");
        r["cpl"] = rr.rows("SELECT crateOriginId, crateParentId FROM CrateParentList ORDER BY 1,2", "ii");
        r["ch"] = rr.rows("SELECT crateId, crateIdChild FROM CrateHierarchy ORDER BY 1,2", "ii");
        r["ctl"] = rr.rows("SELECT crateId, trackId FROM CrateTrackList ORDER BY 1,2", "ii");
        r["tk"] = rr.rows("SELECT id, path, filename FROM Track ORDER BY id", "itt");
        r["md"] = rr.rows("SELECT id, type, text FROM MetaData WHERE type IN (10, 13) ORDER BY 1,2", "iit");
        r["mdall"] = rr.rows("SELECT DISTINCT id FROM MetaData ORDER BY 1", "i");
        r["mdi"] = rr.rows("SELECT DISTINCT id FROM MetaDataInteger ORDER BY 1", "i");
        r["perf"] = rr.rows("SELECT id FROM PerformanceData ORDER BY 1", "i");
        r["uuid"] = rr.text("SELECT uuid FROM music.Information");
        if (w.schema >= dj::engine::engine_schema::schema_1_9_1)
        {
            r["list"] = rr.rows("SELECT id, type, title, path" +
                                    std::string(w.schema >= dj::engine::engine_schema::schema_1_11_1 ? ", trackCount" : ", -1") +
                                    " FROM List ORDER BY 1,2",
                                "iitti");
            r["ltl"] = rr.rows("SELECT listId, listType, trackId FROM ListTrackList ORDER BY 1,2,3", "iii");
        }
    }
    if (w.u8)
    {
        auto dec = [&](const char* key, std::initializer_list<size_t> cols) {
            if (!r.contains(key))
                return;
            for (auto& row : r[key])
                for (size_t c : cols)
                    if (row.is_array() && c < row.size() && row[c].is_string())
                        row[c] = dec_text(w, row[c].get<std::string>());
        };
        dec("pl", {1});
        dec("crate", {1, 2});
        dec("list", {2, 3});
    }
    r["integrity"] = rr.text("PRAGMA integrity_check");
    json fk = json::array();
    for (auto& v : rr.fk_violations())
        fk.push_back(v);
    r["fk"] = fk;
    r["digest"] = rr.digest();
    return r;
}

std::string file_digest(const world& w)
{
    // directory listing + content hash of every regular file below the library directory
    uint64_t h = 1469598103934665603ULL;
    std::vector<std::string> files;
    for (auto& e : fs::recursive_directory_iterator(w.dir))
    {
        // (the shared-memory index of a WAL-mode database is scratch space of the connections, not stored content)
        std::string p = e.path().string();
        if (p.size() > 4 && p.compare(p.size() - 4, 4, "-shm") == 0)
            continue;
        files.push_back(p + (e.is_directory() ? "/" : ""));
    }
    std::sort(files.begin(), files.end());
    for (auto& f : files)
    {
        vh::raw_reader::fnv(h, f.data(), f.size());
        if (f.back() == '/')
            continue;
        std::ifstream in(f, std::ios::binary);
        char buf[65536];
        while (in)
        {
            in.read(buf, sizeof buf);
            vh::raw_reader::fnv(h, buf, (size_t)in.gcount());
        }
    }
    return vh::hex16(h);
}

void start_world(world& w, const json& r)
{
    w = world{};
    w.schema_name = r.at("schema").get<std::string>();
    w.schema = vh::schema_by_name(w.schema_name);
    w.v2 = vh::is_v2(w.schema);
    w.mode = r.value("mode", "mem");
    w.want_raw = r.value("raw", false);
    w.want_rep = r.value("rep", false);
    w.auto_reopen = r.value("reopen", false);
    w.want_stmts = r.value("stmts", false);
    w.sweep = r.value("sweep", false);
    w.noobs = r.value("noobs", false);
    w.u8 = r.value("u8", false);
    if (r.value("nameset", std::string()) == "like")
        w.u8 = w.like = true;
    w.locks = r.value("locks", false) && r.value("mode", "mem") == "disk";
    w.crash = (r.value("crash", false) || r.value("syscrash", false)) && r.value("mode", "mem") == "disk";
    w.syscrash = r.value("syscrash", false);
    for (auto& n : r.value("names", json::array()))
        w.names.push_back(n.get<std::string>());
    shim::reset_dbs();
    if (w.mode == "disk")
    {
        w.dir = g_tmp_root + "/lib" + std::to_string(++g_dir_counter);
        fs::remove_all(w.dir);
        w.db = dj::engine::create_database(w.dir, w.schema);
        if (r.value("wal", false))
        {
            // another SQLite client (as Engine DJ itself does) switches every database file of the library to WAL journal mode and
            // closes it cleanly; the library is then loaded from that directory.  The journal mode is a property of the file.
            w.wal = true;
            w.db.reset();
            shim::reset_dbs();
            std::vector<std::string> dbs;
            for (auto& e : fs::recursive_directory_iterator(w.dir))
                if (e.is_regular_file() && e.path().extension() == ".db")
                    dbs.push_back(e.path().string());
            for (auto& f : dbs)
            {
                sqlite3* c = nullptr;
                if (sqlite3_open_v2(f.c_str(), &c, SQLITE_OPEN_READWRITE, nullptr) == SQLITE_OK)
                    sqlite3_exec(c, "PRAGMA journal_mode = WAL", nullptr, nullptr, nullptr);
                sqlite3_close(c);
            }
            shim::reset_dbs();
            // the very first load of the converted files is an observer like every later one: load + close between two closed states
            std::string fa = file_digest(w);
            {
                auto probe = dj::engine::load_database(w.dir);
                (void)dj::engine::database_exists(w.dir);
            }
            shim::reset_dbs();
            w.wal_first_same = file_digest(w) == fa ? 1 : 0;
            w.db = dj::engine::load_database(w.dir);
        }
    }
    else
    {
        w.db = dj::engine::create_temporary_database(w.schema);
    }
    w.conn = shim::last_db();
    w.want_conn2 = r.value("conn2", false) && w.mode == "disk";
    if (w.want_conn2)
    {
        w.db2 = dj::engine::load_database(w.dir);
        w.conn2 = shim::last_db();
    }
}

void end_world(world& w)
{
    w.ch.clear();
    w.th.clear();
    w.scratch_c.clear();
    w.scratch_t.clear();
    w.db2.reset();
    w.db.reset();
    if (!w.dir.empty())
    {
        std::error_code ec;
        fs::remove_all(w.dir, ec);
    }
}

struct missing_handle
{
};

// generator tokens for (probe) names: "@long<n>" = n characters, "@utf8", "@nul" = embedded NUL byte
std::string expand_name(const std::string& s)
{
    if (s.rfind("@long", 0) == 0)
        return std::string(std::stoul(s.substr(5)), 'n');
    if (s == "@utf8")
        return "Bj\xc3\xb6rk \xe6\x97\xa5\xe6\x9c\xac";
    if (s == "@nul")
        return std::string("a\0b", 3);
    return s;
}

dj::database& DB(world& w) { return w.via == 2 && w.db2 ? *w.db2 : *w.db; }

dj::crate& C(world& w, const json& op, const char* key)
{
    int64_t i = op.at(key).get<int64_t>();
    if (i <= 0 || (size_t)i >= w.ch.size() || !w.ch[(size_t)i])
        throw missing_handle{};
    if (w.via == 2 && w.db2)
    {
        // the same crate as the second connection sees it (a handle whose crate is gone is used as it is)
        auto c = w.db2->crate_by_id(w.ch[(size_t)i]->id());
        if (c)
        {
            w.scratch_c.push_back(*c);
            return w.scratch_c.back();
        }
    }
    return *w.ch[(size_t)i];
}
dj::track& T(world& w, const json& op, const char* key)
{
    int64_t i = op.at(key).get<int64_t>();
    if (i <= 0 || (size_t)i >= w.th.size() || !w.th[(size_t)i])
        throw missing_handle{};
    if (w.via == 2 && w.db2)
    {
        auto t = w.db2->track_by_id(w.th[(size_t)i]->id());
        if (t)
        {
            w.scratch_t.push_back(*t);
            return w.scratch_t.back();
        }
    }
    return *w.th[(size_t)i];
}

// Observation phase with the C16 bookkeeping: write statements issued, total_changes delta,
// raw digest before/after, (optionally) a second identical observation, file digest on disk.
void observation_phase(world& w, json& rec)
{
    vh::raw_reader rr{w.conn};
    std::string d0, f0;
    if (w.want_rep)
    {
        d0 = rr.digest();
        if (w.mode == "disk")
            f0 = file_digest(w);
    }
    if (w.noobs)
    {
        if (w.want_raw)
            rec["raw"] = raw_state(w);
        return;
    }
    int chg0 = sqlite3_total_changes(w.conn);
    shim::begin_call();
    json o, ob2;
    auto oc = vh::guarded("observe", [&] {
        o = observe(w);
        if (w.db2)
            ob2 = observe2(w);
    });
    if (!oc.ok)
    {
        rec["obs_throw"] = {{"ex", oc.ex}, {"std", oc.std_exc}, {"msg", oc.msg}};
        w.dead = true;
        return;
    }
    if (w.db2)
        rec["obs2"] = ob2;
    json o16;
    o16["w"] = shim::n_writes();
    o16["chg"] = sqlite3_total_changes(w.conn) - chg0;
    if (w.want_rep)
    {
        json o2;
        json ob3;
        auto oc2 = vh::guarded("observe2", [&] {
            o2 = observe(w);
            if (w.db2)
                ob3 = observe2(w);
        });
        o16["rep"] = oc2.ok && o2 == o && ob3 == ob2;
        o16["w"] = shim::n_writes();
        o16["chg"] = sqlite3_total_changes(w.conn) - chg0;
        o16["same"] = rr.digest() == d0;
        if (w.mode == "disk")
            o16["files"] = file_digest(w) == f0;
    }
    rec["obs"] = std::move(o);
    rec["o16"] = std::move(o16);
    if (w.want_raw)
    {
        auto orr = vh::guarded("raw", [&] { rec["raw"] = raw_state(w); });
        // verify() through the public API is part of the C11 projection
        auto ov = vh::guarded("verify", [&] { w.db->verify(); });
        rec["raw"]["verify"] = ov.ok ? "ok" : ov.ex;
    }
}

// Release every handle and the database object (the connection is closed); the ids the handles named are returned.
void close_handles(world& w, std::vector<int64_t>& cids, std::vector<int64_t>& tids)
{
    cids.assign(w.ch.size(), 0);
    tids.assign(w.th.size(), 0);
    for (size_t i = 1; i < w.ch.size(); ++i)
        if (w.ch[i])
            cids[i] = w.ch[i]->id();
    for (size_t i = 1; i < w.th.size(); ++i)
        if (w.th[i])
            tids[i] = w.th[i]->id();
    for (auto& c : w.ch)
        c.reset();
    for (auto& t : w.th)
        t.reset();
    w.scratch_c.clear();
    w.scratch_t.clear();
    w.db2.reset();
    w.db.reset();
    shim::reset_dbs();
}

// Load the library again from its directory and look the handles up by id (a handle whose entity is gone stays empty).
void open_handles(world& w, const std::vector<int64_t>& cids, const std::vector<int64_t>& tids, json& rec)
{
    // sentinel: an out-parameter the callee forgets to assign must not look like a result
    dj::engine::engine_schema loaded =
        w.schema == dj::engine::engine_schema::schema_1_7_1 ? dj::engine::engine_schema::schema_1_6_0 : dj::engine::engine_schema::schema_1_7_1;
    bool exists = false;
    auto oc = vh::guarded("load_database", [&] {
        exists = dj::engine::database_exists(w.dir);
        w.db = dj::engine::load_database(w.dir, loaded);
    });
    rec["out"] = oc.ok ? "ok" : "throw";
    if (!oc.ok)
    {
        rec["ex"] = oc.ex;
        rec["std"] = oc.std_exc;
        w.dead = true;
        return;
    }
    rec["exists"] = exists;
    rec["want"] = w.schema_name;
    rec["loaded"] = vh::name_of(loaded);
    rec["ver"] = w.db->version_name();
    w.conn = shim::last_db();
    if (w.want_conn2)
    {
        auto oc2 = vh::guarded("load_database(2)", [&] { w.db2 = dj::engine::load_database(w.dir); });
        if (!oc2.ok)
        {
            rec["out"] = "throw";
            rec["ex"] = oc2.ex;
            rec["std"] = oc2.std_exc;
            w.dead = true;
            return;
        }
        w.conn2 = shim::last_db();
    }
    for (size_t i = 1; i < cids.size(); ++i)
        if (cids[i])
        {
            auto c = w.db->crate_by_id(cids[i]);
            if (c)
                w.ch[i] = *c;
        }
    for (size_t i = 1; i < tids.size(); ++i)
        if (tids[i])
        {
            auto t = w.db->track_by_id(tids[i]);
            if (t)
                w.th[i] = *t;
        }
}

void do_reopen(world& w, json& rec)
{
    // (C16: neither releasing the last handle nor loading again may change what is stored - the digest of all tables of all
    //  attached databases, which includes any table that appears or disappears, and the bytes of the files)
    std::string d0 = vh::raw_reader{w.conn}.digest();
    std::string f0 = w.mode == "disk" ? file_digest(w) : std::string();
    std::vector<int64_t> cids, tids;
    close_handles(w, cids, tids);
    if (w.wal)
    {
        // closing the last connection of a WAL-mode database checkpoints what the history wrote: the files are compared
        // between two closed states with one load + close in between (load and close are the observers judged here)
        f0 = file_digest(w);
        json scratch;
        std::vector<int64_t> c2 = cids, t2 = tids;
        open_handles(w, cids, tids, scratch);
        if (!w.dead)
        {
            std::vector<int64_t> c3, t3;
            close_handles(w, c3, t3);
            rec["cfiles"] = file_digest(w) == f0;
        }
        cids = c2;
        tids = t2;
    }
    open_handles(w, cids, tids, rec);
    if (!w.dead)
    {
        rec["csame"] = vh::raw_reader{w.conn}.digest() == d0;
        if (w.mode == "disk" && !w.wal)
            rec["cfiles"] = file_digest(w) == f0;
    }
}

void exec_op(world& w, const json& op)
{
    std::string name = op.at("op").get<std::string>();
    json rec;
    rec["e"] = "call";
    rec["op"] = name;
    const bool probe = op.value("probe", false);
    w.via = w.db2 ? op.value("via", 1) : 1;
    w.scratch_c.clear();
    w.scratch_t.clear();
    if (w.db2)
        rec["via"] = w.via;
    if (probe)
        rec["probe"] = true;   // an unmodelled call (stale handle, extreme argument): judged for safety only (C15)
    int64_t newid = 0;
    std::function<void()> f;
    try
    {
        if (name == "create_root")
        {
            auto ntok = expand_name(op.at("n").get<std::string>());
            auto n = enc_name(w, ntok);
            rec["n"] = ntok;
            f = [&w, n, &newid] {
                auto c = DB(w).create_root_crate(n);
                newid = c.id();
                w.ch.push_back(c);
            };
        }
        else if (name == "create_root_after")
        {
            auto ntok = expand_name(op.at("n").get<std::string>());
            auto n = enc_name(w, ntok);
            auto& a = C(w, op, "after");
            rec["n"] = ntok;
            rec["after"] = a.id();
            f = [&w, n, &a, &newid] {
                auto c = DB(w).create_root_crate_after(n, a);
                newid = c.id();
                w.ch.push_back(c);
            };
        }
        else if (name == "create_sub")
        {
            auto ntok = expand_name(op.at("n").get<std::string>());
            auto n = enc_name(w, ntok);
            auto& p = C(w, op, "c");
            rec["n"] = ntok;
            rec["c"] = p.id();
            f = [&w, n, &p, &newid] {
                auto c = p.create_sub_crate(n);
                newid = c.id();
                w.ch.push_back(c);
            };
        }
        else if (name == "create_sub_after")
        {
            auto ntok = expand_name(op.at("n").get<std::string>());
            auto n = enc_name(w, ntok);
            auto& p = C(w, op, "c");
            auto& a = C(w, op, "after");
            rec["n"] = ntok;
            rec["c"] = p.id();
            rec["after"] = a.id();
            f = [&w, n, &p, &a, &newid] {
                auto c = p.create_sub_crate_after(n, a);
                newid = c.id();
                w.ch.push_back(c);
            };
        }
        else if (name == "set_name")
        {
            auto ntok = expand_name(op.at("n").get<std::string>());
            auto n = enc_name(w, ntok);
            auto& c = C(w, op, "c");
            rec["n"] = ntok;
            rec["c"] = c.id();
            f = [n, &c] { c.set_name(n); };
        }
        else if (name == "set_parent")
        {
            auto& c = C(w, op, "c");
            rec["c"] = c.id();
            if (op.at("p").get<int64_t>() == 0)
            {
                rec["p"] = 0;
                f = [&c] { c.set_parent(std::nullopt); };
            }
            else
            {
                auto& p = C(w, op, "p");
                rec["p"] = p.id();
                f = [&c, &p] { c.set_parent(p); };
            }
        }
        else if (name == "remove_crate")
        {
            auto& c = C(w, op, "c");
            rec["c"] = c.id();
            f = [&w, &c] { DB(w).remove_crate(c); };
        }
        else if (name == "create_track")
        {
            int k = ++w.ntracks_created;
            std::string path = op.value("path", "music/t" + std::to_string(k) + ".mp3");
            rec["path"] = path;
            {
                auto slash = path.rfind('/');
                std::string base = slash == std::string::npos ? path : path.substr(slash + 1);
                auto dot = base.rfind('.');
                rec["base"] = base;
                rec["ext"] = dot == std::string::npos ? std::string() : base.substr(dot + 1);
            }
            f = [&w, path, &newid] {
                dj::track_snapshot s;
                s.relative_path = path;
                auto t = DB(w).create_track(s);
                newid = t.id();
                w.th.push_back(t);
            };
        }
        else if (name == "remove_track")
        {
            auto& t = T(w, op, "t");
            rec["t"] = t.id();
            f = [&w, &t] { DB(w).remove_track(t); };
        }
        else if (name == "add_track")
        {
            auto& c = C(w, op, "c");
            auto& t = T(w, op, "t");
            rec["c"] = c.id();
            rec["t"] = t.id();
            f = [&c, &t] { c.add_track(t); };
        }
        else if (name == "add_tracks")
        {
            // the bulk entry point crate::add_tracks(first, last) with a range that may name a track more than once
            auto& c = C(w, op, "c");
            rec["c"] = c.id();
            auto v = std::make_shared<std::vector<dj::track>>();
            json ids = json::array();
            for (auto& k : op.at("ts"))
            {
                json one = {{"t", k}};
                auto& t = T(w, one, "t");
                v->push_back(t);
                ids.push_back(t.id());
            }
            rec["ts"] = ids;
            f = [&c, v] { c.add_tracks(v->begin(), v->end()); };
        }
        else if (name == "remove_track_from")
        {
            auto& c = C(w, op, "c");
            auto& t = T(w, op, "t");
            rec["c"] = c.id();
            rec["t"] = t.id();
            f = [&c, &t] { c.remove_track(t); };
        }
        else if (name == "clear_tracks")
        {
            auto& c = C(w, op, "c");
            rec["c"] = c.id();
            f = [&c] { c.clear_tracks(); };
        }
        else if (name == "add_track_id")
        {
            auto& c = C(w, op, "c");
            int64_t id = op.at("id").get<int64_t>();
            rec["c"] = c.id();
            rec["id"] = id;
            f = [&c, id] { c.add_track(id); };
        }
        else if (name == "probe_foreign")
        {
            // handles that belong to ANOTHER library object (one of each schema family, temporary) used as arguments of
            // calls on this library: whatever the library makes of them, every call completes or throws a std::exception
            auto& c = C(w, op, "c");
            rec["c"] = c.id();
            f = [&w, &c, &rec] {
                json p;
                auto g = [&](const std::string& what, std::function<json()> fn) {
                    json v;
                    auto oc = vh::guarded(what.c_str(), [&] { v = fn(); });
                    p[what] = json({{"ok", oc.ok}, {"ex", oc.ex}, {"std", oc.ok || oc.std_exc}});
                };
                // a sub-crate of ours, so that a foreign crate can carry the id of one of c's descendants
                int64_t child_id = 0;
                g("own_child", [&] { child_id = c.create_sub_crate("pfchild").id(); return json(child_id); });
                int k = 0;
                for (auto sch : {dj::engine::engine_schema::schema_1_18_0_os, dj::engine::engine_schema::schema_2_21_2})
                {
                    std::string tag = k++ == 0 ? "v1_" : "v2_";
                    auto other = dj::engine::create_temporary_database(sch);
                    // a ROOT crate of the other library whose id is that of c's own child here: moving c under "it" would
                    // close a cycle in this library although the handle has no ancestors at all where it comes from
                    if (child_id > 0)
                    {
                        std::optional<dj::crate> twin;
                        for (int n = 0; n < 64 && !twin; ++n)
                        {
                            auto x = other.create_root_crate("twin" + std::to_string(n));
                            if (x.id() == child_id)
                                twin = x;
                            else if (x.id() > child_id)
                                break;
                        }
                        if (twin)
                        {
                            g(tag + "set_parent_twin_of_descendant", [&] { c.set_parent(*twin); return json(0); });
                            g(tag + "descendants_after", [&] { return ids_of(c.descendants()); });
                            g(tag + "crates_after", [&] { return ids_of(w.db->crates()); });
                        }
                    }
                    auto fr = other.create_root_crate("f");
                    auto fs2 = fr.create_sub_crate("g");
                    dj::track_snapshot sn;
                    sn.relative_path = "foreign/t.mp3";
                    auto ft = other.create_track(sn);
                    fr.add_track(ft);
                    if (tag == "v1_")
                    {
                        g("id", [&] { return json(fr.id()); });
                        g("is_valid", [&] { return json(fr.is_valid()); });
                        g("copy", [&] { dj::crate d{fr}; d = fr; return json(d.id()); });
                    }
                    g(tag + "add_track", [&] { c.add_track(ft); return json(0); });
                    g(tag + "remove_track_from", [&] { c.remove_track(ft); return json(0); });
                    g(tag + "set_parent", [&] { c.set_parent(fs2); return json(0); });
                    g(tag + "create_sub_after", [&] { return json(c.create_sub_crate_after("pf1", fs2).id()); });
                    g(tag + "create_root_after", [&] { return json(w.db->create_root_crate_after("pf2", fr).id()); });
                    g(tag + "db_remove_track", [&] { w.db->remove_track(ft); return json(0); });
                    g(tag + "db_remove_crate", [&] { w.db->remove_crate(fs2); return json(0); });
                    g(tag + "foreign_still_ok", [&] { return json({fr.is_valid(), fr.name(), ids_of(fr.children()), tids_of(fr.tracks())}); });
                }
                rec["probes"] = p;
            };
        }
        else if (name == "probe_crate")
        {
            // every observer of one handle, valid or not, each guarded on its own
            auto& c = C(w, op, "c");
            rec["c"] = c.id();
            f = [&w, &c, &rec] {
                json p;
                auto g = [&](const char* what, std::function<json()> fn) {
                    json v;
                    auto oc = vh::guarded(what, [&] { v = fn(); });
                    p[what] = json({{"ok", oc.ok}, {"ex", oc.ex}, {"std", oc.ok || oc.std_exc}});
                };
                g("is_valid", [&] { return json(c.is_valid()); });
                g("id", [&] { return json(c.id()); });
                g("name", [&] { return json(c.name()); });
                g("parent", [&] { auto x = c.parent(); return json(x ? x->id() : 0); });
                g("children", [&] { return ids_of(c.children()); });
                g("descendants", [&] { return ids_of(c.descendants()); });
                g("tracks", [&] { return tids_of(c.tracks()); });
                g("sub_crate_by_name", [&] { auto x = c.sub_crate_by_name("a"); return json(x ? x->id() : 0); });
                g("db", [&] { return json(c.db().uuid()); });
                g("copy", [&] { dj::crate d{c}; d = c; return json(d.id()); });
                rec["probes"] = p;
            };
        }
        else if (name == "reopen")
        {
            rec["e"] = "reopen";
            do_reopen(w, rec);
            if (!w.dead)
                observation_phase(w, rec);
            vh::emit(rec);
            return;
        }
        else
        {
            vh::emit({{"e", "skip"}, {"why", "unknown op " + name}});
            w.dead = true;
            return;
        }
    }
    catch (const missing_handle&)
    {
        vh::emit({{"e", "skip"}, {"why", "no-handle"}, {"op", name}});
        w.dead = true;
        return;
    }

    // Crash points (library on disk): before the call proper, the same call is attempted in a forked process that
    // opens the library itself and dies right before the k-th statement of the call is stepped, k = 1, 2, ... -
    // no destructor runs, no ROLLBACK is issued.  The parent then loads the library again (SQLite rolls a hot
    // journal back) and observes.  While the stored tables are unchanged the attempt is logged as a "crash" record
    // and the next k is tried; once they differ the dead process had committed: the record is logged as the CALL
    // (its effects must be the complete effects of the call - a partial update is what the trace spec rejects) and
    // the call proper is not executed again.
    bool done_by_crash = false;
    bool all_valid = true;   // (a handle to a removed entity cannot be looked up again in another process)
    if (w.crash && !probe)
    {
        for (auto& c : w.ch)
            all_valid = all_valid && (!c || c->is_valid());
        for (auto& t : w.th)
            all_valid = all_valid && (!t || t->is_valid());
    }
    if (w.crash && !probe && all_valid)
    {
        std::set<int64_t> crates_before, tracks_before;
        for (auto& c : w.db->crates())
            crates_before.insert(c.id());
        for (auto& t : w.db->tracks())
            tracks_before.insert(t.id());
        // (syscall-level crash points) what every database FILE looks like before the call and after the complete call:
        // the call is first run to its end by a forked process, the per-file digests are taken, and the files are put back.
        std::vector<std::pair<std::string, std::string>> f_old;   // (attach order)
        std::map<std::string, std::string> f_new;
        if (w.syscrash)
        {
            for (auto& sc : vh::raw_reader{w.conn}.file_schemas())
                f_old.emplace_back(sc, vh::raw_reader{w.conn}.digest_of(sc));
            std::vector<int64_t> cids, tids;
            close_handles(w, cids, tids);
            std::error_code ec;
            fs::remove_all(w.dir + ".bak", ec);
            fs::copy(w.dir, w.dir + ".bak", fs::copy_options::recursive, ec);
            fflush(nullptr);
            pid_t pid = fork();
            if (pid == 0)
            {
                alarm(0);
                json dummy;
                open_handles(w, cids, tids, dummy);
                if (w.dead)
                    _exit(44);
                shim::begin_call();
                auto oc = vh::guarded(name.c_str(), f);
                _exit(oc.ok ? 43 : 45);
            }
            int status = 0;
            if (pid > 0)
                waitpid(pid, &status, 0);
            json dummy;
            open_handles(w, cids, tids, dummy);
            if (!w.dead)
                for (auto& kv : f_old)
                    f_new[kv.first] = vh::raw_reader{w.conn}.digest_of(kv.first);
            {
                std::vector<int64_t> c2, t2;   // (the ids to look up again are those from BEFORE the pre-run)
                close_handles(w, c2, t2);
            }
            w.dead = false;
            fs::remove_all(w.dir, ec);
            fs::rename(w.dir + ".bak", w.dir, ec);
            open_handles(w, cids, tids, dummy);
            if (w.dead || f_old.empty() || vh::raw_reader{w.conn}.digest_of("") .empty())
            {
                vh::emit({{"e", "skip"}, {"why", "syscrash pre-run failed"}});
                w.dead = true;
                return;
            }
        }
        for (int k = 1; k <= (w.syscrash ? 400 : 64) && !w.dead; ++k)
        {
            std::string d0 = vh::raw_reader{w.conn}.digest();
            std::vector<int64_t> cids, tids;
            close_handles(w, cids, tids);
            fflush(nullptr);
            pid_t pid = fork();
            if (pid == 0)
            {
                // child: its own connection; handles are looked up into the very same slots `f` refers to
                alarm(0);
                json dummy;
                open_handles(w, cids, tids, dummy);
                if (w.dead)
                    _exit(44);
                bool all = true;   // every handle the call needs must have been found again
                for (size_t i = 1; i < cids.size(); ++i)
                    all = all && (!cids[i] || w.ch[i]);
                for (size_t i = 1; i < tids.size(); ++i)
                    all = all && (!tids[i] || w.th[i]);
                if (!all)
                    _exit(46);
                shim::begin_call();
                if (w.syscrash)
                    vh::syscrash::arm(k);    // die right before the k-th file-modifying system call of SQLite's VFS
                else
                    shim::set_crash(k);
                auto oc = vh::guarded(name.c_str(), f);
                _exit(oc.ok ? 43 : 45);   // the call ran to its end (k exceeds its statements): returned / threw
            }
            int status = 0;
            if (pid < 0 || waitpid(pid, &status, 0) < 0)
            {
                vh::emit({{"e", "skip"}, {"why", "fork/waitpid failed"}});
                w.dead = true;
                break;
            }
            int code = WIFEXITED(status) ? WEXITSTATUS(status) : 1000 + (WIFSIGNALED(status) ? WTERMSIG(status) : 0);
            json r = rec;
            r["crash"] = {{"k", k}, {"code", code}, {"sys", w.syscrash}};
            open_handles(w, cids, tids, r);     // sets out / exists / want / loaded / ver
            if (w.dead)
            {
                r["e"] = "crash";
                vh::emit(r);
                break;
            }
            bool same = vh::raw_reader{w.conn}.digest() == d0;
            r["dsame"] = same;
            if (w.syscrash)
            {
                // every file, in attach order: unchanged ("old") or not ("changed"); "touched": the complete call changes
                // this file at all (pre-run).  (Equality with the pre-run's result is not asked for: rows carry the time
                // of day.)
                json files = json::array();
                for (auto& kv : f_old)
                {
                    std::string d = vh::raw_reader{w.conn}.digest_of(kv.first);
                    bool touched = f_new[kv.first] != kv.second;
                    files.push_back({{"db", kv.first}, {"touched", touched}, {"is", d == kv.second ? "old" : "changed"}});
                }
                r["files"] = files;
            }
            if (code != shim::CRASH_EXIT && code != 43 && code != 45)
            {
                // the child died of something else (signal, sanitizer, could not load): that is a finding by itself
                r["e"] = "crash";
                r["childdied"] = true;
                observation_phase(w, r);
                vh::emit(r);
                w.dead = true;
                break;
            }
            if (same && code == shim::CRASH_EXIT)
            {
                r["e"] = "crash";
                observation_phase(w, r);
                vh::emit(r);
                continue;   // next crash point
            }
            if (same)
                break;      // the call ran to its end without changing anything: execute it normally below
            // the dead process had committed: this IS the call
            r.erase("exists");
            r.erase("want");
            r.erase("loaded");
            r.erase("ver");
            r["out"] = code == 45 ? "throw" : "ok";
            if (code == 45)
            {
                r["ex"] = "unknown (thrown in the crashed process)";
                r["std"] = true;
            }
            int64_t nid = 0;
            if (name == "create_track")
            {
                for (auto& t : w.db->tracks())
                    if (!tracks_before.count(t.id()))
                    {
                        nid = t.id();
                        w.th.push_back(t);
                    }
            }
            else if (name.rfind("create_", 0) == 0)
            {
                for (auto& c : w.db->crates())
                    if (!crates_before.count(c.id()))
                    {
                        nid = c.id();
                        w.ch.push_back(c);
                    }
            }
            r["new"] = nid;
            r["ns"] = 0;
            r["nw"] = 0;
            observation_phase(w, r);
            vh::emit(r);
            done_by_crash = true;
            break;
        }
    }
    if (done_by_crash || w.dead)
        return;

    // Lock sweep (library on disk): before the call proper, the same call is attempted while ANOTHER CONNECTION takes
    // an EXCLUSIVE, RESERVED or SHARED lock on every database file right before the call's k-th statement is stepped
    // (k = 1, 2, ...) and holds it until the call has returned or thrown.  SQLite then fails the library's statements
    // with SQLITE_BUSY exactly where its locking protocol says (a read under a foreign EXCLUSIVE lock, a write under
    // RESERVED, a COMMIT or an autocommitted write under SHARED).  Every attempt is logged with the class, lock needs
    // and result of each statement (TraceContention predicts each result); an attempt in which a statement failed is a
    // faulted attempt (TraceLibrary: Failed - throw, nothing changes); the first attempt in which none failed is the call.
    if (w.locks && !probe)
    {
        bool done = false;
        for (int k = 1; k <= 64 && !done && !w.dead; ++k)
            for (int want = 4; want >= 1 && !done && !w.dead;)
            {
                json r = rec;
                size_t nch = w.ch.size(), nth = w.th.size();
                std::string d0 = vh::raw_reader{w.conn}.digest();
                newid = 0;
                auto la = vh::lock_attempt(w.conn, k, want, name.c_str(), f);
                auto& oc = la.oc;
                bool any_fail = la.any_busy;   // a statement was refused because of the foreign lock
                want = la.next_want;           // next: the strongest level below the one just held
                r["out"] = oc.ok ? "ok" : "throw";
                if (!oc.ok)
                {
                    r["ex"] = oc.ex;
                    r["std"] = oc.std_exc;
                }
                r["new"] = newid;
                r["ns"] = shim::n_prepared();
                r["nw"] = shim::n_writes();
                r["lk"] = la.lk;
                int lvl = la.lk["lvl"].get<int>();
                if (any_fail)
                {
                    r["fault"] = {{"k", la.fail_k}, {"fired", true}, {"lock", lvl}};
                    r["dsame"] = vh::raw_reader{w.conn}.digest() == d0;
                    if (oc.ok)
                    {
                        w.ch.resize(nch);
                        w.th.resize(nth);
                    }
                }
                else
                    done = true;   // no statement was refused: this attempt was the call itself
                observation_phase(w, r);
                if (!any_fail && op.contains("exp") && op["exp"].get<std::string>() != r["out"].get<std::string>())
                {
                    r["diverged"] = true;
                    w.dead = true;
                }
                vh::emit(r);
            }
        if (!done && !w.dead)
        {
            vh::emit({{"e", "skip"}, {"why", "lock sweep did not reach the end of the call"}});
            w.dead = true;
        }
        return;
    }

    // C14 sweep: before the call proper, the same call is attempted with its 1st, 2nd, ... statement
    // failing, until the fault no longer fires (k exceeds the number of statements the call issues);
    // that last attempt is the ordinary call.  Every faulted attempt gets its own trace record.
    int fault = op.value("fault", 0);
    int k = w.sweep ? 1 : fault;
    for (;; ++k)
    {
        json r = rec;
        size_t nch = w.ch.size(), nth = w.th.size();
        std::string d0;
        if (k)
            d0 = vh::raw_reader{w.conn}.digest();
        newid = 0;
        shim::begin_call();
        shim::set_logging(w.want_stmts);
        shim::set_fault(k);
        auto t0 = std::chrono::steady_clock::now();
        auto oc = vh::guarded(name.c_str(), f);
        auto t1 = std::chrono::steady_clock::now();
        bool fired = shim::fault_fired();
        shim::set_fault(0);
        r["out"] = oc.ok ? "ok" : "throw";
        if (!oc.ok)
        {
            r["ex"] = oc.ex;
            r["std"] = oc.std_exc;
        }
        r["new"] = newid;
        r["ns"] = shim::n_prepared();
        r["nw"] = shim::n_writes();
        if (rec.contains("probes"))
            r["probes"] = rec["probes"];
        if (k)
        {
            r["fault"] = {{"k", k}, {"fired", fired}};
            if (fired)
                r["dsame"] = vh::raw_reader{w.conn}.digest() == d0;
        }
        // no call - completed, refused or failed - returns with a transaction still open on its connection
        if (w.conn)
            r["ac"] = sqlite3_get_autocommit(w.conn) != 0;
        if (w.want_stmts && !fired)   // (complete executions only: the discipline is judged on whole calls)
        {
            json st = json::array();
            for (auto& s : shim::stmts())
                st.push_back({{"k", s.k}, {"ro", s.readonly}, {"rc", s.rc}, {"f", s.faulted}, {"c", s.cls}, {"chg", s.chg}, {"sql", s.sql.substr(0, 160)}});
            r["stmts"] = st;
        }
        r["us"] = (int64_t)std::chrono::duration_cast<std::chrono::microseconds>(t1 - t0).count();
        if (fired && oc.ok)
        {
            // a call that "succeeded" although one of its statements failed: keep handles it
            // created out of the table so that script indices stay aligned
            w.ch.resize(nch);
            w.th.resize(nth);
        }
        observation_phase(w, r);
        if (probe && w.dead && r.contains("obs_throw") && r["obs_throw"].value("std", false))
            w.dead = false;   // after an unmodelled call the observation itself may throw; only a crash ends the run
        bool last_attempt = !(w.sweep && fired && k < 64);
        if (last_attempt && op.contains("exp") && op["exp"].get<std::string>() != r["out"].get<std::string>() && !fired)
        {
            r["diverged"] = true;
            w.dead = true;
        }
        vh::emit(r);
        if (last_attempt || w.dead)
            break;
    }
    if (w.auto_reopen && !w.dead && w.mode == "disk")
    {
        json r2;
        r2["e"] = "reopen";
        do_reopen(w, r2);
        if (!w.dead)
            observation_phase(w, r2);
        vh::emit(r2);
    }
}

}  // namespace

int main(int argc, char** argv)
{
    if (argc < 3)
    {
        fprintf(stderr, "usage: libdriver <script.ndjson> <trace.ndjson> [--skip N] [--watchdog S]\n");
        return 2;
    }
    long skip = 0;
    for (int i = 3; i + 1 < argc; i += 2)
    {
        if (!strcmp(argv[i], "--skip"))
            skip = atol(argv[i + 1]);
        else if (!strcmp(argv[i], "--watchdog"))
            vh::g_watchdog_s = atoi(argv[i + 1]);
    }
    std::ifstream in(argv[1]);
    if (!in)
    {
        fprintf(stderr, "cannot read %s\n", argv[1]);
        return 2;
    }
    FILE* out = fopen(argv[2], skip ? "a" : "w");
    if (!out)
    {
        fprintf(stderr, "cannot write %s\n", argv[2]);
        return 2;
    }
    vh::g_trace_fd = fileno(out);
    vh::install_handlers();
    g_tmp_root = "/dev/shm/verif." + std::to_string(getpid());
    fs::create_directories(g_tmp_root);

    world w;
    bool have_world = false;
    long exec_no = 0;
    std::string line;
    while (std::getline(in, line))
    {
        if (line.empty())
            continue;
        json op = json::parse(line);
        if (op.at("op") == "reset")
        {
            ++exec_no;
            if (have_world)
                end_world(w);
            have_world = false;
            if (exec_no <= skip)
                continue;
            json r;
            r["e"] = "reset";
            r["x"] = exec_no;
            r["schema"] = op.at("schema");
            r["family"] = vh::is_v2(vh::schema_by_name(op.at("schema"))) ? "v2" : "v1";
            r["mode"] = op.value("mode", "mem");
            r["sid"] = op.value("sid", "");
            r["names"] = op.value("names", json::array());
            auto oc = vh::guarded("reset", [&] { start_world(w, op); });
            if (!oc.ok)
            {
                r["out"] = "throw";
                r["ex"] = oc.ex;
                w.dead = true;
                vh::emit(r);
                continue;
            }
            have_world = true;
            r["out"] = "ok";
            if (w.wal_first_same >= 0)
                r["walsame"] = w.wal_first_same == 1;
            observation_phase(w, r);
            vh::emit(r);
            continue;
        }
        if (exec_no <= skip || !have_world || w.dead)
            continue;
        exec_op(w, op);
    }
    if (have_world)
        end_world(w);
    std::error_code ec;
    fs::remove_all(g_tmp_root, ec);
    fclose(out);
    return 0;
}
