// pltabledriver: the schema-2.x playlist / playlist-entity TABLE API (playlist_table, playlist_entity_table) driven
// along operation sequences of the storage-layer model (spec/MCV2Table.tla).  After every operation it logs the rows an
// independent reader finds and everything the table API's own read functions return.
//
//   pltabledriver <script.ndjson> <trace.ndjson>
#include <djinterop/djinterop.hpp>
#include <djinterop/engine/v2/engine_library.hpp>

#include <cstring>
#include <fstream>
#include <optional>

#include "common.hpp"
#include "schemas.hpp"

namespace dj = djinterop;
namespace v2 = djinterop::engine::v2;
using vh::json;

namespace
{
struct world
{
    std::optional<v2::engine_library> lib;
    sqlite3* conn = nullptr;
    int64_t max_id = 0;
    size_t letk = 0;   // which of the last-edit times the next written playlist row carries
};

// last-edit times written into playlist rows (whole seconds since the epoch): ordinary, the epoch, the seconds around it, times
// before 1970 on and off a day boundary, the last second of year 2199 (a time_point counts nanoseconds in 64 bits: years 1678 .. 2261)
const long long k_lets[] = {1600000000LL, 0LL, -1LL, 86399LL, -86399LL, -86400LL, -1000000000LL, 7258118399LL, 1LL, -86401LL};


template <typename C>
json ids_json(const C& c)
{
    json a = json::array();
    for (auto&& x : c)
        a.push_back((int64_t)x);
    return a;
}

json raw_rows(world& w)
{
    vh::raw_reader rr{w.conn};
    json r;
    r["pl"] = rr.rows("SELECT id, title, parentListId, nextListId FROM Playlist ORDER BY id", "itii");
    // (an entity that names a track of ANOTHER database - databaseUuid other than this library's - is logged as track id + 100,
    //  which is how the model tells (track 1, here) from (track 1, elsewhere): the UNIQUE key is (listId, trackId, databaseUuid))
    r["pe"] = rr.rows("SELECT id, listId, trackId + 100 * (databaseUuid <> (SELECT uuid FROM Information)), nextEntityId FROM PlaylistEntity "
                      "ORDER BY id", "iiii");
    r["seq"] = rr.rows("SELECT name, seq FROM sqlite_sequence ORDER BY name", "ti");
    r["plx"] = rr.rows("SELECT id, isPersisted, isExplicitlyExported FROM Playlist ORDER BY id", "iii");
    return r;
}

json observe(world& w)
{
    auto p = w.lib->playlist();
    auto e = w.lib->playlist_entity();
    json o;
    auto all = p.all_ids();
    o["all_ids"] = ids_json(all);
    o["root_ids"] = ids_json(p.root_ids());
    json lists = json::array();
    for (auto id : all)
    {
        json x = {{"id", id}};
        std::optional<v2::playlist_row> row;
        bool get_threw = false;
        try
        {
            row = p.get(id);
        }
        catch (const std::exception&)
        {
            get_threw = true;   // (a stored row that get() cannot read back: logged as a row that matches nothing)
        }
        x["row"] = row ? json({{"id", row->id}, {"title", row->title}, {"parent", row->parent_list_id}, {"next", row->next_list_id},
                                {"persisted", row->is_persisted}, {"exported", row->is_explicitly_exported},
                                {"let", std::to_string((long long)std::chrono::duration_cast<std::chrono::seconds>(
                                                           row->last_edit_time.time_since_epoch()).count())}})
                       : json({{"id", 0}, {"title", ""}, {"parent", -1}, {"next", -1}, {"persisted", false}, {"exported", false},
                               {"let", get_threw ? "get() threw" : "none"}});
        x["exists"] = p.exists(id);
        x["child_ids"] = ids_json(p.child_ids(id));
        x["descendant_ids"] = ids_json(p.descendant_ids(id));
        x["track_ids"] = ids_json(e.track_ids(id));
        json eids = json::array(), ents = json::array();
        auto own_uuid = w.lib->information().get().uuid;
        for (auto& er : e.get_for_list(id))
        {
            eids.push_back(er.id);
            ents.push_back(er.track_id + (er.database_uuid != own_uuid ? 100 : 0));
        }
        x["entity_ids"] = eids;
        x["ents"] = ents;
        int64_t found = 0;
        if (row)
        {
            auto f = row->parent_list_id == 0 ? p.find_root_id(row->title) : p.find_id(row->parent_list_id, row->title);
            found = f ? *f : 0;
        }
        x["found"] = found;
        lists.push_back(std::move(x));
        w.max_id = std::max<int64_t>(w.max_id, id);
    }
    o["lists"] = lists;
    // ids handed out earlier and removed since: must be reported as gone; anything else is listed as a zombie
    json gone = json::array(), zombies = json::array();
    for (int64_t id = 1; id <= w.max_id; ++id)
    {
        if (std::find(all.begin(), all.end(), id) != all.end())
            continue;
        if (!p.exists(id) && !p.get(id))
            gone.push_back(id);
        else
            zombies.push_back(id);
    }
    o["gone"] = gone;
    o["zombies"] = zombies;
    // the same store seen through the high-level API (database / crate handles are views of these rows): every
    // structural query of every crate, on stores only the table API can build (entities of tracks that have no row)
    {
        auto db = w.lib->database();
        json hl;
        json cr = json::array(), crates = json::array(), roots = json::array(), tks = json::array();
        for (auto& c : db.crates())
        {
            crates.push_back(c.id());
            json x = {{"id", c.id()}, {"v", c.is_valid()}, {"nm", c.name()}};
            auto par = c.parent();
            x["par"] = par ? par->id() : 0;
            json ch = json::array(), de = json::array(), tr = json::array();
            for (auto& d : c.children())
                ch.push_back(d.id());
            for (auto& d : c.descendants())
                de.push_back(d.id());
            for (auto& t : c.tracks())
                tr.push_back(t.id());
            x["ch"] = ch;
            x["de"] = de;
            x["tr"] = tr;
            auto byid = db.crate_by_id(c.id());
            x["byid"] = byid ? byid->id() : 0;
            cr.push_back(std::move(x));
        }
        for (auto& c : db.root_crates())
            roots.push_back(c.id());
        for (auto& t : db.tracks())
            tks.push_back(t.id());
        hl["crates"] = crates;
        hl["roots"] = roots;
        hl["cr"] = cr;
        hl["tracks"] = tks;
        o["hl"] = hl;
    }
    return o;
}

// raw rows + observation with the C16 bookkeeping: write statements issued by the read functions, rows changed,
// digest of all tables before / after, a second identical observation
void observation_phase(world& w, json& rec)
{
    vh::raw_reader rr{w.conn};
    rec["raw"] = raw_rows(w);
    std::string d0 = rr.digest();
    int chg0 = sqlite3_total_changes(w.conn);
    shim::begin_call();
    json o = observe(w);
    json o2 = observe(w);
    rec["o16"] = {{"w", shim::n_writes()}, {"chg", sqlite3_total_changes(w.conn) - chg0}, {"rep", o == o2}, {"same", rr.digest() == d0}};
    rec["obs"] = std::move(o);
}
}  // namespace

int main(int argc, char** argv)
{
    if (argc < 3)
        return 2;
    long skip = 0;
    for (int i = 3; i + 1 < argc; i += 2)
    {
        if (!strcmp(argv[i], "--skip"))
            skip = atol(argv[i + 1]);
        else if (!strcmp(argv[i], "--watchdog"))
            vh::g_watchdog_s = atoi(argv[i + 1]);
    }
    std::ifstream in(argv[1]);
    FILE* out = fopen(argv[2], skip ? "a" : "w");
    if (!in || !out)
        return 2;
    vh::g_trace_fd = fileno(out);
    vh::install_handlers();
    world w;
    bool have = false, dead = false;
    std::string line;
    long exec_no = 0;
    using tp = std::chrono::system_clock::time_point;
    while (std::getline(in, line))
    {
        if (line.empty())
            continue;
        json op = json::parse(line);
        std::string name = op.at("op");
        if (name == "reset")
        {
            ++exec_no;
            w = world{};
            dead = false;
            have = false;
            if (exec_no <= skip)
                continue;
            shim::reset_dbs();
            json r = {{"e", "reset"}, {"x", exec_no}, {"schema", op.at("schema")}, {"sid", op.value("sid", "")}};
            auto oc = vh::guarded("reset", [&] {
                w.lib = v2::engine_library::create_temporary(vh::schema_by_name(op.at("schema").get<std::string>()));
                w.conn = shim::last_db();
            });
            r["out"] = oc.ok ? "ok" : "throw";
            have = oc.ok;
            if (have)
            {
                observation_phase(w, r);
            }
            vh::emit(r);
            continue;
        }
        if (!have || dead)
            continue;
        json rec = op;   // the operation with all its arguments, as the model named them
        rec["e"] = "call";
        rec.erase("out");
        int64_t newid = 0;
        std::function<void()> f;
        auto p = w.lib->playlist();
        auto e = w.lib->playlist_entity();
        int64_t id = op.value("id", 0), parent = op.value("parent", 0), next = op.value("next", 0), list = op.value("list", 0),
                track = op.value("track", 0), entity = op.value("entity", 0);
        std::string title = op.value("title", "");
        if (name == "pl_add")
        {
            // (every row is persisted - the schema's triggers propagate that flag through the tree - while the exported flag,
            //  which the database does not maintain, differs between rows so that the two columns cannot be confused)
            bool exported = op.value("exported", title != "b");
            rec["exported"] = exported;
            long long let = k_lets[w.letk++ % (sizeof k_lets / sizeof k_lets[0])];
            rec["let"] = std::to_string(let);
            v2::playlist_row row{v2::PLAYLIST_ROW_ID_NONE, title, parent, true, next, tp{std::chrono::seconds{let}}, exported};
            f = [&, row] { newid = p.add(row); };
        }
        else if (name == "pl_update")
        {
            bool exported = op.value("exported", title == "a");
            rec["exported"] = exported;
            long long let = k_lets[w.letk++ % (sizeof k_lets / sizeof k_lets[0])];
            rec["let"] = std::to_string(let);
            f = [&, id, title, parent, next, exported, let] {
                auto row = p.get(id);
                if (!row)
                    throw std::runtime_error("harness: no such playlist");
                row->last_edit_time = tp{std::chrono::seconds{let}};
                row->is_explicitly_exported = exported;
                row->title = title;
                row->parent_list_id = parent;
                row->next_list_id = next;
                p.update(*row);
            };
        }
        else if (name == "pl_remove")
            f = [&, id] { p.remove(id); };
        else if (name == "pe_add")
        {
            f = [&, list, track] {
                // (model track ids >= 100: the same track id in another database)
                v2::playlist_entity_row row{v2::PLAYLIST_ENTITY_ROW_ID_NONE, list, track % 100,
                                            track >= 100 ? std::string("11111111-2222-3333-4444-555555555555") : w.lib->information().get().uuid,
                                            v2::PLAYLIST_ENTITY_NO_NEXT_ENTITY_ID, v2::PLAYLIST_ENTITY_DEFAULT_MEMBERSHIP_REFERENCE};
                newid = e.add_back(row, false);
            };
        }
        else if (name == "pe_remove")
            f = [&, list, entity] { e.remove(list, entity); };
        else if (name == "pe_clear")
            f = [&, list] { e.clear(list); };
        else
        {
            vh::emit({{"e", "skip"}, {"why", "unknown op " + name}});
            dead = true;
            continue;
        }
        shim::begin_call();
        auto oc = vh::guarded(name.c_str(), f);
        rec["out"] = oc.ok ? "ok" : "throw";
        rec["ex"] = oc.ex;
        rec["std"] = oc.std_exc;
        rec["new"] = newid;
        auto o2 = vh::guarded("observe", [&] {
            observation_phase(w, rec);
        });
        if (!o2.ok)
        {
            rec["obs_throw"] = o2.ex;
            dead = true;
        }
        vh::emit(rec);
    }
    fclose(out);
    return 0;
}
