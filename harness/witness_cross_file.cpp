// Witness for DESIGN.md 13.17: a 1.x create_track() attempted by a process that dies between the deletion of m.db's journal
// and that of p.db's leaves the track committed in m.db and its performance data rolled back in p.db.
//
//   build + run:  tools/witness.sh witness_cross_file      (uses the harness build of /repo's working tree)
//
// For every n = 1, 2, ... a forked child loads the library and calls create_track() with a snapshot that carries cues, loops,
// a beat grid and a waveform, dying right before the n-th file-modifying system call of SQLite's VFS.  The parent loads the
// library again and reports what it finds.  Exit status 0: no crash point left a track without its performance data
// (cross-file atomic); 3: at least one did (the observation recorded in DESIGN.md); 2: set-up failure.
#include <djinterop/djinterop.hpp>

#include <sys/wait.h>
#include <unistd.h>

#include <cstdio>
#include <filesystem>

#include "locksweep.hpp"

namespace dj = djinterop;
namespace fs = std::filesystem;

int main(int argc, char** argv)
{
    std::string dir = "/dev/shm/verif.witness." + std::to_string(getpid());
    fs::remove_all(dir);
    auto schema = dj::engine::engine_schema::schema_1_18_0_os;
    {
        auto db = dj::engine::create_database(dir, schema);
    }
    dj::track_snapshot s;
    s.relative_path = "music/witness.mp3";
    s.title = "witness";
    s.sample_rate = 44100.0;
    s.sample_count = 44100 * 60;
    s.bpm = 120.0;
    s.hot_cues.resize(8);
    s.hot_cues[0] = dj::hot_cue{"cue", 1000.0, dj::pad_color{1, 2, 3, 255}};
    s.loops.resize(8);
    s.loops[0] = dj::loop{"loop", 1000.0, 2000.0, dj::pad_color{4, 5, 6, 255}};
    s.beatgrid = {{-4, -88200.0}, {812, 17992800.0}};
    int partial = 0, none = 0, complete = 0;
    for (int n = 1; n <= 1000; ++n)
    {
        fs::remove_all(dir + ".bak");
        fs::copy(dir, dir + ".bak", fs::copy_options::recursive);
        fflush(nullptr);
        pid_t pid = fork();
        if (pid == 0)
        {
            auto db = dj::engine::load_database(dir);
            vh::syscrash::arm(n);
            db.create_track(s);
            _exit(43);
        }
        int status = 0;
        waitpid(pid, &status, 0);
        int code = WIFEXITED(status) ? WEXITSTATUS(status) : -1;
        {
            auto db = dj::engine::load_database(dir);
            auto ts = db.tracks();
            if (ts.empty())
                ++none;
            else
            {
                auto t = ts[0];
                bool has_perf = !t.beatgrid().empty() || t.hot_cue_at(0).has_value() || t.loop_at(0).has_value();
                bool verify_ok = true;
                try { db.verify(); } catch (...) { verify_ok = false; }
                if (!has_perf)
                {
                    ++partial;
                    printf("crash point %d (child exit %d): track %lld is listed, title '%s', verify() %s, beat grid markers %zu, cue 0 %s, loop 0 %s\n", n, code,
                           (long long)t.id(), t.title().value_or("").c_str(), verify_ok ? "passes" : "fails", t.beatgrid().size(),
                           t.hot_cue_at(0) ? "present" : "absent", t.loop_at(0) ? "present" : "absent");
                }
                else
                    ++complete;
            }
        }
        fs::remove_all(dir);
        fs::rename(dir + ".bak", dir);
        if (code == 43)
            break;   // the child ran to its end: n exceeds the system calls of the call
    }
    printf("crash points without effect: %d, with the complete effect: %d, with the track but without its performance data: %d\n", none, complete, partial);
    fs::remove_all(dir);
    return partial ? 3 : 0;
}
