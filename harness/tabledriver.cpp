// tabledriver: the schema-2.x table API (track_table, playlist_table, playlist_entity_table) - C18.
// Rows are generated from a (variant, mask) pair so that every column of a row holds a value that no
// other same-typed column holds (a transposition in one of the hand-bound column lists is then visible);
// every optional column is written both present and absent.  After every call each known row is read
// back whole (get) and column by column (per-column getters).
//
//   tabledriver <script.ndjson> <trace.ndjson>
#include <djinterop/djinterop.hpp>
#include <djinterop/engine/v2/engine_library.hpp>

#include <fstream>

#include "common.hpp"
#include "schemas.hpp"
#include "snapjson.hpp"

namespace dj = djinterop;
namespace v2 = djinterop::engine::v2;
using vh::json;
using tp = std::chrono::system_clock::time_point;

namespace
{
// ---- column table of track_row: kind, field ----
#define TRACK_COLUMNS(X)                                                                                              \
    X(OI, play_order) X(I, length) X(OI, bpm) X(OI, year) X(S, path) X(S, filename) X(OI, bitrate) X(OD, bpm_analyzed)   \
    X(I, album_art_id) X(OI, file_bytes) X(OS, title) X(OS, artist) X(OS, album) X(OS, genre) X(OS, comment)          \
    X(OS, label) X(OS, composer) X(OS, remixer) X(OK, key) X(I, rating) X(OS, album_art) X(OT, time_last_played)      \
    X(B, is_played) X(S, file_type) X(B, is_analyzed) X(TT, date_created) X(TT, date_added) X(B, is_available)        \
    X(B, is_metadata_of_packed_track_changed) X(B, is_performance_data_of_packed_track_changed)                       \
    X(OI, played_indicator) X(B, is_metadata_imported) X(I, pdb_import_key) X(OS, streaming_source) X(OS, uri)        \
    X(B, is_beat_grid_locked) X(S, origin_database_uuid) X(I, origin_track_id) X(BL, track_data)                      \
    X(BL, overview_waveform_data) X(BL, beat_data) X(BL, quick_cues) X(BL, loops) X(OI, third_party_source_id)        \
    X(I, streaming_flags) X(B, explicit_lyrics) X(OI, active_on_load_loops) X(T, last_edit_time)

json jI(int64_t v) { return sj::jint(v); }
json jOI(const std::optional<int64_t>& v) { return v ? json::array({sj::jint(*v)}) : json::array(); }
json jOK(const std::optional<int32_t>& v) { return v ? json::array({(int)*v}) : json::array(); }
json jS(const std::string& s) { return sj::tok(s); }
json jOS(const std::optional<std::string>& s) { return s ? json::array({sj::tok(*s)}) : json::array(); }
json jOD(const std::optional<double>& d) { return d ? json::array({sj::dbits(*d)}) : json::array(); }
json jB(bool b) { return b; }
json jT(tp t) { return sj::jtime(t); }
json jTT(tp t) { return sj::jtime(t); }
json jOT(const std::optional<tp>& t) { return t ? json::array({sj::jtime(*t)}) : json::array(); }
template <typename Blob>
json jBL(const Blob& b)
{
    auto bytes = b.to_blob();
    return "#" + std::to_string(bytes.size()) + ":" + sj::hex16(sj::fnv(bytes.data(), bytes.size()));
}

json row_json(const v2::track_row& r)
{
    json j;
    j["id"] = r.id;
#define X(kind, f) j[#f] = j##kind(r.f);
    TRACK_COLUMNS(X)
#undef X
    return j;
}

tp mk_time(int ci, int v, bool frac) { return tp{std::chrono::duration_cast<tp::duration>(std::chrono::milliseconds{(1600000000LL + ci * 1000LL + v) * 1000LL + (frac ? 500 : 0)})}; }

// value generator: variant v, mask m (which optionals are absent), serial s (unique path)
struct gen
{
    int v, m, serial, ci = 0;
    bool absent() const { return m == 1 || (m == 2 && ci % 2 == 0) || (m == 3 && ci % 2 == 1); }
    int64_t I() { return 1000LL * v + ci; }
    void operator()(const char* name, int64_t& x)
    {
        ++ci;
        std::string n = name;
        if (n == "album_art_id")
            x = 1;
        else if (n == "rating")
            x = (v * 7 + ci) % 100 + 1;
        else if (n == "length")
            x = 100 + 10 * v + ci;
        else if (n == "origin_track_id")
            x = v % 3 == 0 ? 0 : I();
        else
            x = I();
    }
    void operator()(const char*, std::optional<int64_t>& x) { ++ci; x = absent() ? std::nullopt : std::make_optional<int64_t>(I()); }
    void operator()(const char*, std::optional<int32_t>& x) { ++ci; x = absent() ? std::nullopt : std::make_optional<int32_t>((v + ci) % 24); }
    void operator()(const char* name, std::string& x)
    {
        ++ci;
        std::string n = name;
        if (n == "path")
            x = "music/c" + std::to_string(ci) + "v" + std::to_string(v) + "_" + std::to_string(serial) + ".mp3";
        else if (n == "origin_database_uuid")
            x = v % 3 == 0 ? std::string() : "uuid-c" + std::to_string(ci) + "v" + std::to_string(v);
        else
            x = std::string(name) + "-c" + std::to_string(ci) + "v" + std::to_string(v);
    }
    void operator()(const char* name, std::optional<std::string>& x)
    {
        ++ci;
        if (absent())
            x = std::nullopt;
        else if (v % 5 == 4 && ci % 4 == 0)
            x = std::string();   // present but empty
        else
            x = std::string(name) + "-c" + std::to_string(ci) + "v" + std::to_string(v);
    }
    void operator()(const char*, std::optional<double>& x) { ++ci; x = absent() ? std::nullopt : std::make_optional(ci + v * 0.5); }
    void operator()(const char*, bool& x) { ++ci; x = (ci + v) % 2 == 0; }
    void operator()(const char*, tp& x) { ++ci; x = mk_time(ci, v, v % 4 == 3); }
    void operator()(const char*, std::optional<tp>& x) { ++ci; x = absent() ? std::nullopt : std::make_optional(mk_time(ci, v, v % 4 == 3)); }
    void operator()(const char*, v2::track_data_blob& b) { ++ci; b = v2::track_data_blob{44100.0 + v, 1000 * v + 7, v % 24, 0.5 + v, 0.25 + v, 0.125 + v}; }
    void operator()(const char*, v2::overview_waveform_data_blob& b)
    {
        ++ci;
        b = v2::overview_waveform_data_blob{};
        for (int i = 0; i < v % 4; ++i)
            b.waveform_points.push_back(v2::overview_waveform_point{(uint8_t)(i + v), (uint8_t)(2 * i + v), (uint8_t)(3 * i + v)});
        b.samples_per_waveform_point = 10.0 * v;
        b.maximum_point = v2::overview_waveform_point{(uint8_t)v, (uint8_t)(v + 1), (uint8_t)(v + 2)};
    }
    void operator()(const char*, v2::beat_data_blob& b)
    {
        ++ci;
        b = v2::beat_data_blob{};
        b.sample_rate = 48000.0 + v;
        b.samples = 2000.0 * v;
        b.is_beatgrid_set = 1;
        for (int i = 0; i < 1 + v % 3; ++i)
            b.default_beat_grid.push_back(v2::beat_grid_marker_blob{100.0 * i + v, 4 * i, 4, 0});
        b.adjusted_beat_grid = b.default_beat_grid;
        b.extra_data = std::vector<std::byte>(9, std::byte{0});
    }
    void operator()(const char*, v2::quick_cues_blob& b)
    {
        ++ci;
        b = v2::quick_cues_blob{};
        for (int i = 0; i < 8; ++i)
            b.quick_cues.push_back(i == v % 8 ? v2::quick_cue_blob{"cue" + std::to_string(v), 123.0 + v, dj::pad_color{1, 2, 3, 255}} : v2::quick_cue_blob::empty());
        b.adjusted_main_cue = 5.0 + v;
        b.is_main_cue_adjusted = true;
        b.default_main_cue = 4.0 + v;
    }
    void operator()(const char*, v2::loops_blob& b)
    {
        ++ci;
        b = v2::loops_blob{};
        for (int i = 0; i < 8; ++i)
            b.loops.push_back(i == v % 8 ? v2::loop_blob{"loop" + std::to_string(v), 10.0 + v, 20.0 + v, 1, 1, dj::pad_color{4, 5, 6, 255}} : v2::loop_blob::empty());
    }
};

v2::track_row make_row(int v, int m, int serial)
{
    v2::track_row r{};
    r.id = 0;
    gen g{v, m, serial};
#define X(kind, f) g(#f, r.f);
    TRACK_COLUMNS(X)
#undef X
    r.last_edit_time = tp{};
    return r;
}

struct world
{
    std::optional<v2::engine_library> lib;
    std::vector<int64_t> ids{0};   // handle -> track row id
    std::vector<int64_t> pls{0};   // handle -> playlist id
    int serial = 0;
    std::string schema_name;
};

template <typename F>
json gv(const char* what, F f)
{
    json v;
    auto oc = vh::guarded(what, [&] { v = f(); });
    if (!oc.ok)
        return {{"throw", oc.ex}, {"std", oc.std_exc}};
    return {{"v", v}};   // always a record, so that TLC can tell a value from a thrown exception by its fields
}

json columns(v2::track_table& t, int64_t id)
{
    json c;
#define X(kind, f) c[#f] = gv(#f, [&]() -> json { return j##kind(t.get_##f(id)); });
#define jTT(x) jOT(x)
    TRACK_COLUMNS(X)
#undef jTT
#undef X
    return c;
}

json observe(world& w)
{
    auto t = w.lib->track();
    json rows = json::array();
    for (size_t h = 1; h < w.ids.size(); ++h)
    {
        int64_t id = w.ids[h];
        json r = {{"id", id}};
        r["exists"] = gv("exists", [&]() -> json { return t.exists(id); });
        r["row"] = gv("get", [&]() -> json {
            auto x = t.get(id);
            return x ? json::array({row_json(*x)}) : json::array();
        });
        r["cols"] = columns(t, id);
        rows.push_back(std::move(r));
    }
    json o = {{"rows", rows}};
    o["all"] = gv("all_ids", [&]() -> json { json a = json::array(); for (auto i : t.all_ids()) a.push_back(i); return a; });
    // playlists (rows as written / read)
    auto p = w.lib->playlist();
    json pl = json::array();
    for (size_t h = 1; h < w.pls.size(); ++h)
    {
        int64_t id = w.pls[h];
        pl.push_back({{"id", id}, {"row", gv("pl_get", [&]() -> json {
                                       auto x = p.get(id);
                                       if (!x)
                                           return json::array();
                                       return json::array({{{"id", x->id}, {"title", sj::tok(x->title)}, {"parent", x->parent_list_id}, {"persisted", x->is_persisted},
                                                            {"next", x->next_list_id}, {"exported", x->is_explicitly_exported}}});
                                   })}});
    }
    o["pl"] = pl;
    return o;
}

void set_column(v2::track_table& t, int64_t id, const std::string& col, const v2::track_row& src)
{
#define X(kind, f)            \
    if (col == #f)            \
    {                         \
        t.set_##f(id, src.f); \
        return;               \
    }
    TRACK_COLUMNS(X)
#undef X
    throw std::runtime_error("unknown column " + col);
}
json column_of(const v2::track_row& r, const std::string& col)
{
    return row_json(r).at(col);
}
}  // namespace

int main(int argc, char** argv)
{
    if (argc < 3)
        return 2;
    std::ifstream in(argv[1]);
    FILE* out = fopen(argv[2], "w");
    if (!in || !out)
        return 2;
    vh::g_trace_fd = fileno(out);
    vh::install_handlers();
    world w;
    bool have = false, dead = false;
    std::string line;
    long exec_no = 0;
    while (std::getline(in, line))
    {
        if (line.empty())
            continue;
        json op = json::parse(line);
        std::string name = op.at("op");
        if (name == "reset")
        {
            ++exec_no;
            w = world{};
            dead = false;
            w.schema_name = op.at("schema");
            json r = {{"e", "reset"}, {"x", exec_no}, {"schema", w.schema_name}, {"sid", op.value("sid", "")}};
            auto oc = vh::guarded("reset", [&] { w.lib = v2::engine_library::create_temporary(vh::schema_by_name(w.schema_name)); });
            r["out"] = oc.ok ? "ok" : "throw";
            have = oc.ok;
            if (have)
            {
                r["uuid"] = sj::tok(w.lib->information().get().uuid);
                r["obs"] = observe(w);
            }
            vh::emit(r);
            continue;
        }
        if (!have || dead)
            continue;
        auto t = w.lib->track();
        json rec = {{"e", "call"}, {"op", name}};
        std::function<void()> f;
        int64_t newid = 0;
        auto handle = [&](const char* k) -> int64_t {
            int64_t h = op.at(k).get<int64_t>();
            if (h <= 0 || (size_t)h >= w.ids.size())
                return -1;
            return w.ids[(size_t)h];
        };
        if (name == "t_add")
        {
            auto row = make_row(op.at("variant"), op.at("mask"), ++w.serial);
            if (op.value("with_id", false))
                row.id = 77;
            rec["in"] = row_json(row);
            f = [&, row] { newid = t.add(row); w.ids.push_back(newid); };
        }
        else if (name == "t_update")
        {
            int64_t id = op.contains("id") ? op.at("id").get<int64_t>() : handle("h");
            auto row = make_row(op.at("variant"), op.at("mask"), ++w.serial);
            row.id = id;
            rec["t"] = id;
            rec["in"] = row_json(row);
            f = [&, row] { t.update(row); };
        }
        else if (name == "t_set")
        {
            int64_t id = op.contains("id") ? op.at("id").get<int64_t>() : handle("h");
            auto row = make_row(op.at("variant"), op.at("mask"), ++w.serial);
            std::string col = op.at("col");
            rec["t"] = id;
            rec["col"] = col;
            rec["in"] = column_of(row, col);
            f = [&, row, col, id] { set_column(t, id, col, row); };
        }
        else if (name == "t_remove")
        {
            int64_t id = op.contains("id") ? op.at("id").get<int64_t>() : handle("h");
            rec["t"] = id;
            f = [&, id] { t.remove(id); };
        }
        else if (name == "t_getcol")
        {
            // a column accessor naming a row that does not exist must report an error
            int64_t id = op.at("id").get<int64_t>();
            rec["t"] = id;
            rec["cols"] = columns(t, id);
            f = [] {};
        }
        else if (name == "pl_add")
        {
            v2::playlist_row row{0, op.at("title").get<std::string>(), op.value("parent", 0) ? w.pls.at(op.at("parent").get<size_t>()) : 0, op.value("persisted", true),
                                 0, tp{std::chrono::seconds{1600000000 + (int)w.pls.size()}}, op.value("exported", true)};
            rec["in"] = {{"title", sj::tok(row.title)}, {"parent", row.parent_list_id}, {"persisted", row.is_persisted}, {"next", 0}, {"exported", row.is_explicitly_exported}};
            f = [&, row] { newid = w.lib->playlist().add(row); w.pls.push_back(newid); };
        }
        else
        {
            vh::emit({{"e", "skip"}, {"why", "unknown op " + name}});
            dead = true;
            continue;
        }
        shim::begin_call();
        auto oc = vh::guarded(name.c_str(), f);
        rec["out"] = oc.ok ? "ok" : "throw";
        rec["ex"] = oc.ex;
        rec["std"] = oc.std_exc;
        rec["new"] = newid;
        json o;
        auto oo = vh::guarded("observe", [&] { o = observe(w); });
        if (!oo.ok)
        {
            rec["obs_throw"] = oo.ex;
            dead = true;
        }
        else
            rec["obs"] = o;
        vh::emit(rec);
    }
    fclose(out);
    return 0;
}
