// tabledriver: the schema-2.x table API (track_table, playlist_table, playlist_entity_table) - C18.
// Rows are generated from a (variant, mask) pair so that every column of a row holds a value that no
// other same-typed column holds (a transposition in one of the hand-bound column lists is then visible);
// every optional column is written both present and absent.  After every call each known row is read
// back whole (get) and column by column (per-column getters).
//
//   tabledriver <script.ndjson> <trace.ndjson>
#include <djinterop/djinterop.hpp>
#include <djinterop/engine/v2/engine_library.hpp>

#include <cstring>
#include <fstream>

#include "common.hpp"
#include "schemas.hpp"
#include "snapjson.hpp"
#include "trackrow.hpp"

namespace dj = djinterop;
namespace v2 = djinterop::engine::v2;
using vh::json;
using tp = std::chrono::system_clock::time_point;

namespace
{
using namespace trow;

struct world
{
    std::optional<v2::engine_library> lib;
    sqlite3* conn = nullptr;
    std::vector<int64_t> ids{0};   // handle -> track row id
    std::vector<int64_t> pls{0};   // handle -> playlist id
    int serial = 0;
    std::string schema_name;
};

template <typename F>
json gv(const char* what, F f)
{
    json v;
    auto oc = vh::guarded(what, [&] { v = f(); });
    if (!oc.ok)
        return {{"throw", oc.ex}, {"std", oc.std_exc}};
    return {{"v", v}};   // always a record, so that TLC can tell a value from a thrown exception by its fields
}

json columns(v2::track_table& t, int64_t id)
{
    json c;
#define X(kind, f) c[#f] = gv(#f, [&]() -> json { return j##kind(t.get_##f(id)); });
#define jTT(x) jOT(x)
    TRACK_COLUMNS(X)
#undef jTT
#undef X
    return c;
}

json observe(world& w)
{
    auto t = w.lib->track();
    json rows = json::array();
    for (size_t h = 1; h < w.ids.size(); ++h)
    {
        int64_t id = w.ids[h];
        json r = {{"id", id}};
        r["exists"] = gv("exists", [&]() -> json { return t.exists(id); });
        r["row"] = gv("get", [&]() -> json {
            auto x = t.get(id);
            return x ? json::array({row_json(*x)}) : json::array();
        });
        r["cols"] = columns(t, id);
        rows.push_back(std::move(r));
    }
    json o = {{"rows", rows}};
    o["all"] = gv("all_ids", [&]() -> json { json a = json::array(); for (auto i : t.all_ids()) a.push_back(i); return a; });
    // playlists (rows as written / read)
    auto p = w.lib->playlist();
    json pl = json::array();
    for (size_t h = 1; h < w.pls.size(); ++h)
    {
        int64_t id = w.pls[h];
        pl.push_back({{"id", id}, {"row", gv("pl_get", [&]() -> json {
                                       auto x = p.get(id);
                                       if (!x)
                                           return json::array();
                                       return json::array({{{"id", x->id}, {"title", sj::tok(x->title)}, {"parent", x->parent_list_id}, {"persisted", x->is_persisted},
                                                            {"next", x->next_list_id}, {"exported", x->is_explicitly_exported}}});
                                   })}});
    }
    o["pl"] = pl;
    // the same rows through the high-level API: tracks(), and snapshot() + is_valid() of every track handle - on rows only
    // the table API can write (NULLs and value classes create_track() never stores).  Values are not judged here (the
    // mapping is TrackFields' matter), only: completes or throws a std::exception, writes nothing, answers twice alike.
    {
        auto db = w.lib->database();
        json hl;
        hl["ids"] = gv("tracks", [&]() -> json { json a = json::array(); for (auto& x : db.tracks()) a.push_back(x.id()); return a; });
        json tk = json::array();
        auto oc = vh::guarded("tracks", [&] {
            for (auto& x : db.tracks())
            {
                json e = {{"id", x.id()}};
                e["snap"] = gv("snapshot", [&]() -> json {
                    auto sn = sj::to_json(x.snapshot()).dump(-1, ' ', false, json::error_handler_t::replace);
                    return sj::hex16(sj::fnv(sn.data(), sn.size())) + (x.is_valid() ? "v" : "i");
                });
                tk.push_back(std::move(e));
            }
        });
        hl["tk"] = tk;
        o["hl"] = hl;
    }
    return o;
}

// observation with the C16 bookkeeping: write statements issued by the read functions, rows changed, digest of all
// tables before / after, a second identical observation
json observation_phase(world& w, json& rec)
{
    vh::raw_reader rr{w.conn};
    std::string d0 = rr.digest();
    int chg0 = sqlite3_total_changes(w.conn);
    shim::begin_call();
    json o = observe(w);
    json o2 = observe(w);
    rec["o16"] = {{"w", shim::n_writes()}, {"chg", sqlite3_total_changes(w.conn) - chg0}, {"rep", o == o2}, {"same", rr.digest() == d0}};
    return o;
}

void set_column(v2::track_table& t, int64_t id, const std::string& col, const v2::track_row& src)
{
#define X(kind, f)            \
    if (col == #f)            \
    {                         \
        t.set_##f(id, src.f); \
        return;               \
    }
    TRACK_COLUMNS(X)
#undef X
    throw std::runtime_error("unknown column " + col);
}
json column_of(const v2::track_row& r, const std::string& col)
{
    return row_json(r).at(col);
}
}  // namespace

int main(int argc, char** argv)
{
    if (argc < 3)
        return 2;
    long skip = 0;
    for (int i = 3; i + 1 < argc; i += 2)
    {
        if (!strcmp(argv[i], "--skip"))
            skip = atol(argv[i + 1]);
        else if (!strcmp(argv[i], "--watchdog"))
            vh::g_watchdog_s = atoi(argv[i + 1]);
    }
    std::ifstream in(argv[1]);
    FILE* out = fopen(argv[2], skip ? "a" : "w");
    if (!in || !out)
        return 2;
    vh::g_trace_fd = fileno(out);
    vh::install_handlers();
    world w;
    bool have = false, dead = false;
    std::string line;
    long exec_no = 0;
    while (std::getline(in, line))
    {
        if (line.empty())
            continue;
        json op = json::parse(line);
        std::string name = op.at("op");
        if (name == "reset")
        {
            ++exec_no;
            w = world{};
            dead = false;
            have = false;
            if (exec_no <= skip)
                continue;
            w.schema_name = op.at("schema");
            json r = {{"e", "reset"}, {"x", exec_no}, {"schema", w.schema_name}, {"sid", op.value("sid", "")}};
            shim::reset_dbs();
            auto oc = vh::guarded("reset", [&] {
                w.lib = v2::engine_library::create_temporary(vh::schema_by_name(w.schema_name));
                w.conn = shim::last_db();
            });
            r["out"] = oc.ok ? "ok" : "throw";
            have = oc.ok;
            if (have)
            {
                r["uuid"] = sj::tok(w.lib->information().get().uuid);
                r["obs"] = observation_phase(w, r);
            }
            vh::emit(r);
            continue;
        }
        if (!have || dead)
            continue;
        auto t = w.lib->track();
        json rec = {{"e", "call"}, {"op", name}};
        std::function<void()> f;
        int64_t newid = 0;
        auto handle = [&](const char* k) -> int64_t {
            int64_t h = op.at(k).get<int64_t>();
            if (h <= 0 || (size_t)h >= w.ids.size())
                return -1;
            return w.ids[(size_t)h];
        };
        if (name == "t_add")
        {
            auto row = make_row(op.at("variant"), op.at("mask"), ++w.serial);
            if (op.value("with_id", false))
                row.id = 77;
            rec["in"] = row_json(row);
            f = [&, row] { newid = t.add(row); w.ids.push_back(newid); };
        }
        else if (name == "t_update")
        {
            int64_t id = op.contains("id") ? op.at("id").get<int64_t>() : handle("h");
            auto row = make_row(op.at("variant"), op.at("mask"), ++w.serial);
            row.id = id;
            rec["t"] = id;
            rec["in"] = row_json(row);
            f = [&, row] { t.update(row); };
        }
        else if (name == "t_set")
        {
            int64_t id = op.contains("id") ? op.at("id").get<int64_t>() : handle("h");
            auto row = make_row(op.at("variant"), op.at("mask"), ++w.serial);
            std::string col = op.at("col");
            rec["t"] = id;
            rec["col"] = col;
            rec["in"] = column_of(row, col);
            f = [&, row, col, id] { set_column(t, id, col, row); };
        }
        else if (name == "t_remove")
        {
            int64_t id = op.contains("id") ? op.at("id").get<int64_t>() : handle("h");
            rec["t"] = id;
            f = [&, id] { t.remove(id); };
        }
        else if (name == "t_getcol")
        {
            // a column accessor naming a row that does not exist must report an error
            int64_t id = op.at("id").get<int64_t>();
            rec["t"] = id;
            rec["cols"] = columns(t, id);
            f = [] {};
        }
        else if (name == "pl_add")
        {
            v2::playlist_row row{0, op.at("title").get<std::string>(), op.value("parent", 0) ? w.pls.at(op.at("parent").get<size_t>()) : 0, op.value("persisted", true),
                                 0, tp{std::chrono::seconds{1600000000 + (int)w.pls.size()}}, op.value("exported", true)};
            rec["in"] = {{"title", sj::tok(row.title)}, {"parent", row.parent_list_id}, {"persisted", row.is_persisted}, {"next", 0}, {"exported", row.is_explicitly_exported}};
            f = [&, row] { newid = w.lib->playlist().add(row); w.pls.push_back(newid); };
        }
        else
        {
            vh::emit({{"e", "skip"}, {"why", "unknown op " + name}});
            dead = true;
            continue;
        }
        shim::begin_call();
        auto oc = vh::guarded(name.c_str(), f);
        rec["out"] = oc.ok ? "ok" : "throw";
        rec["ex"] = oc.ex;
        rec["std"] = oc.std_exc;
        rec["new"] = newid;
        json o;
        auto oo = vh::guarded("observe", [&] { o = observation_phase(w, rec); });
        if (!oo.ok)
        {
            rec["obs_throw"] = oo.ex;
            dead = true;
        }
        else
            rec["obs"] = o;
        vh::emit(rec);
    }
    fclose(out);
    return 0;
}
