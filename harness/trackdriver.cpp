// trackdriver: track-level histories (create_track / update / the 25 field setters / remove) with the
// complete observation of every track after every call: snapshot(), every getter, derived file name and
// extension.  Used by the C01, C06, C10, C14, C15, C16 checks.  See snapjson.hpp for the value rendering.
//
//   trackdriver <script.ndjson> <trace.ndjson> [--skip N] [--watchdog S]
#include <djinterop/djinterop.hpp>

#include <zlib.h>

#include <cctype>
#include <cstring>
#include <filesystem>
#include <fstream>
#include <map>
#include <optional>

#include "common.hpp"
#include "locksweep.hpp"
#include "schemas.hpp"
#include "snapjson.hpp"

namespace dj = djinterop;
namespace fs = std::filesystem;
using vh::json;

namespace
{
struct world
{
    std::string schema_name;
    dj::engine::engine_schema schema{};
    bool v2 = false;
    std::string mode = "mem", dir;
    std::optional<dj::database> db;
    std::vector<std::optional<dj::track>> th{std::nullopt};
    sqlite3* conn = nullptr;
    bool raw = false, rep = false, sweep = false, stale_get = false, dead = false, want_stmts = false, blobs = false, locks = false;
    std::map<std::string, uint64_t> blob_seen;   // (track id, column) -> hash of the stored bytes last logged (C11: stored blobs)
};
std::string g_tmp_root;
int g_dir_counter = 0;

template <typename F>
json guarded_value(const char* what, F f)
{
    json v;
    auto oc = vh::guarded(what, [&] { v = f(); });
    if (!oc.ok)
        return {{"throw", oc.ex}, {"std", oc.std_exc}};
    return {{"v", v}};   // always a record, so that TLC can tell a value from a thrown exception by its fields
}

json getters(dj::track& t)
{
    json g;
    auto st = [](const std::string& x) { return json(sj::tok(x)); };
    auto db = [](double x) { return json(sj::dbits(x)); };
    auto in = [](int x) { return json(x); };
#define G(name, expr) g[name] = guarded_value(name, [&]() -> json { return expr; })
    G("album", sj::jopt(t.album(), st));
    G("artist", sj::jopt(t.artist(), st));
    G("comment", sj::jopt(t.comment(), st));
    G("composer", sj::jopt(t.composer(), st));
    G("genre", sj::jopt(t.genre(), st));
    G("title", sj::jopt(t.title(), st));
    G("publisher", sj::jopt(t.publisher(), st));
    G("relative_path", json::array({sj::tok(t.relative_path())}));
    G("average_loudness", sj::jopt(t.average_loudness(), db));
    G("bpm", sj::jopt(t.bpm(), db));
    G("main_cue", sj::jopt(t.main_cue(), db));
    G("sample_rate", sj::jopt(t.sample_rate(), db));
    G("bitrate", sj::jopt(t.bitrate(), in));
    G("track_number", sj::jopt(t.track_number(), in));
    G("year", sj::jopt(t.year(), in));
    G("rating", sj::jopt(t.rating(), in));
    G("key", [&] { auto k = t.key(); return k ? json::array({(int)*k}) : json::array(); }());
    G("duration", [&] { auto d = t.duration(); return d ? json::array({sj::jint(d->count())}) : json::array(); }());
    G("sample_count", [&] { auto c = t.sample_count(); return c ? json::array({std::to_string(*c)}) : json::array(); }());
    G("last_played_at", [&] { auto l = t.last_played_at(); return l ? json::array({sj::jtime(*l)}) : json::array(); }());
    G("beatgrid", sj::jgrid(t.beatgrid()));
    G("hot_cues", [&] { json a = json::array(); for (auto& c : t.hot_cues()) a.push_back(c ? json::array({sj::jcue(*c)}) : json::array()); return a; }());
    G("loops", [&] { json a = json::array(); for (auto& c : t.loops()) a.push_back(c ? json::array({sj::jloop(*c)}) : json::array()); return a; }());
    G("waveform", sj::jwave(t.waveform()));
    G("cue_at", [&] { json a = json::array(); for (int i = 0; i < 8; ++i) { auto c = t.hot_cue_at(i); a.push_back(c ? json::array({sj::jcue(*c)}) : json::array()); } return a; }());
    G("loop_at", [&] { json a = json::array(); for (int i = 0; i < 8; ++i) { auto c = t.loop_at(i); a.push_back(c ? json::array({sj::jloop(*c)}) : json::array()); } return a; }());
    G("fn", json(sj::tok(t.filename())));
    G("ext", json(sj::tok(t.file_extension())));
#undef G
    return g;
}

// ---- the five performance-data columns of the 2.x Track table, read and written behind the library's back
// (setter part of C04): payloads are logged un-framed (plain zlib), so that TLC can compare them byte for byte
// with the specification's encoder.
const char* const k_blob_cols[] = {"trackData", "beatData", "quickCues", "loops", "overviewWaveFormData"};
bool col_compressed(const std::string& c) { return c != "loops"; }

json payload_of(const unsigned char* p, int n, bool compressed)
{
    json bytes = json::array();
    if (!p)
        return {{"ok", false}, {"p", bytes}};
    std::vector<unsigned char> out;
    if (compressed)
    {
        if (n < 4)
            return {{"ok", false}, {"p", bytes}};
        uLongf len = ((uLongf)p[0] << 24) | ((uLongf)p[1] << 16) | ((uLongf)p[2] << 8) | (uLongf)p[3];
        if (len > (1u << 26))
            return {{"ok", false}, {"p", bytes}};
        out.resize(len ? len : 1);
        uLongf got = len;
        if (n > 4 && uncompress(out.data(), &got, p + 4, (uLong)(n - 4)) != Z_OK)
            return {{"ok", false}, {"p", bytes}};
        if (n == 4)
            got = 0;
        out.resize(got);
        if (got != len)
            return {{"ok", false}, {"p", bytes}};
    }
    else
        out.assign(p, p + n);
    for (auto b : out)
        bytes.push_back((int)b);
    return {{"ok", true}, {"p", bytes}};
}

json blob_columns(world& w)
{
    json all = json::array();
    vh::raw_reader rr{w.conn};
    rr.query("SELECT id, trackData, beatData, quickCues, loops, overviewWaveFormData FROM Track ORDER BY id", [&](sqlite3_stmt* st) {
        json cols;
        for (int c = 0; c < 5; ++c)
            cols[k_blob_cols[c]] = payload_of((const unsigned char*)sqlite3_column_blob(st, c + 1), sqlite3_column_bytes(st, c + 1),
                                              col_compressed(k_blob_cols[c]));
        all.push_back({{"id", (int64_t)sqlite3_column_int64(st, 0)}, {"cols", cols}});
    });
    return all;
}

// UPDATE Track SET <col> = <framed payload> through the plain SQLite API (no library code involved)
bool write_foreign(world& w, int64_t id, const std::string& col, const json& payload)
{
    std::vector<unsigned char> raw;
    for (auto& b : payload)
        raw.push_back((unsigned char)b.get<int>());
    std::vector<unsigned char> framed;
    if (col_compressed(col))
    {
        uLongf bound = compressBound((uLong)raw.size());
        framed.resize(4 + bound);
        framed[0] = (unsigned char)(raw.size() >> 24);
        framed[1] = (unsigned char)(raw.size() >> 16);
        framed[2] = (unsigned char)(raw.size() >> 8);
        framed[3] = (unsigned char)raw.size();
        static const unsigned char none = 0;
        if (compress2(framed.data() + 4, &bound, raw.empty() ? &none : raw.data(), (uLong)raw.size(), 6) != Z_OK)
            return false;
        framed.resize(4 + bound);
    }
    else
        framed = raw;
    bool known = false;
    for (auto c : k_blob_cols)
        known = known || col == c;
    if (!known)
        return false;
    sqlite3_stmt* st = nullptr;
    std::string sql = "UPDATE Track SET " + col + " = ?1 WHERE id = ?2";
    if (__real_sqlite3_prepare_v2(w.conn, sql.c_str(), -1, &st, nullptr) != SQLITE_OK || !st)
        return false;
    static const unsigned char none = 0;
    sqlite3_bind_blob(st, 1, framed.empty() ? &none : framed.data(), (int)framed.size(), SQLITE_TRANSIENT);
    sqlite3_bind_int64(st, 2, id);
    int rc = __real_sqlite3_step(st);
    sqlite3_finalize(st);
    return rc == SQLITE_DONE;
}

json be8(double x)
{
    uint64_t u;
    std::memcpy(&u, &x, 8);
    json a = json::array();
    for (int i = 7; i >= 0; --i)
        a.push_back((int)((u >> (8 * i)) & 0xff));
    return a;
}
json bytes_of(const std::string& s)
{
    json a = json::array();
    for (unsigned char c : s)
        a.push_back((int)c);
    return a;
}
json cue_bytes(const std::optional<dj::hot_cue>& c)
{
    if (!c)
        return json::array();
    return json::array({{{"label", bytes_of(c->label)}, {"off", be8(c->sample_offset)}, {"a", c->color.a}, {"r", c->color.r},
                          {"g", c->color.g}, {"b", c->color.b}}});
}
json loop_bytes(const std::optional<dj::loop>& c)
{
    if (!c)
        return json::array();
    return json::array({{{"label", bytes_of(c->label)}, {"start", be8(c->start_sample_offset)}, {"end", be8(c->end_sample_offset)},
                          {"a", c->color.a}, {"r", c->color.r}, {"g", c->color.g}, {"b", c->color.b}}});
}

// C11, "every stored performance blob decodes" as an independent reader judges it: every performance-data column of every track,
// un-framed with plain zlib (4-byte big-endian length prefix = length of the inflated payload, stream complete), handed to TLC
// for the structural grammar of its layout (spec/BlobWF.tla).  A column is logged when its bytes differ from what was logged last
// (every stored version of every blob is judged once).  Payloads above 4 KiB (waveforms, long grids) are logged as their first 64
// bytes, their length and - beat data - the eight bytes of the second grid's count.
json stored_blobs(world& w)
{
    struct colspec
    {
        const char* col;
        const char* kind;
        bool compressed;
    };
    static const colspec v2cols[] = {{"trackData", "track_data2", true}, {"beatData", "beat_data2", true}, {"quickCues", "quick_cues2", true},
                                     {"loops", "loops2", false}, {"overviewWaveFormData", "overview2", true}};
    static const colspec v1cols[] = {{"trackData", "track_data1", true}, {"highResolutionWaveFormData", "hires1", true},
                                     {"overviewWaveFormData", "overview1", true}, {"beatData", "beat_data1", true},
                                     {"quickCues", "quick_cues1", true}, {"loops", "loops1", false}};
    const colspec* cols = w.v2 ? v2cols : v1cols;
    size_t ncols = w.v2 ? 5 : 6;
    std::string sql = "SELECT id";
    for (size_t c = 0; c < ncols; ++c)
        sql += std::string(", ") + cols[c].col;
    sql += w.v2 ? " FROM Track ORDER BY id" : " FROM PerformanceData ORDER BY id";
    json out = json::array();
    vh::raw_reader rr{w.conn};
    rr.query(sql, [&](sqlite3_stmt* st) {
        int64_t id = sqlite3_column_int64(st, 0);
        for (size_t c = 0; c < ncols; ++c)
        {
            const unsigned char* p = (const unsigned char*)sqlite3_column_blob(st, (int)c + 1);
            int n = sqlite3_column_bytes(st, (int)c + 1);
            uint64_t h = 1469598103934665603ULL;
            vh::raw_reader::fnv(h, (const char*)&n, sizeof n);
            if (p && n > 0)
                vh::raw_reader::fnv(h, (const char*)p, (size_t)n);
            std::string key = std::to_string(id) + "/" + cols[c].col;
            auto it = w.blob_seen.find(key);
            if (it != w.blob_seen.end() && it->second == h)
                continue;
            w.blob_seen[key] = h;
            json e = {{"id", id}, {"col", cols[c].col}, {"kind", cols[c].kind}};
            if (!p || n == 0)
            {
                e["st"] = "absent";   // NULL or zero-length: no blob stored
                out.push_back(std::move(e));
                continue;
            }
            json pl = payload_of(p, n, cols[c].compressed);
            if (!pl.at("ok").get<bool>())
            {
                e["st"] = "bad-frame";
                out.push_back(std::move(e));
                continue;
            }
            auto& bytes = pl.at("p");
            size_t len = bytes.size();
            e["st"] = "ok";
            e["n"] = (int64_t)len;
            json c2 = json::array();
            if ((std::string(cols[c].kind) == "beat_data1" || std::string(cols[c].kind) == "beat_data2") && len >= 33)
            {
                // position of the second grid's count: 26 + 24 * (first count), when that count is sane
                uint64_t n1 = 0;
                for (int k = 0; k < 8; ++k)
                    n1 = (n1 << 8) | (uint64_t)bytes[17 + k].get<int>();
                if (n1 <= (len - 33) / 24)
                    for (int k = 0; k < 8; ++k)
                        c2.push_back(bytes[25 + 24 * n1 + k]);
            }
            while (c2.size() < 8)
                c2.push_back(255);   // (no second count where the first one does not fit: reads as "too large")
            e["c2"] = c2;
            if (len > 4096)
            {
                json head = json::array();
                for (size_t k = 0; k < 64; ++k)
                    head.push_back(bytes[k]);
                e["p"] = head;
            }
            else
            {
                // (padding: the grammar may look one label-length byte beyond a truncated payload before it rejects it)
                json padded = bytes;
                for (int k = 0; k < 40; ++k)
                    padded.push_back(0);
                e["p"] = padded;
            }
            out.push_back(std::move(e));
        }
    });
    return out;
}

// C11 at track level: the derived columns of every stored track row as an independent reader finds them (file name,
// extension / file type, origin ids), plus SQLite's own checks and verify().  Strings as the same tokens the getters use.
json raw_tracks(world& w)
{
    vh::raw_reader rr{w.conn};
    json rows = json::array();
    auto txt = [](sqlite3_stmt* st, int c) {
        const unsigned char* p = sqlite3_column_text(st, c);
        return p ? sj::tok(std::string((const char*)p, (size_t)sqlite3_column_bytes(st, c))) : std::string("<NULL>");
    };
    if (w.v2)
    {
        std::string uuid = rr.text("SELECT uuid FROM Information");
        rr.query("SELECT id, path, filename, fileType, originDatabaseUuid, originTrackId FROM Track ORDER BY id", [&](sqlite3_stmt* st) {
            const unsigned char* ou = sqlite3_column_text(st, 4);
            rows.push_back({{"id", (int64_t)sqlite3_column_int64(st, 0)}, {"path", txt(st, 1)}, {"fn", txt(st, 2)}, {"ext", txt(st, 3)},
                            {"ouuid", ou && uuid == (const char*)ou}, {"oid", (int64_t)sqlite3_column_int64(st, 5)}});
        });
    }
    else
    {
        std::map<int64_t, std::string> ext;
        rr.query("SELECT id, text FROM MetaData WHERE type = 13", [&](sqlite3_stmt* st) { ext[sqlite3_column_int64(st, 0)] = txt(st, 1); });
        rr.query("SELECT id, path, filename FROM Track WHERE path IS NOT NULL ORDER BY id", [&](sqlite3_stmt* st) {
            int64_t id = sqlite3_column_int64(st, 0);
            rows.push_back({{"id", id}, {"path", txt(st, 1)}, {"fn", txt(st, 2)}, {"ext", ext.count(id) ? ext[id] : std::string("<none>")},
                            {"ouuid", true}, {"oid", id}});
        });
    }
    json out = {{"rows", rows}};
    // rows that name no stored track (1.x: the per-track tables of both database files; 2.x: playlist entities of this database)
    if (w.v2)
        out["orph"] = (int64_t)atoll(rr.text("SELECT COUNT(*) FROM PlaylistEntity WHERE databaseUuid = (SELECT uuid FROM Information) AND "
                                             "trackId NOT IN (SELECT id FROM Track)").c_str());
    else
        out["orph"] = (int64_t)atoll(rr.text("SELECT (SELECT COUNT(*) FROM MetaData WHERE id NOT IN (SELECT id FROM Track)) + "
                                             "(SELECT COUNT(*) FROM MetaDataInteger WHERE id NOT IN (SELECT id FROM Track)) + "
                                             "(SELECT COUNT(*) FROM PerformanceData WHERE id NOT IN (SELECT id FROM Track))").c_str());
    out["sb"] = stored_blobs(w);
    out["integrity"] = rr.text("PRAGMA integrity_check");
    int nfk = 0;
    json fkl = json::array();
    for (auto& v : rr.fk_violations())
    {
        ++nfk;
        fkl.push_back(v);
    }
    out["fk"] = nfk;
    out["fkl"] = fkl;
    auto ov = vh::guarded("verify", [&] { w.db->verify(); });
    out["verify"] = ov.ok ? "ok" : ov.ex;
    return out;
}

json observe(world& w)
{
    json o;
    json tk = json::array(), stale = json::array();
    for (size_t i = 1; i < w.th.size(); ++i)
    {
        if (!w.th[i])
            continue;
        auto& t = *w.th[i];
        bool valid = t.is_valid();
        if (valid)
        {
            json r;
            r["id"] = t.id();
            r["v"] = true;
            r["snap"] = guarded_value("snapshot", [&] { return sj::to_json(t.snapshot()); });
            r["get"] = getters(t);
            tk.push_back(std::move(r));
        }
        else
        {
            json r = {{"id", t.id()}, {"v", false}};
            if (w.stale_get)
            {
                // observing through a handle to a removed track: may throw, must not write (C16) nor crash (C15)
                r["snap"] = guarded_value("snapshot(stale)", [&] { return sj::to_json(t.snapshot()); });
                r["get"] = getters(t);
            }
            stale.push_back(std::move(r));
        }
    }
    o["tk"] = tk;
    o["stale"] = stale;
    json ids = json::array();
    for (auto& t : w.db->tracks())
        ids.push_back(t.id());
    o["tracks"] = ids;
    // lookups by path: the stored spelling and near misses of it (other separator, other case, padding) - observers whose
    // ARGUMENT does not match exactly are observers too (C16); only the exact spelling has a prescribed answer
    json lk = json::array();
    for (size_t i = 1; i < w.th.size(); ++i)
    {
        if (!w.th[i] || !w.th[i]->is_valid())
            continue;
        std::string p;
        try
        {
            p = w.th[i]->relative_path();
        }
        catch (const std::exception&)
        {
            continue;
        }
        auto swapped = [&](char from, char to) {
            std::string q = p;
            for (auto& ch : q)
                if (ch == from)
                    ch = to;
            return q;
        };
        std::string up = p, lo = p;
        for (auto& ch : up)
            ch = (char)std::toupper((unsigned char)ch);
        for (auto& ch : lo)
            ch = (char)std::tolower((unsigned char)ch);
        std::vector<std::pair<std::string, std::string>> variants = {{"exact", p}, {"bs2s", swapped('\\', '/')}, {"s2bs", swapped('/', '\\')},
                                                                     {"upper", up}, {"lower", lo}, {"pad", p + " "}, {"dot", "./" + p}, {"empty", ""}};
        for (auto& [kind, q] : variants)
        {
            if (kind != "exact" && kind != "empty" && q == p)
                continue;
            json e = {{"id", w.th[i]->id()}, {"k", kind}};
            auto ov = vh::guarded("tracks_by_relative_path", [&] {
                json r = json::array();
                for (auto& t : w.db->tracks_by_relative_path(q))
                    r.push_back(t.id());
                e["r"] = r;
            });
            e["out"] = ov.ok ? "ok" : "throw";
            e["std"] = ov.ok || ov.std_exc;
            lk.push_back(std::move(e));
        }
    }
    o["lk"] = lk;
    if (w.blobs)
        o["bl"] = blob_columns(w);
    if (w.raw)
        o["rawt"] = raw_tracks(w);
    return o;
}

void observation_phase(world& w, json& rec)
{
    vh::raw_reader rr{w.conn};
    std::string d0;
    if (w.rep)
        d0 = rr.digest();
    int chg0 = sqlite3_total_changes(w.conn);
    shim::begin_call();
    json o;
    auto oc = vh::guarded("observe", [&] { o = observe(w); });
    if (!oc.ok)
    {
        rec["obs_throw"] = {{"ex", oc.ex}, {"std", oc.std_exc}};
        w.dead = true;
        return;
    }
    json o16 = {{"w", shim::n_writes()}, {"chg", sqlite3_total_changes(w.conn) - chg0}};
    if (w.rep)
    {
        json o2;
        auto oc2 = vh::guarded("observe2", [&] { o2 = observe(w); });
        o16["rep"] = oc2.ok && o2 == o;
        o16["w"] = shim::n_writes();
        o16["chg"] = sqlite3_total_changes(w.conn) - chg0;
        o16["same"] = rr.digest() == d0;
    }
    rec["obs"] = std::move(o);
    rec["o16"] = std::move(o16);
}

void start_world(world& w, const json& r)
{
    w = world{};
    w.schema_name = r.at("schema").get<std::string>();
    w.schema = vh::schema_by_name(w.schema_name);
    w.v2 = vh::is_v2(w.schema);
    w.mode = r.value("mode", "mem");
    w.rep = r.value("rep", false);
    w.sweep = r.value("sweep", false);
    w.raw = r.value("raw", false);
    w.locks = r.value("locks", false) && r.value("mode", "mem") == "disk";
    w.stale_get = r.value("stale_get", false);
    w.want_stmts = r.value("stmts", false);
    w.blobs = r.value("blobs", false) && w.v2;
    shim::reset_dbs();
    if (w.mode == "disk")
    {
        w.dir = g_tmp_root + "/lib" + std::to_string(++g_dir_counter);
        fs::remove_all(w.dir);
        w.db = dj::engine::create_database(w.dir, w.schema);
    }
    else
        w.db = dj::engine::create_temporary_database(w.schema);
    w.conn = shim::last_db();
}
void end_world(world& w)
{
    w.th.clear();
    w.db.reset();
    if (!w.dir.empty())
    {
        std::error_code ec;
        fs::remove_all(w.dir, ec);
    }
}

struct missing_handle
{
};
dj::track& T(world& w, const json& op)
{
    int64_t i = op.at("t").get<int64_t>();
    if (i <= 0 || (size_t)i >= w.th.size() || !w.th[(size_t)i])
        throw missing_handle{};
    return *w.th[(size_t)i];
}

// decomposition of a relative path the driver itself passes in (inputs only): base name and extension
json pathinfo(const std::optional<std::string>& p)
{
    if (!p)
        return {{"base", "="}, {"ext", "="}, {"has_ext", false}};
    auto slash = p->rfind('/');   // (the separator of Engine paths; a backslash is an ordinary character of a name)
    std::string base = slash == std::string::npos ? *p : p->substr(slash + 1);
    auto dot = base.rfind('.');
    bool has = dot != std::string::npos && dot + 1 < base.size();
    return {{"base", sj::tok(base)}, {"ext", sj::tok(has ? base.substr(dot + 1) : std::string())}, {"has_ext", has}};
}

// canonical rendering of one field of a snapshot description
json canon_field(const std::string& f, const json& v)
{
    json j = json::object();
    j[f] = v;
    auto s = sj::from_json(j);
    return sj::to_json(s).at(f);
}

// byte-level rendering of a setter argument (what the blob must hold afterwards), for the blob-level trace spec
json arg_bytes(const std::string& f, const dj::track_snapshot& s)
{
    auto optd = [](const std::optional<double>& x) { return x ? json::array({be8(*x)}) : json::array(); };
    if (f == "main_cue")
        return {{"d", optd(s.main_cue)}};
    if (f == "average_loudness")
        return {{"d", optd(s.average_loudness)}};
    if (f == "sample_rate")
        return {{"d", optd(s.sample_rate)}};
    if (f == "hot_cues")
    {
        json a = json::array();
        for (auto& c : s.hot_cues)
            a.push_back(cue_bytes(c));
        return {{"cs", a}};
    }
    if (f == "loops")
    {
        json a = json::array();
        for (auto& c : s.loops)
            a.push_back(loop_bytes(c));
        return {{"cs", a}};
    }
    return json::object();
}

std::function<void()> make_setter(dj::track& t, const std::string& f, const json& v, json& in, json& inb)
{
    json j = json::object();
    if (f != "hot_cue_at" && f != "loop_at")
    {
        j[f] = v;
        in = canon_field(f, v);
    }
    auto s = std::make_shared<dj::track_snapshot>(sj::from_json(j));
    inb = arg_bytes(f, *s);
#define S(name, call) if (f == name) return [&t, s] { call; }
    S("album", t.set_album(s->album));
    S("artist", t.set_artist(s->artist));
    S("comment", t.set_comment(s->comment));
    S("composer", t.set_composer(s->composer));
    S("genre", t.set_genre(s->genre));
    S("title", t.set_title(s->title));
    S("publisher", t.set_publisher(s->publisher));
    S("relative_path", t.set_relative_path(s->relative_path.value_or("")));
    S("average_loudness", t.set_average_loudness(s->average_loudness));
    S("bpm", t.set_bpm(s->bpm));
    S("main_cue", t.set_main_cue(s->main_cue));
    S("sample_rate", t.set_sample_rate(s->sample_rate));
    S("bitrate", t.set_bitrate(s->bitrate));
    S("track_number", t.set_track_number(s->track_number));
    S("year", t.set_year(s->year));
    S("rating", t.set_rating(s->rating));
    S("key", t.set_key(s->key));
    S("duration", t.set_duration(s->duration));
    S("sample_count", t.set_sample_count(s->sample_count));
    S("last_played_at", t.set_last_played_at(s->last_played_at));
    S("beatgrid", t.set_beatgrid(s->beatgrid));
    S("hot_cues", t.set_hot_cues(s->hot_cues));
    S("loops", t.set_loops(s->loops));
    S("waveform", t.set_waveform(s->waveform));
#undef S
    if (f == "hot_cue_at")
    {
        int i = v.at("i").get<int>();
        std::optional<dj::hot_cue> c = v.at("v").empty() ? std::nullopt : std::make_optional(sj::cue_of(v.at("v").at(0)));
        in = {{"i", i}, {"v", c ? json::array({sj::jcue(*c)}) : json::array()}};
        inb = {{"i", i}, {"c", cue_bytes(c)}};
        return [&t, i, c] { t.set_hot_cue_at(i, c); };
    }
    if (f == "loop_at")
    {
        int i = v.at("i").get<int>();
        std::optional<dj::loop> c = v.at("v").empty() ? std::nullopt : std::make_optional(sj::loop_of(v.at("v").at(0)));
        in = {{"i", i}, {"v", c ? json::array({sj::jloop(*c)}) : json::array()}};
        inb = {{"i", i}, {"c", loop_bytes(c)}};
        return [&t, i, c] { t.set_loop_at(i, c); };
    }
    throw std::runtime_error("unknown field " + f);
}

void do_reopen(world& w, json& rec)
{
    // (C16: releasing the last handle and loading again must leave every table of every attached database as it was)
    std::string d0 = vh::raw_reader{w.conn}.digest();
    std::vector<int64_t> ids(w.th.size(), 0);
    for (size_t i = 1; i < w.th.size(); ++i)
        if (w.th[i])
            ids[i] = w.th[i]->id();
    for (auto& t : w.th)
        t.reset();
    w.db.reset();
    shim::reset_dbs();
    auto loaded = w.schema == dj::engine::engine_schema::schema_1_7_1 ? dj::engine::engine_schema::schema_1_6_0 : dj::engine::engine_schema::schema_1_7_1;
    auto oc = vh::guarded("load_database", [&] { w.db = dj::engine::load_database(w.dir, loaded); });
    rec["out"] = oc.ok ? "ok" : "throw";
    if (!oc.ok)
    {
        rec["ex"] = oc.ex;
        w.dead = true;
        return;
    }
    rec["loaded"] = vh::name_of(loaded);
    rec["want"] = w.schema_name;
    w.conn = shim::last_db();
    rec["csame"] = vh::raw_reader{w.conn}.digest() == d0;
    for (size_t i = 1; i < ids.size(); ++i)
        if (ids[i])
        {
            auto t = w.db->track_by_id(ids[i]);
            if (t)
                w.th[i] = *t;
        }
}

void exec_op(world& w, const json& op)
{
    std::string name = op.at("op").get<std::string>();
    json rec = {{"e", "call"}, {"op", name}};
    const bool probe = op.value("probe", false);
    if (probe)
        rec["probe"] = true;   // an unmodelled call (stale handle, extreme argument): judged for safety only (C15)
    int64_t newid = 0;
    std::function<void()> f;
    json s1, s2;
    try
    {
        if (name == "create")
        {
            auto snap = std::make_shared<dj::track_snapshot>(sj::from_json(op.at("snap")));
            rec["in"] = sj::to_json(*snap);
            rec["pathinfo"] = pathinfo(snap->relative_path);
            f = [&w, snap, &newid] {
                auto t = w.db->create_track(*snap);
                newid = t.id();
                w.th.push_back(t);
            };
        }
        else if (name == "update")
        {
            auto& t = T(w, op);
            rec["t"] = t.id();
            auto snap = std::make_shared<dj::track_snapshot>(sj::from_json(op.at("snap")));
            rec["in"] = sj::to_json(*snap);
            rec["pathinfo"] = pathinfo(snap->relative_path);
            f = [&t, snap] { t.update(*snap); };
        }
        else if (name == "set")
        {
            auto& t = T(w, op);
            rec["t"] = t.id();
            rec["f"] = op.at("f");
            json in, inb;
            f = make_setter(t, op.at("f").get<std::string>(), op.at("v"), in, inb);
            rec["in"] = in;
            if (w.blobs)
                rec["inb"] = inb;
            if (op.at("f") == "relative_path")
                rec["pathinfo"] = pathinfo(op.at("v").empty() ? std::optional<std::string>{std::string()}
                                                               : std::optional<std::string>{sj::expand(op.at("v").at(0).get<std::string>())});
        }
        else if (name == "remove")
        {
            auto& t = T(w, op);
            rec["t"] = t.id();
            f = [&w, &t] { w.db->remove_track(t); };
        }
        else if (name == "foreign")
        {
            // a blob as another writer (Engine DJ itself) would have stored it; `v` is the value it encodes (echoed for TLC)
            auto& t = T(w, op);
            int64_t id = t.id();
            rec["t"] = id;
            rec["col"] = op.at("col");
            rec["payload"] = op.at("payload");
            rec["v"] = op.at("v");
            std::string col = op.at("col").get<std::string>();
            json payload = op.at("payload");
            f = [&w, id, col, payload] {
                if (!write_foreign(w, id, col, payload))
                    throw std::runtime_error("harness: could not store the foreign blob");
            };
        }
        else if (name == "fixpoint")
        {
            auto& t = T(w, op);
            rec["t"] = t.id();
            f = [&t, &s1, &s2] {
                auto a = t.snapshot();
                s1 = sj::to_json(a);
                t.update(a);
                s2 = sj::to_json(t.snapshot());
            };
        }
        else if (name == "reopen")
        {
            rec["e"] = "reopen";
            do_reopen(w, rec);
            if (!w.dead)
                observation_phase(w, rec);
            vh::emit(rec);
            return;
        }
        else
        {
            vh::emit({{"e", "skip"}, {"why", "unknown op " + name}});
            w.dead = true;
            return;
        }
    }
    catch (const missing_handle&)
    {
        vh::emit({{"e", "skip"}, {"why", "no-handle"}, {"op", name}});
        w.dead = true;
        return;
    }
    // Lock sweep (library on disk; DESIGN.md 13.14): every call is first attempted while another connection takes an
    // EXCLUSIVE / RESERVED / SHARED lock on every database file right before the call's k-th statement, k = 1, 2, ...
    if (w.locks && !probe)
    {
        bool done = false;
        for (int k = 1; k <= 96 && !done && !w.dead; ++k)
            for (int want = 4; want >= 1 && !done && !w.dead;)
            {
                json r = rec;
                size_t nth = w.th.size();
                std::string d0 = vh::raw_reader{w.conn}.digest();
                newid = 0;
                auto la = vh::lock_attempt(w.conn, k, want, name.c_str(), f);
                auto& oc = la.oc;
                want = la.next_want;
                r["out"] = oc.ok ? "ok" : "throw";
                r["ex"] = oc.ex;
                r["std"] = oc.std_exc;
                r["new"] = newid;
                r["ns"] = shim::n_prepared();
                if (name == "fixpoint" && oc.ok)
                {
                    r["s1"] = s1;
                    r["s2"] = s2;
                }
                r["lk"] = la.lk;
                if (la.any_busy)
                {
                    r["fault"] = {{"k", la.fail_k}, {"fired", true}, {"lock", la.lk["lvl"]}};
                    r["dsame"] = vh::raw_reader{w.conn}.digest() == d0;
                    if (oc.ok)
                        w.th.resize(nth);
                }
                else
                    done = true;
                observation_phase(w, r);
                if (!la.any_busy && op.contains("exp") && op["exp"].get<std::string>() != r["out"].get<std::string>())
                    r["diverged"] = true;
                vh::emit(r);
            }
        if (!done && !w.dead)
        {
            vh::emit({{"e", "skip"}, {"why", "lock sweep did not reach the end of the call"}});
            w.dead = true;
        }
        return;
    }
    int fault = op.value("fault", 0);
    int k = w.sweep ? 1 : fault;
    for (;; ++k)
    {
        json r = rec;
        size_t nth = w.th.size();
        std::string d0;
        if (k)
            d0 = vh::raw_reader{w.conn}.digest();
        newid = 0;
        shim::begin_call();
        shim::set_logging(w.want_stmts);
        shim::set_fault(k);
        auto oc = vh::guarded(name.c_str(), f);
        bool fired = shim::fault_fired();
        shim::set_fault(0);
        r["out"] = oc.ok ? "ok" : "throw";
        r["ex"] = oc.ex;
        r["std"] = oc.std_exc;
        r["new"] = newid;
        r["ns"] = shim::n_prepared();
        if (name == "fixpoint" && oc.ok)
        {
            r["s1"] = s1;
            r["s2"] = s2;
        }
        if (k)
        {
            r["fault"] = {{"k", k}, {"fired", fired}};
            if (fired)
                r["dsame"] = vh::raw_reader{w.conn}.digest() == d0;
        }
        // no call - completed, refused or failed - returns with a transaction still open on its connection
        if (w.conn)
            r["ac"] = sqlite3_get_autocommit(w.conn) != 0;
        if (w.want_stmts && !fired)   // (complete executions only: the discipline is judged on whole calls)
        {
            json st = json::array();
            for (auto& s : shim::stmts())
                st.push_back({{"k", s.k}, {"ro", s.readonly}, {"rc", s.rc}, {"f", s.faulted}, {"c", s.cls}, {"chg", s.chg}, {"sql", s.sql.substr(0, 120)}});
            r["stmts"] = st;
        }
        if (fired && oc.ok)
            w.th.resize(nth);
        observation_phase(w, r);
        if (probe && w.dead && r.contains("obs_throw") && r["obs_throw"].value("std", false))
            w.dead = false;
        bool last_attempt = !(w.sweep && fired && k < 64);
        if (last_attempt && !fired && op.contains("exp") && op["exp"].get<std::string>() != r["out"].get<std::string>())
            r["diverged"] = true;
        vh::emit(r);
        if (last_attempt || w.dead)
            break;
    }
}
}  // namespace

int main(int argc, char** argv)
{
    if (argc < 3)
        return 2;
    long skip = 0;
    for (int i = 3; i + 1 < argc; i += 2)
    {
        if (!strcmp(argv[i], "--skip"))
            skip = atol(argv[i + 1]);
        else if (!strcmp(argv[i], "--watchdog"))
            vh::g_watchdog_s = atoi(argv[i + 1]);
    }
    std::ifstream in(argv[1]);
    FILE* out = fopen(argv[2], skip ? "a" : "w");
    if (!in || !out)
        return 2;
    vh::g_trace_fd = fileno(out);
    vh::install_handlers();
    g_tmp_root = "/dev/shm/verif.t." + std::to_string(getpid());
    fs::create_directories(g_tmp_root);
    world w;
    bool have = false;
    long exec_no = 0;
    std::string line;
    while (std::getline(in, line))
    {
        if (line.empty())
            continue;
        json op = json::parse(line);
        if (op.at("op") == "reset")
        {
            ++exec_no;
            if (have)
                end_world(w);
            have = false;
            if (exec_no <= skip)
                continue;
            json r = {{"e", "reset"}, {"x", exec_no}, {"schema", op.at("schema")}, {"mode", op.value("mode", "mem")}, {"sid", op.value("sid", "")},
                      {"family", vh::is_v2(vh::schema_by_name(op.at("schema"))) ? "v2" : "v1"}};
            auto oc = vh::guarded("reset", [&] { start_world(w, op); });
            r["out"] = oc.ok ? "ok" : "throw";
            if (!oc.ok)
            {
                w.dead = true;
                vh::emit(r);
                continue;
            }
            have = true;
            observation_phase(w, r);
            vh::emit(r);
            continue;
        }
        if (exec_no <= skip || !have || w.dead)
            continue;
        exec_op(w, op);
    }
    if (have)
        end_world(w);
    std::error_code ec;
    fs::remove_all(g_tmp_root, ec);
    fclose(out);
    return 0;
}
