#include "shim.hpp"

#include <zlib.h>

#include <unistd.h>

#include <cstring>
#include <unordered_map>

extern "C"
{
    int __real_sqlite3_prepare_v2(sqlite3*, const char*, int, sqlite3_stmt**, const char**);
    int __real_sqlite3_step(sqlite3_stmt*);
    int __real_sqlite3_open_v2(const char*, sqlite3**, int, const char*);
    int __real_inflate(z_streamp, int);
    int __real_deflate(z_streamp, int);
    void* __asan_region_is_poisoned(void*, size_t) __attribute__((weak));
}

namespace
{
std::vector<shim::stmt_rec> g_stmts;
std::unordered_map<sqlite3_stmt*, int> g_index;  // stmt -> index into g_stmts (+1), current call only
int g_prepared = 0;
int g_writes = 0;
int g_fault_k = 0;
int g_fault_rc = SQLITE_IOERR;
int g_crash_k = 0;   // the process dies right before the k-th prepared statement of the call is first stepped (0 = off)
bool g_fault_fired = false;
int g_hook_k = 0;
std::function<void()> g_hook;
bool g_hook_fired = false;
bool g_explain = false;
int g_seq = 0;
bool g_logging = true;
bool g_inside = false;  // the harness's own (independent reader) statements are not counted

std::vector<shim::zrec> g_z;
long g_zcalls = 0, g_zlimit = 0;
bool g_zover = false;

std::vector<sqlite3*> g_dbs;

bool addressable(const void* p, long n)
{
    if (n <= 0 || p == nullptr)
        return n <= 0;
    if (&__asan_region_is_poisoned == nullptr)
        return true;
    return __asan_region_is_poisoned(const_cast<void*>(p), (size_t)n) == nullptr;
}
}  // namespace

namespace shim
{
void begin_call()
{
    g_stmts.clear();
    g_index.clear();
    g_prepared = 0;
    g_writes = 0;
    g_fault_fired = false;
    g_hook_fired = false;
    g_seq = 0;
}
void set_hook(int k, std::function<void()> fn) { g_hook_k = k; g_hook = std::move(fn); g_hook_fired = false; }
bool hook_fired() { return g_hook_fired; }
void set_explain(bool on) { g_explain = on; }
const std::vector<stmt_rec>& stmts() { return g_stmts; }
int n_prepared() { return g_prepared; }
int n_writes() { return g_writes; }
void set_fault(int k) { g_fault_k = k; g_fault_fired = false; }
void set_fault_rc(int rc) { g_fault_rc = rc; }
void set_crash(int k) { g_crash_k = k; }
bool fault_fired() { return g_fault_fired; }
void set_logging(bool on) { g_logging = on; }

void z_begin() { g_z.clear(); g_zcalls = 0; g_zover = false; }
const std::vector<zrec>& zlog() { return g_z; }
void z_set_limit(long n) { g_zlimit = n; }
bool z_over_limit() { return g_zover; }

sqlite3* last_db() { return g_dbs.empty() ? nullptr : g_dbs.back(); }
const std::vector<sqlite3*>& all_dbs() { return g_dbs; }
void reset_dbs() { g_dbs.clear(); }
}  // namespace shim

extern "C"
{
    int __wrap_sqlite3_open_v2(const char* filename, sqlite3** db, int flags, const char* vfs)
    {
        int rc = __real_sqlite3_open_v2(filename, db, flags, vfs);
        if (rc == SQLITE_OK && db && *db)
            g_dbs.push_back(*db);
        return rc;
    }

    int __wrap_sqlite3_prepare_v2(sqlite3* db, const char* sql, int n, sqlite3_stmt** stmt, const char** tail)
    {
        int rc = __real_sqlite3_prepare_v2(db, sql, n, stmt, tail);
        if (rc == SQLITE_OK && stmt && *stmt)
        {
            ++g_prepared;
            shim::stmt_rec r;
            r.k = g_prepared;
            r.readonly = sqlite3_stmt_readonly(*stmt) != 0;
            r.faulted = false;
            r.rc = -1;
            r.is_rollback = sql && strncasecmp(sql, "ROLLBACK", 8) == 0;
            r.cls = r.is_rollback ? "rollback"
                    : (sql && strncasecmp(sql, "BEGIN", 5) == 0) ? "begin"
                    : (sql && (strncasecmp(sql, "COMMIT", 6) == 0 || strncasecmp(sql, "END", 3) == 0)) ? "commit"
                    : r.readonly ? "read" : "write";
            if (g_explain && sql)
            {
                // which databases does the statement open a transaction on?  (its own EXPLAIN listing, same connection)
                std::string ex = "EXPLAIN " + std::string(sql, n >= 0 ? strnlen(sql, (size_t)n) : strlen(sql));
                sqlite3_stmt* est = nullptr;
                if (__real_sqlite3_prepare_v2(db, ex.c_str(), -1, &est, nullptr) == SQLITE_OK && est)
                {
                    r.explained = true;
                    while (__real_sqlite3_step(est) == SQLITE_ROW)
                    {
                        const unsigned char* opc = sqlite3_column_text(est, 1);
                        if (opc && strcmp((const char*)opc, "Transaction") == 0)
                            r.needs.emplace_back(sqlite3_column_int(est, 2), sqlite3_column_int(est, 3));
                    }
                }
                if (est)
                    sqlite3_finalize(est);
            }
            if (g_logging)
                r.sql = sql ? std::string(sql, n >= 0 ? strnlen(sql, (size_t)n) : strlen(sql)) : std::string();
            g_stmts.push_back(std::move(r));
            g_index[*stmt] = (int)g_stmts.size();
        }
        return rc;
    }

    int __wrap_sqlite3_step(sqlite3_stmt* stmt)
    {
        auto it = g_index.find(stmt);
        shim::stmt_rec* rec = it == g_index.end() ? nullptr : &g_stmts[it->second - 1];
        if (rec && rec->faulted)
            return rec->rc;  // a failed statement keeps failing, however often it is stepped
        if (rec && g_crash_k > 0 && rec->k == g_crash_k && rec->rc == -1)
            _exit(shim::CRASH_EXIT);  // crash point: no destructor, no ROLLBACK, no flush - the process is gone
        if (rec && g_fault_k > 0 && rec->k == g_fault_k && rec->rc == -1 && rec->is_rollback)
        {
            // ROLLBACK is the recovery action itself: "it fails without effect" would mean that
            // recovery is impossible by construction, which says nothing about the library.  The
            // fault does not fire on it (the sweep ends there).
            g_fault_k = 0;
        }
        if (rec && g_fault_k > 0 && rec->k == g_fault_k && rec->rc == -1)
        {
            // Fail the statement as a whole, without executing it (SQLite's statement
            // atomicity: a failing statement has no effect of its own).
            rec->faulted = true;
            rec->rc = g_fault_rc;
            g_fault_fired = true;
            g_fault_k = 0;
            return g_fault_rc;
        }
        if (rec && rec->rc == -1)
        {
            if (g_hook_k > 0 && rec->k == g_hook_k && !g_hook_fired)
            {
                g_hook_fired = true;
                g_hook_k = 0;
                if (g_hook)
                    g_hook();
            }
            rec->seq = ++g_seq;
            rec->after_hook = g_hook_fired;
        }
        sqlite3* dbh = rec ? sqlite3_db_handle(stmt) : nullptr;
        long chg0 = dbh ? sqlite3_total_changes(dbh) : 0;
        int rc = __real_sqlite3_step(stmt);
        if (rec)
        {
            if (dbh)
                rec->chg += sqlite3_total_changes(dbh) - chg0;
            if (rec->rc == -1 && !rec->readonly)
                ++g_writes;
            rec->rc = rc;
        }
        return rc;
    }

    static int zcommon(bool infl, z_streamp s, int flush)
    {
        shim::zrec r;
        r.inflate = infl;
        r.avail_in = s->avail_in;
        r.avail_out = s->avail_out;
        r.in_ok = addressable(s->next_in, s->avail_in);
        r.out_ok = addressable(s->next_out, s->avail_out);
        int ret;
        if (!r.in_ok || !r.out_ok)
        {
            // Do not let zlib touch memory the caller does not own.
            ret = Z_DATA_ERROR;
            r.used = r.made = 0;
        }
        else
        {
            ret = infl ? __real_inflate(s, flush) : __real_deflate(s, flush);
            r.used = r.avail_in - (long)s->avail_in;
            r.made = r.avail_out - (long)s->avail_out;
        }
        r.ret = ret;
        ++g_zcalls;
        if (g_z.size() < 4096)
            g_z.push_back(r);
        if (g_zlimit > 0 && g_zcalls > g_zlimit)
        {
            // A chunk loop that keeps calling without progress: break it deterministically
            // instead of waiting for a wall-clock watchdog.
            g_zover = true;
            return Z_DATA_ERROR;
        }
        return ret;
    }

    int __wrap_inflate(z_streamp s, int flush) { return zcommon(true, s, flush); }
    int __wrap_deflate(z_streamp s, int flush) { return zcommon(false, s, flush); }
}

// ---------------------------------------------------------------------------------------------------
// Sanitizer flavour only: ASan's own operator new aborts the process on a request it cannot serve
// ("allocation-size-too-big" / out of memory) where the plain run time reports the failure as
// std::bad_alloc.  A decoder that reserves storage for an absurd embedded count therefore throws an
// exception derived from std::exception in a plain build (which is what C05 / C15 ask for) but would
// die here.  Replace the allocation functions so that an impossible request (> 4 GiB in one piece) is
// reported the way the plain run time reports it; everything else goes to ASan's malloc / free, so
// bounds, use-after-free and leak checking are unchanged.
#if defined(__SANITIZE_ADDRESS__)
#include <cstddef>
#include <cstdlib>
#include <new>
namespace
{
constexpr std::size_t k_max_alloc = std::size_t{1} << 32;
inline void* alloc_or_null(std::size_t n, std::size_t al)
{
    if (n > k_max_alloc)
        return nullptr;
    if (n == 0)
        n = 1;
    if (al <= alignof(std::max_align_t))
        return std::malloc(n);
    void* p = nullptr;
    return posix_memalign(&p, al, n) == 0 ? p : nullptr;
}
inline void* alloc_or_throw(std::size_t n, std::size_t al)
{
    void* p = alloc_or_null(n, al);
    if (!p)
        throw std::bad_alloc{};
    return p;
}
}  // namespace
void* operator new(std::size_t n) { return alloc_or_throw(n, 1); }
void* operator new[](std::size_t n) { return alloc_or_throw(n, 1); }
void* operator new(std::size_t n, const std::nothrow_t&) noexcept { return alloc_or_null(n, 1); }
void* operator new[](std::size_t n, const std::nothrow_t&) noexcept { return alloc_or_null(n, 1); }
void* operator new(std::size_t n, std::align_val_t a) { return alloc_or_throw(n, static_cast<std::size_t>(a)); }
void* operator new[](std::size_t n, std::align_val_t a) { return alloc_or_throw(n, static_cast<std::size_t>(a)); }
void* operator new(std::size_t n, std::align_val_t a, const std::nothrow_t&) noexcept { return alloc_or_null(n, static_cast<std::size_t>(a)); }
void* operator new[](std::size_t n, std::align_val_t a, const std::nothrow_t&) noexcept { return alloc_or_null(n, static_cast<std::size_t>(a)); }
void operator delete(void* p) noexcept { std::free(p); }
void operator delete[](void* p) noexcept { std::free(p); }
void operator delete(void* p, std::size_t) noexcept { std::free(p); }
void operator delete[](void* p, std::size_t) noexcept { std::free(p); }
void operator delete(void* p, const std::nothrow_t&) noexcept { std::free(p); }
void operator delete[](void* p, const std::nothrow_t&) noexcept { std::free(p); }
void operator delete(void* p, std::align_val_t) noexcept { std::free(p); }
void operator delete[](void* p, std::align_val_t) noexcept { std::free(p); }
void operator delete(void* p, std::size_t, std::align_val_t) noexcept { std::free(p); }
void operator delete[](void* p, std::size_t, std::align_val_t) noexcept { std::free(p); }
void operator delete(void* p, std::align_val_t, const std::nothrow_t&) noexcept { std::free(p); }
void operator delete[](void* p, std::align_val_t, const std::nothrow_t&) noexcept { std::free(p); }
#endif
