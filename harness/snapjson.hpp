// track_snapshot <-> JSON in the canonical token form used by the track-level traces.
//
// Every value is rendered so that TLC can compare it exactly without doing floating point or wide
// arithmetic: strings as tokens ("=text" when short and printable, "#<len>:<fnv64>" otherwise, with
// the byte length alongside where a check needs it), doubles as 16 hex digits of their bit pattern,
// 64-bit integers as decimal strings, time points as whole seconds (string) + nanosecond remainder,
// optionals as arrays of length <= 1, long lists as {n, digest}.
#pragma once
#include <djinterop/djinterop.hpp>

#include <chrono>
#include <cstring>
#include <nlohmann/json.hpp>
#include <string>

namespace sj
{
using json = nlohmann::json;
namespace dj = djinterop;

inline uint64_t fnv(const void* p, size_t n, uint64_t h = 1469598103934665603ULL)
{
    auto c = (const unsigned char*)p;
    for (size_t i = 0; i < n; ++i)
    {
        h ^= c[i];
        h *= 1099511628211ULL;
    }
    return h;
}
inline std::string hex16(uint64_t v)
{
    char b[32];
    snprintf(b, sizeof b, "%016llx", (unsigned long long)v);
    return b;
}
inline std::string tok(const std::string& s)
{
    bool plain = s.size() <= 32;
    for (unsigned char c : s)
        if (c < 0x20 || c > 0x7e || c == '"' || c == '\\')
            plain = false;
    if (plain)
        return "=" + s;
    return "#" + std::to_string(s.size()) + ":" + hex16(fnv(s.data(), s.size()));
}
inline std::string dbits(double d)
{
    uint64_t u;
    memcpy(&u, &d, 8);
    return hex16(u);
}
inline double dfrom(const std::string& h)
{
    uint64_t u = std::stoull(h, nullptr, 16);
    double d;
    memcpy(&d, &u, 8);
    return d;
}
template <typename T, typename F>
json jopt(const std::optional<T>& o, F f)
{
    return o ? json::array({f(*o)}) : json::array();
}

// Generator tokens for strings in scripts: "@long<n>" = n times 'x' (last byte 'y'), "@utf8" = a multi-byte
// sample, "@nul" = embedded NUL, anything else literal.
inline std::string expand(const std::string& s)
{
    if (s.rfind("@long", 0) == 0)
    {
        size_t n = std::stoul(s.substr(5));
        std::string r(n, 'x');
        if (n)
            r[n - 1] = 'y';
        return r;
    }
    if (s == "@utf8")
        return "Bj\xc3\xb6rk \xe2\x80\x93 \xe6\x97\xa5\xe6\x9c\xac \xf0\x9f\x8e\xb5";
    return s;
}

inline json jcolor(const dj::pad_color& c, json j)
{
    j["a"] = c.a;
    j["r"] = c.r;
    j["g"] = c.g;
    j["b"] = c.b;
    return j;
}
inline json jcue(const dj::hot_cue& c)
{
    json j = json::object();
    j["label"] = tok(c.label);
    j["len"] = (int64_t)c.label.size();
    j["off"] = dbits(c.sample_offset);
    return jcolor(c.color, j);
}
inline json jloop(const dj::loop& c)
{
    json j = json::object();
    j["label"] = tok(c.label);
    j["len"] = (int64_t)c.label.size();
    j["start"] = dbits(c.start_sample_offset);
    j["stop"] = dbits(c.end_sample_offset);   // ("end" is avoided as a key: it is a reserved word on the TLA+ side)
    return jcolor(c.color, j);
}
inline json jgrid(const std::vector<dj::beatgrid_marker>& g)
{
    bool sorted = true;
    for (size_t i = 1; i < g.size(); ++i)
        if (!(g[i].index > g[i - 1].index && g[i].sample_offset > g[i - 1].sample_offset))
            sorted = false;
    json r = {{"n", (int64_t)g.size()}, {"sorted", sorted}};
    if (g.size() <= 12)
    {
        json a = json::array();
        for (auto& m : g)
            a.push_back(json::array({m.index, dbits(m.sample_offset)}));
        r["m"] = a;
    }
    else
    {
        uint64_t h = 1469598103934665603ULL;
        for (auto& m : g)
        {
            h = fnv(&m.index, sizeof m.index, h);
            h = fnv(&m.sample_offset, sizeof m.sample_offset, h);
        }
        r["m"] = hex16(h);
    }
    return r;
}
inline json jwave(const std::vector<dj::waveform_entry>& w)
{
    uint64_t h = 1469598103934665603ULL, hv = h;
    bool opq = true;
    for (auto& e : w)
    {
        uint8_t b[6] = {e.low.value, e.mid.value, e.high.value, e.low.opacity, e.mid.opacity, e.high.opacity};
        h = fnv(b, 6, h);
        hv = fnv(b, 3, hv);
        if (b[3] != 255 || b[4] != 255 || b[5] != 255)
            opq = false;
    }
    return {{"n", (int64_t)w.size()}, {"h", hex16(h)}, {"hv", hex16(hv)}, {"opaque", opq}};
}
inline json jtime(std::chrono::system_clock::time_point t)
{
    auto ns = std::chrono::duration_cast<std::chrono::nanoseconds>(t.time_since_epoch()).count();
    return {{"s", std::to_string(ns / 1000000000LL)}, {"f", (int64_t)(ns % 1000000000LL)}};
}
inline json jint(long long v)
{
    if (v > -2147483647LL && v < 2147483647LL)
        return v;
    return std::to_string(v);
}

inline json to_json(const dj::track_snapshot& s)
{
    json j;
    auto st = [](const std::string& x) { return json(tok(x)); };
    auto db = [](double x) { return json(dbits(x)); };
    auto in = [](int x) { return json(x); };
    j["album"] = jopt(s.album, st);
    j["artist"] = jopt(s.artist, st);
    j["comment"] = jopt(s.comment, st);
    j["composer"] = jopt(s.composer, st);
    j["genre"] = jopt(s.genre, st);
    j["title"] = jopt(s.title, st);
    j["publisher"] = jopt(s.publisher, st);
    j["relative_path"] = jopt(s.relative_path, st);
    j["average_loudness"] = jopt(s.average_loudness, db);
    j["bpm"] = jopt(s.bpm, db);
    j["main_cue"] = jopt(s.main_cue, db);
    j["sample_rate"] = jopt(s.sample_rate, db);
    j["bitrate"] = jopt(s.bitrate, in);
    j["track_number"] = jopt(s.track_number, in);
    j["year"] = jopt(s.year, in);
    j["rating"] = jopt(s.rating, in);
    j["key"] = s.key ? json::array({(int)*s.key}) : json::array();
    j["duration"] = s.duration ? json::array({jint(s.duration->count())}) : json::array();
    j["file_bytes"] = s.file_bytes ? json::array({std::to_string(*s.file_bytes)}) : json::array();
    j["sample_count"] = s.sample_count ? json::array({std::to_string(*s.sample_count)}) : json::array();
    j["last_played_at"] = s.last_played_at ? json::array({jtime(*s.last_played_at)}) : json::array();
    j["beatgrid"] = jgrid(s.beatgrid);
    json cues = json::array(), loops = json::array();
    for (auto& c : s.hot_cues)
        cues.push_back(c ? json::array({jcue(*c)}) : json::array());
    for (auto& l : s.loops)
        loops.push_back(l ? json::array({jloop(*l)}) : json::array());
    j["hot_cues"] = cues;
    j["loops"] = loops;
    j["waveform"] = jwave(s.waveform);
    return j;
}

// ---- script side: a snapshot description with concrete values (strings may be generator tokens) ----
inline dj::pad_color color_of(const json& c)
{
    return dj::pad_color{(uint8_t)c.value("r", 10), (uint8_t)c.value("g", 20), (uint8_t)c.value("b", 30), (uint8_t)c.value("a", 255)};
}
inline dj::hot_cue cue_of(const json& c) { return dj::hot_cue{expand(c.value("label", "")), dfrom(c.at("off")), color_of(c)}; }
inline dj::loop loop_of(const json& c) { return dj::loop{expand(c.value("label", "")), dfrom(c.at("start")), dfrom(c.at("end")), color_of(c)}; }
inline std::vector<dj::beatgrid_marker> grid_of(const json& g)
{
    std::vector<dj::beatgrid_marker> r;
    for (auto& m : g)
        r.push_back(dj::beatgrid_marker{m.at(0).get<int>(), dfrom(m.at(1))});
    return r;
}
// waveform generator: {"n": N, "seed": k, "opaque": bool}
inline std::vector<dj::waveform_entry> wave_of(const json& w)
{
    std::vector<dj::waveform_entry> r;
    size_t n = w.value("n", 0);
    unsigned k = w.value("seed", 1);
    bool opq = w.value("opaque", true);
    for (size_t i = 0; i < n; ++i)
    {
        k = k * 1103515245u + 12345u;
        dj::waveform_entry e;
        e.low = {(uint8_t)(k >> 8), (uint8_t)(opq ? 255 : (k >> 3))};
        e.mid = {(uint8_t)(k >> 16), (uint8_t)(opq ? 255 : (k >> 5))};
        e.high = {(uint8_t)(k >> 24), (uint8_t)(opq ? 255 : (k >> 7))};
        r.push_back(e);
    }
    return r;
}
inline std::chrono::system_clock::time_point time_of(const json& t)
{
    long long s = std::stoll(t.at("s").get<std::string>());
    long long f = t.value("f", 0);
    return std::chrono::system_clock::time_point{
        std::chrono::duration_cast<std::chrono::system_clock::duration>(std::chrono::nanoseconds{s * 1000000000LL + f})};
}

template <typename T, typename F>
void get_opt(const json& j, const char* k, std::optional<T>& dst, F f)
{
    if (!j.contains(k) || j.at(k).empty())
    {
        dst = std::nullopt;
        return;
    }
    dst = f(j.at(k).at(0));
}

inline dj::track_snapshot from_json(const json& j)
{
    dj::track_snapshot s;
    auto st = [](const json& x) { return expand(x.get<std::string>()); };
    auto db = [](const json& x) { return dfrom(x.get<std::string>()); };
    auto in = [](const json& x) { return x.get<int>(); };
    get_opt(j, "album", s.album, st);
    get_opt(j, "artist", s.artist, st);
    get_opt(j, "comment", s.comment, st);
    get_opt(j, "composer", s.composer, st);
    get_opt(j, "genre", s.genre, st);
    get_opt(j, "title", s.title, st);
    get_opt(j, "publisher", s.publisher, st);
    get_opt(j, "relative_path", s.relative_path, st);
    get_opt(j, "average_loudness", s.average_loudness, db);
    get_opt(j, "bpm", s.bpm, db);
    get_opt(j, "main_cue", s.main_cue, db);
    get_opt(j, "sample_rate", s.sample_rate, db);
    get_opt(j, "bitrate", s.bitrate, in);
    get_opt(j, "track_number", s.track_number, in);
    get_opt(j, "year", s.year, in);
    get_opt(j, "rating", s.rating, in);
    if (j.contains("key") && !j.at("key").empty())
        s.key = static_cast<dj::musical_key>(j.at("key").at(0).get<int>());
    if (j.contains("duration") && !j.at("duration").empty())
        s.duration = std::chrono::milliseconds{j.at("duration").at(0).get<long long>()};
    if (j.contains("file_bytes") && !j.at("file_bytes").empty())
        s.file_bytes = std::stoull(j.at("file_bytes").at(0).get<std::string>());
    if (j.contains("sample_count") && !j.at("sample_count").empty())
        s.sample_count = std::stoull(j.at("sample_count").at(0).get<std::string>());
    if (j.contains("last_played_at") && !j.at("last_played_at").empty())
        s.last_played_at = time_of(j.at("last_played_at").at(0));
    if (j.contains("beatgrid"))
        s.beatgrid = grid_of(j.at("beatgrid"));
    if (j.contains("hot_cues"))
        for (auto& c : j.at("hot_cues"))
            s.hot_cues.push_back(c.empty() ? std::nullopt : std::make_optional(cue_of(c.at(0))));
    if (j.contains("loops"))
        for (auto& c : j.at("loops"))
            s.loops.push_back(c.empty() ? std::nullopt : std::make_optional(loop_of(c.at(0))));
    if (j.contains("waveform"))
        s.waveform = wave_of(j.at("waveform"));
    return s;
}
}  // namespace sj
