// Link-level seam between the library under test and SQLite / zlib.
//
// The harness links the library's own objects statically with
//   -Wl,--wrap=sqlite3_prepare_v2,--wrap=sqlite3_step,--wrap=sqlite3_open_v2,--wrap=inflate,--wrap=deflate
// so every statement the library prepares or steps and every zlib hand-off goes through
// shim.cpp.  No source hook in /repo is needed for this.
#pragma once
#include <sqlite3.h>

#include <cstdint>
#include <functional>
#include <utility>
#include <string>
#include <vector>

namespace shim
{
struct stmt_rec
{
    int k;            // 1-based position of the statement within the current call
    bool readonly;    // sqlite3_stmt_readonly
    bool faulted;     // the shim failed this statement on request
    bool is_rollback = false;
    int rc;           // last result of sqlite3_step
    std::string sql;  // statement text (unexpanded)
    long chg = 0;     // rows changed while this statement was stepped (sqlite3_total_changes delta, triggers included)
    const char* cls = "read";  // "begin" | "commit" | "rollback" | "read" | "write" (transaction-discipline spec)
    int seq = 0;      // order of the first step among the statements of the call (0 = never stepped)
    bool after_hook = false;   // first stepped after the hook of this call fired
    // which databases of the connection the statement needs a read / write transaction on (OP_Transaction of its
    // EXPLAIN listing: database index, write flag); only filled in while explain mode is on
    std::vector<std::pair<int, int>> needs;
    bool explained = false;
};

struct zrec
{
    bool inflate;  // inflate or deflate
    long avail_in, avail_out, used, made;
    int ret;
    bool in_ok, out_ok;  // [next_in, +avail_in) / [next_out, +avail_out) addressable (sanitizer flavour)
};

// Per-call bookkeeping -------------------------------------------------------------------
void begin_call();                     // resets the statement counter and log
const std::vector<stmt_rec>& stmts();  // statements prepared since begin_call()
int n_prepared();                      // number of statements prepared since begin_call()
int n_writes();                        // stepped statements that were not read-only
void set_fault(int k);                 // fail the k-th prepared statement at its first step (0 = off)
void set_fault_rc(int rc);             // result code used for injected faults (default SQLITE_IOERR)
bool fault_fired();
constexpr int CRASH_EXIT = 42;
void set_crash(int k);                 // _exit(CRASH_EXIT) right before the k-th prepared statement is first stepped (0 = off);
                                       // only meaningful in a forked child that owns its own connection
void set_logging(bool on);             // keep the sql text log (off = only counters)
void set_hook(int k, std::function<void()> fn);   // call fn right before the k-th prepared statement is first stepped (0 = off)
bool hook_fired();
void set_explain(bool on);             // record for every prepared statement which databases it locks (EXPLAIN)

// zlib hand-offs -----------------------------------------------------------------------
void z_begin();
const std::vector<zrec>& zlog();
void z_set_limit(long max_calls);  // after this many inflate/deflate calls in one z_begin() window: flag
bool z_over_limit();

// Connections ------------------------------------------------------------------------
sqlite3* last_db();                         // most recently opened connection
const std::vector<sqlite3*>& all_dbs();     // every connection opened since reset_dbs()
void reset_dbs();
}  // namespace shim
